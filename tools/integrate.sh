#!/bin/sh
# usage: integrate.sh CXX  -> copy /tmp/zvw-CXX/harness/src/props/cxx.rs into the harness and register it
set -e
id="$1"; lid=$(echo "$id" | tr A-Z a-z)
cp "/tmp/zvw-$id/harness/src/props/$lid.rs" "/verif/harness/src/props/$lid.rs"
python3 - "$id" "$lid" <<'PY'
import sys,re
id,lid=sys.argv[1:3]
p='/verif/harness/src/props/mod.rs'; s=open(p).read()
if f'pub mod {lid};' not in s:
    mods=sorted(set(re.findall(r'pub mod (c\d+);',s))|{lid})
    ids=[m.upper() for m in mods]
    out='use crate::ctx::Ctx;\n'+''.join(f'pub mod {m};\n' for m in mods)
    out+='\npub const ALL: &[&str] = &['+', '.join(f'"{i}"' for i in ids)+'];\n\n'
    out+='pub fn run(prop: &str, ctx: &mut Ctx) -> bool {\n    match prop {\n'+''.join(f'        "{m.upper()}" => {m}::run(ctx),\n' for m in mods)+'        _ => return false,\n    }\n    true\n}\n'
    open(p,'w').write(out)
print(open(p).read())
PY
