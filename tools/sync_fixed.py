#!/usr/bin/env python3
"""Regenerate the "fixed" list of known_findings.json from the fix: commits in /repo.
Property attribution: subject -> property map kept in tools/fix_props.json (extended from the per-property clones when present)."""
import json, subprocess, os, glob
V=os.path.dirname(os.path.dirname(os.path.abspath(__file__)))
mp_path=os.path.join(V,'tools','fix_props.json')
mp=json.load(open(mp_path)) if os.path.exists(mp_path) else {}
for d in glob.glob('/tmp/zvw-C*/repo'):
    p=d.split('-')[1].split('/')[0]
    try:
        out=subprocess.check_output(['git','-C',d,'log','--format=%s',f'fixes-{p}','-60'],stderr=subprocess.DEVNULL).decode().splitlines()
    except Exception: continue
    for s in out:
        if s.startswith('fix:') and s not in mp: mp[s]=p
log=subprocess.check_output(['git','-C','/repo','log','--reverse','--format=%h\t%s']).decode().splitlines()
fixed=[]; unknown=[]
for l in log:
    h,s=l.split('\t',1)
    if not s.startswith('fix:'): continue
    p=mp.get(s)
    if not p: unknown.append(s); continue
    fixed.append(f"fixed: property={p} {h} {s[4:].strip()}")
json.dump(mp,open(mp_path,'w'),indent=0,sort_keys=True)
kf=json.load(open(os.path.join(V,'known_findings.json')))
kf['fixed']=fixed
json.dump(kf,open(os.path.join(V,'known_findings.json'),'w'),indent=1)
print(len(fixed),'fixed entries;',len(unknown),'unattributed:'); [print('  ',u) for u in unknown]
