#!/usr/bin/env python3
"""Regenerate the "fixed" list of known_findings.json from the fix: commits in /repo.
Property attribution: subject -> property map kept in tools/fix_props.json."""
import json, subprocess, os, glob
V=os.path.dirname(os.path.dirname(os.path.abspath(__file__)))
mp_path=os.path.join(V,'tools','fix_props.json')
mp=json.load(open(mp_path)) if os.path.exists(mp_path) else {}
# (attribution: tools/fix_props.json; entries whose recorded property does not anchor any file the commit touches were
# re-attributed by anchor file on 2026-10-02)
log=subprocess.check_output(['git','-C','/repo','log','--reverse','--format=%h\t%s']).decode().splitlines()
fixed=[]; unknown=[]
for l in log:
    h,s=l.split('\t',1)
    if not s.startswith('fix:'): continue
    p=mp.get(s)
    if not p: unknown.append(s); continue
    fixed.append(f"fixed: property={p} {h} {s[4:].strip()}")
json.dump(mp,open(mp_path,'w'),indent=0,sort_keys=True)
kf=json.load(open(os.path.join(V,'known_findings.json')))
kf['fixed']=fixed
json.dump(kf,open(os.path.join(V,'known_findings.json'),'w'),indent=1)
print(len(fixed),'fixed entries;',len(unknown),'unattributed:'); [print('  ',u) for u in unknown]
