#!/bin/sh
# usage: mkgap.sh CXX   -> prepares /tmp/gap-CXX (harness copy pointing at /tmp/hw/repo, prebuilt target, PROPERTY.json, GAPS.txt)
ID=$1; id=$(echo $ID | tr 'C' 'c'); d=/tmp/gap-$ID
rm -rf $d; mkdir -p $d
rsync -a /verif/harness/ $d/harness/ --exclude target
sed -i 's#path = "/repo"#path = "/tmp/hw/repo"#' $d/harness/Cargo.toml
cp /repo/Cargo.lock $d/harness/Cargo.lock 2>/dev/null
cp -a /tmp/hw/target $d/target
python3 -c "
import json
for l in open('/verif/properties.jsonl'):
    j=json.loads(l)
    if j['id']=='$ID': json.dump(j,open('$d/PROPERTY.json','w'),indent=1)
"
/verif/tools/covgaps.py $ID /tmp/hw/cov /tmp/hw/target-cov/debug/zv /tmp/hw/repo > $d/GAPS.txt 2>&1
sed "s/@ID@/$ID/g; s/@id@/$id/g" /verif/tools/gap_prompt.txt > $d/PROMPT.txt
head -1 $d/GAPS.txt
