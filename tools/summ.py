#!/usr/bin/env python3
"""Summarise one or more zv worker output files: per (target, verdict, oracle) counts and first example of each failure."""
import sys, json, collections
recs = []
for p in sys.argv[1:]:
    for l in open(p, errors="replace"):
        try: recs.append(json.loads(l))
        except Exception: pass
ends = [r for r in recs if r.get("t") == "end"]
begun = {r["n"]: r for r in recs if r.get("t") == "begin"}; ended = {r["n"] for r in ends}
print(f"cases={len(ends)} total_ms={sum(r.get('ms',0) for r in ends)} nontrivial={sum(1 for r in ends if r.get('nt'))} distinct={len({(r['target'],r['h']) for r in ends if r.get('nt')})} events={sum(r.get('ev',0) for r in ends)}")
open_cases = [b for n, b in begun.items() if n not in ended]
if open_cases: print("UNFINISHED (worker died here?):", [b["key"] for b in open_cases][:5])
c = collections.Counter((r["target"], r["v"], r.get("oracle", "")) for r in ends)
first = {}
for r in ends:
    k = (r["target"], r["v"], r.get("oracle", ""))
    if r["v"] != "held" and k not in first: first[k] = r
for k, v in sorted(c.items()):
    print(f"{k[0]:32} {k[1]:7} {v:6}  {k[2]}")
print()
slow = sorted(ends, key=lambda r: -r.get("ms", 0))[:5]
print("slowest:", [(r["key"], r["ms"]) for r in slow])
for k, r in sorted(first.items()):
    print(f"--- {k[0]} | {k[2]}\n    key={r['key']} tags={r.get('tags')}\n    detail={r.get('detail','')[:600]}\n    input={r.get('desc','')[:400]}")
for r in recs:
    if r.get("t") in ("stat",): print("stat", r["k"], r["v"])
