#!/usr/bin/env python3
"""Generate the data-driven tables of DESIGN.md section 12 from evidence/, known_findings.json, /repo git log and seeded/."""
import json, os, glob, subprocess, collections, sys
V=os.path.dirname(os.path.dirname(os.path.abspath(__file__)))
sys.path.insert(0,V)
from checkconf import PROPS
out=[]
out.append("### 12.2 Checks as registered (numbers from the last quick run in this sandbox, seed 1)\n")
out.append("| prop | level | passes (quick) | targets | cases | distinct non-trivial | oracle events | known findings matched | wall s |")
out.append("|---|---|---|---|---|---|---|---|---|")
for p in sorted(PROPS):
    c=PROPS[p]; ev=None
    try: ev=json.load(open(f"{V}/evidence/{p}.json"))
    except Exception: pass
    passes="+".join(x.get("name",x.get("variant","fast")) for x in c["quick"])
    if ev:
        cov=ev["coverage"]
        out.append(f"| {p} | {c.get('level','exploration')} | {passes} | {len(cov.get('per_target',{}))} | {cov['evaluations']} | {cov['distinct_nontrivial']} | {cov.get('oracle_events',0)} | {sum(cov.get('known_findings_matched',{}).values())} | {ev['wall_s']} |")
    else:
        out.append(f"| {p} | {c.get('level','exploration')} | {passes} | - | - | - | - | - | - |")
out.append("")
kf=json.load(open(f"{V}/known_findings.json"))
out.append("### 12.4 Open known findings (known_findings.json)\n")
out.append("| id | property | target | oracle | tag | what |")
out.append("|---|---|---|---|---|---|")
for k in kf["findings"]:
    out.append(f"| {k['id']} | {k['property']} | `{k.get('target','*')}` | `{k.get('oracle','*')}` | {k.get('tag') or '-'} | {k['what'][:260]} |")
out.append("")
byp=collections.defaultdict(list)
for f in kf["fixed"]:
    parts=f.split(" ",3); byp[parts[1].split("=")[1]].append((parts[2],parts[3]))
out.append(f"### 12.3 Genuine defects repaired ({len(kf['fixed'])} `fix:` commits in /repo, one per defect)\n")
for p in sorted(byp):
    out.append(f"**{p}** ({len(byp[p])}): "+"; ".join(f"`{h}` {w[:110]}" for h,w in byp[p])+"\n")
out.append("### 12.6 Seeded changes and which check caught them\n")
out.append("| id | property | what was changed | needs | quick check result | signatures reported |")
out.append("|---|---|---|---|---|---|")
res={}
try:
    for l in open(f"{V}/seeded/RESULTS.tsv"):
        a=l.rstrip("\n").split("\t")
        if len(a)>=5: res.setdefault(a[0],[]).append(a)
except FileNotFoundError: pass
for d in sorted(glob.glob(f"{V}/seeded/C*")):
    m=os.path.basename(d)
    try: meta=json.load(open(d+"/meta.json"))
    except Exception: continue
    rs=res.get(m) or [None]
    for i,r in enumerate(rs):
        verdict="not run" if not r else ("**caught** (exit 1)" if "rc=1" in r[3] else ("MISSED (exit 0)" if "rc=0" in r[3] else r[3]))
        if len(rs)>1: verdict += " (first run)" if i==0 else " (after strengthening)"
        sigs=(r[4] if r else "")[:160]
        out.append(f"| {m} | {meta.get('property')} | {meta.get('what','')[:200].replace('|','/') if i==0 else '(same change)'} | {meta.get('needs','')[:160].replace('|','/') if i==0 else ''} | {verdict} | `{sigs}` |")
open(f"{V}/tools/design12_generated.md","w").write("\n".join(out)+"\n")
print("written", len(out), "lines")
