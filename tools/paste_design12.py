#!/usr/bin/env python3
"""Insert / refresh the generated sections 12.2, 12.3, 12.4 (after 12.1) and 12.6 (after 12.5) of DESIGN.md from tools/design12_generated.md."""
import re, os
V=os.path.dirname(os.path.dirname(os.path.abspath(__file__)))
g=open(os.path.join(V,'tools','design12_generated.md')).read()
secs={}
parts=re.split(r'(?m)^(?=### 12\.\d+ )', g)
for p in parts:
    m=re.match(r'### (12\.\d+) ', p)
    if m: secs[m.group(1)]=p.rstrip('\n')+'\n\n'
d=open(os.path.join(V,'DESIGN.md')).read()
# drop existing generated sections
for k in ('12.2','12.3','12.4','12.6'):
    d=re.sub(r'(?ms)^### '+re.escape(k)+r' .*?(?=^### 12\.|\Z)', '', d)
def before(head, text):
    global d
    i=d.index(head); d=d[:i]+text+d[i:]
before('### 12.5 ', secs['12.2']+secs['12.3']+secs['12.4'])
before('### 12.7 ', secs['12.6'])
open(os.path.join(V,'DESIGN.md'),'w').write(d)
print('pasted', sorted(secs))
