#!/bin/sh
# usage: try_mutant.sh <patch.diff> <CXX> [seed]  -> applies the patch to /repo, runs the quick check, reverts
patch="$1"; id="$2"; seed="${3:-1}"
cd /repo || exit 2
if ! git diff --quiet; then echo "repo dirty"; exit 2; fi
git apply "$patch" || { echo "patch does not apply"; exit 2; }
cd /verif
VERIF_SEED=$seed ./check "$id" --tier quick > /tmp/mutant-$id.out 2>&1; rc=$?
git -C /repo checkout -- .
echo "rc=$rc"; printf "%s\t%s\tseed=%s\trc=%s\t%s\n" "$(basename $(dirname "$patch"))" "$id" "$seed" "$rc" "$(grep -E 'signature=' /tmp/mutant-$id.out | sed 's/ cases=.*//; s/.*signature=//' | tr '\n' ';' | cut -c1-300)" >> /verif/seeded/RESULTS.tsv; grep -E "^(VIOLATION|OK|INCONCLUSIVE|KNOWN)|signature=" /tmp/mutant-$id.out | cut -c1-300 | head -12
