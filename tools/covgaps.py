#!/usr/bin/env python3
"""usage: covgaps.py <prop> <profraw-glob-dir> <binary> <repo-root>
Lists the `pub fn`s of the property's anchor files that no case of the driver reached (function-level coverage from an
-Cinstrument-coverage build of zv). A generic function that was never instantiated is absent from the binary and therefore
also reported. Maintenance tool: the result is recorded in DESIGN.md 12.10, nothing at check time depends on it."""
import sys, json, re, subprocess, glob, os
prop, d, binary, root = sys.argv[1:5]
tools = os.path.dirname(glob.glob('/root/.rustup/toolchains/nightly-*/lib/rustlib/*/bin/llvm-profdata')[0])
raws = glob.glob(f'{d}/{prop}-*.profraw')
if not raws: sys.exit(f'no profraw for {prop}')
pd = f'{d}/{prop}.profdata'
subprocess.check_call([f'{tools}/llvm-profdata', 'merge', '-sparse', '-o', pd] + raws)
anchors = None
for l in open('/verif/properties.jsonl'):
    j = json.loads(l)
    if j['id'] == prop: anchors = j['anchors']['files']
files = []
for a in anchors:
    p = os.path.join(root, a)
    if os.path.isdir(p):
        for dp, _, fs in os.walk(p): files += [os.path.join(dp, f) for f in fs if f.endswith('.rs')]
    elif os.path.exists(p): files.append(p)
lcov = subprocess.run([f'{tools}/llvm-cov', 'export', '-format=lcov', f'-instr-profile={pd}', binary] + files, capture_output=True, text=True).stdout
cov = {}  # file -> {line: count}
cur = None; names = {}
for ln in lcov.splitlines():
    if ln.startswith('SF:'): cur = ln[3:]; cov.setdefault(cur, {}); names = {}
    elif ln.startswith('FN:'):
        line, name = ln[3:].split(',', 1); names.setdefault(name, int(line.split(',')[0]))
    elif ln.startswith('FNDA:'):
        cnt, name = ln[5:].split(',', 1)
        if name in names: L = names[name]; cov[cur][L] = max(cov[cur].get(L, 0), int(cnt))
tot = 0; unc = []
for f in sorted(files):
    src = open(f, errors='replace').read().splitlines()
    # cut everything from `#[cfg(test)]` followed by `mod` to the end (tests modules are last in this code base)
    end = len(src)
    for i, l in enumerate(src):
        if l.strip().startswith('#[cfg(test)]') and i + 1 < len(src) and re.match(r'\s*(pub )?mod \w+', src[i + 1]): end = i; break
    fc = cov.get(f, {})
    for i, l in enumerate(src[:end]):
        m = re.match(r'\s*pub (?:(?:async|const|unsafe|extern "C") )*fn (\w+)', l)
        if not m: continue
        tot += 1
        hit = max([fc.get(L, 0) for L in range(i + 1, i + 4)] + [0])
        if hit == 0: unc.append((os.path.relpath(f, root), i + 1, m.group(1)))
print(f'{prop}: {tot - len(unc)}/{tot} pub fns of the anchor files reached; {len(unc)} not reached')
byf = {}
for f, L, n in unc: byf.setdefault(f, []).append(f'{n}:{L}')
for f, v in byf.items(): print(f'  {f}: ' + ' '.join(v))
