#!/bin/sh
# usage: verify_mutant.sh <id-n> <CXX> [cargo feature args]   e.g. verify_mutant.sh C04-1 C04
# Confirms in the scratch worktree that demo fails WITH the patch and passes WITHOUT it, then stores it under /verif/seeded/<id-n>/ .
m="$1"; prop="$2"; shift 2; feat="$*"
wt="/tmp/mut-$m"; cd "$wt" || exit 2
git checkout -q -- . 2>/dev/null; git clean -fdq tests/demo.rs 2>/dev/null
cp SEEDED/demo.rs tests/demo.rs
cargo test --offline $feat --test demo > SEEDED/clean.log 2>&1; rc_clean=$?
git apply SEEDED/patch.diff || { echo "patch does not apply in worktree"; exit 2; }
cargo test --offline $feat --test demo > SEEDED/mutated.log 2>&1; rc_mut=$?
rm -f tests/demo.rs
echo "$m: demo without patch rc=$rc_clean (want 0), with patch rc=$rc_mut (want != 0)"
if [ $rc_clean -eq 0 ] && [ $rc_mut -ne 0 ]; then
  d="/verif/seeded/$m"; mkdir -p "$d"; cp SEEDED/patch.diff SEEDED/demo.rs "$d/"
  python3 - "$m" "$prop" "$feat" <<'PY'
import json,sys
m,prop,feat=sys.argv[1:4]
meta=json.load(open(f'/tmp/mut-{m}/SEEDED/meta.json'))
meta['property']=prop
meta['confirmed']={"demo_without_patch":"pass","demo_with_patch":"fail","command":f"cargo test --offline {feat} --test demo".replace('  ',' '),"where":"scratch worktree of /repo (removed afterwards)"}
json.dump(meta,open(f'/verif/seeded/{m}/meta.json','w'),indent=1)
PY
  echo "stored in $d"
fi
