#!/bin/sh
# usage: mkmutant.sh CXX n "hint text"  -> creates worktree /tmp/mut-CXX-n and prompt file
set -e
id="$1"; n="$2"; hint="$3"; wt="/tmp/mut-$id-$n"
git -C /repo worktree add -q --detach "$wt" HEAD
mkdir -p "$wt/SEEDED"
python3 - "$id" "$wt" "$hint" <<'PY'
import json,sys
id,wt,hint=sys.argv[1:4]
for l in open('/verif/properties.jsonl'):
    p=json.loads(l)
    if p['id']==id:
        prop=f"{p['title']}\n\n{p['statement']}\n\nQuantified over: {p['quantifier']['text']}\n\nRelevant source files: {', '.join(p['anchors']['files'])}"
t=open('/verif/tools/mutant_prompt.txt').read()
open(wt+'/SEEDED/PROMPT.txt','w').write(t.replace('__WT__',wt).replace('__ID__',id).replace('__PROP__',prop).replace('__HINT__',hint))
PY
echo "$wt"
