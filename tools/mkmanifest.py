#!/usr/bin/env python3
"""Regenerate /verif/MANIFEST.json from checkconf.PROPS (claimed properties) and the property list."""
import json, os, sys, subprocess
V = os.path.dirname(os.path.dirname(os.path.abspath(__file__)))
sys.path.insert(0, V)
from checkconf import PROPS
props = [json.loads(l)["id"] for l in open(os.path.join(V, "properties.jsonl"))]
hooks = subprocess.check_output(["git", "-C", "/repo", "log", "--format=%H %s"]).decode().splitlines()
hook_commits = [l.split()[0] for l in hooks if l.split(" ", 1)[1].startswith("verif-hooks")]
checks = []; na = []
for p in props:
    c = PROPS.get(p)
    if not c or not c.get("claimed", True):
        na.append({"property_id": p, "reason": (c or {}).get("na_reason", "monitor not built yet in this round; see DESIGN.md for the planned check")})
        continue
    checks.append({
        "property_id": p,
        "quick_cmd": f"./check {p} --tier quick",
        "thorough_cmd": f"./check {p} --tier thorough",
        "evidence_file": f"/verif/evidence/{p}.json",
        "replay_cmd_template": "./check replay {path}",
        "engine": "zv",
        "level_claimed": {"category": c.get("level", "exploration"), "text": c["level_text"], "design_ref": c.get("design_ref", f"DESIGN.md §8 {p}")},
        "level_note": c["level_note"],
        "technique": c["technique"],
    })
m = {
    "version": 1,
    "setup_cmd": "./check --setup",
    "hooks": {"guard": "cargo feature `verif-hooks` (off by default)",
              "enable": "the harness crate /verif/harness depends on zipora = { path = \"/repo\", features = [\"verif-hooks\"] }; every check rebuilds it from /repo's working tree",
              "baseline_off_cmd": "cd /repo && cargo nextest run --workspace --no-fail-fast --tool-config-file pb:/w/lib/nextest.toml --profile pb --test-threads 8 --offline",
              "source_commits": hook_commits, "add_only": True},
    "engines": [{"name": "zv", "path": "/verif/harness", "serves_properties": [c["property_id"] for c in checks],
                 "kind_free_text": "Rust harness binary (reference-model oracles, shadow monitors, schedule-point runtime) driven by the python orchestrator ./check; variants: fast (debug assertions, opt-level 2), asan, tsan, miri"}],
    "checks": checks,
    "not_applicable": na,
    "notes": "Runtime monitoring only: every check reports what its monitors observed on the executions it produced (evidence/<id>.json); known genuine defects are listed in known_findings.json.",
}
json.dump(m, open(os.path.join(V, "MANIFEST.json"), "w"), indent=1)
print(f"MANIFEST.json: {len(checks)} checks, {len(na)} not_applicable")
