#!/bin/sh
# usage: mkscratch.sh CXX  -> creates /tmp/zvw-CXX/harness (copy of /verif/harness sources, no build output)
set -e
id="$1"; d="/tmp/zvw-$id"
mkdir -p "$d"
rsync -a --delete --exclude target /verif/harness/ "$d/harness/"
python3 - "$id" > "$d/PROPERTY.json" <<'PY'
import json,sys
for l in open('/verif/properties.jsonl'):
    p=json.loads(l)
    if p['id']==sys.argv[1]: print(json.dumps(p,indent=1))
PY
python3 - "$id" > "$d/DESIGN_SECTION.md" <<'PY'
import re,sys
s=open('/verif/DESIGN.md').read()
m=re.search(r'(### %s .*?)(?=\n### C\d\d|\n-{20,})' % sys.argv[1], s, re.S)
print(m.group(1) if m else '')
PY
echo "$d"
