//! Case runner: every property driver executes its cases through `Ctx::case`, which
//! handles sharding, BEGIN/END markers (every worker is sacrificial), panic capture,
//! per-case CPU watchdog, structural hashing and the JSON-lines report the orchestrator reads.
use crate::rng::{derive_seed, fnv1a, Rng};
use serde_json::json;
use std::collections::{BTreeMap, HashMap};
use std::fs::File;
use std::io::Write;
use std::panic::{catch_unwind, AssertUnwindSafe};
use std::sync::atomic::{AtomicU64, Ordering};
use std::sync::Mutex;
use std::time::{Duration, Instant};

#[derive(Clone, Copy, PartialEq, Eq, Debug)]
pub enum Tier { Quick, Thorough }

#[derive(Debug, Clone)]
pub struct Fail { pub oracle: String, pub detail: String }
pub type Res = Result<(), Fail>;
pub fn fail<T>(oracle: &str, detail: impl Into<String>) -> Result<T, Fail> { Err(Fail { oracle: oracle.to_string(), detail: detail.into() }) }
#[macro_export]
macro_rules! ensure {
    ($cond:expr, $oracle:expr, $($fmt:tt)*) => { if !($cond) { return Err($crate::ctx::Fail { oracle: ($oracle).to_string(), detail: format!($($fmt)*) }); } };
}

/// Marker error for "this case could not be decided" (not a violation).
pub fn inconclusive<T>(why: impl Into<String>) -> Result<T, Fail> { Err(Fail { oracle: "__inconclusive".into(), detail: why.into() }) }

// ---- panic capture -------------------------------------------------------------------------
static LAST_PANIC: Mutex<Option<(String, String)>> = Mutex::new(None); // (location, message)
static PANIC_COUNT: AtomicU64 = AtomicU64::new(0);
static VERBOSE_PANICS: AtomicU64 = AtomicU64::new(0);

pub fn install_panic_hook() {
    std::panic::set_hook(Box::new(|info| {
        let loc = info.location().map(|l| format!("{}:{}", l.file(), l.line())).unwrap_or_else(|| "?".into());
        let msg = if let Some(s) = info.payload().downcast_ref::<&str>() { s.to_string() } else if let Some(s) = info.payload().downcast_ref::<String>() { s.clone() } else { "<non-string panic>".into() };
        PANIC_COUNT.fetch_add(1, Ordering::SeqCst);
        if VERBOSE_PANICS.load(Ordering::Relaxed) != 0 { eprintln!("[zv] panic at {loc}: {msg}"); }
        if let Ok(mut g) = LAST_PANIC.lock() { if g.is_none() { *g = Some((loc, msg)); } }
    }));
}
pub fn take_panic() -> Option<(String, String)> { LAST_PANIC.lock().ok().and_then(|mut g| g.take()) }
pub fn panic_count() -> u64 { PANIC_COUNT.load(Ordering::SeqCst) }

#[derive(Debug, Clone)]
pub struct PanicInfo { pub loc: String, pub msg: String }
impl PanicInfo {
    /// file path relative to the zipora tree if the panic came from it, without the line number
    pub fn file(&self) -> String { let f = self.loc.rsplit_once(':').map(|x| x.0).unwrap_or(&self.loc); match f.find("/src/") { Some(i) if f.starts_with("/repo") || f.contains("zipora") => f[i + 1..].to_string(), _ => f.to_string() } }
    pub fn class(&self) -> String { let m: String = self.msg.chars().filter(|c| !c.is_ascii_digit()).take(48).collect(); format!("panic:{}:{}", self.file(), m.trim()) }
}
/// Run `f`, turning a panic into `Err(PanicInfo)`.
pub fn catch<T>(f: impl FnOnce() -> T) -> Result<T, PanicInfo> {
    let _ = take_panic();
    match catch_unwind(AssertUnwindSafe(f)) {
        Ok(v) => Ok(v),
        Err(_) => { let (loc, msg) = take_panic().unwrap_or(("?".into(), "?".into())); Err(PanicInfo { loc, msg }) }
    }
}
/// Like `catch` but maps a panic to a property failure (for in-contract calls).
pub fn nopanic<T>(what: &str, f: impl FnOnce() -> T) -> Result<T, Fail> {
    catch(f).map_err(|p| Fail { oracle: p.class(), detail: format!("{what}: panic at {}: {}", p.loc, p.msg) })
}

// ---- allocation tracking (fed by the global allocator in main.rs) ---------------------------
static MAX_ALLOC: std::sync::atomic::AtomicUsize = std::sync::atomic::AtomicUsize::new(0);
#[inline]
pub fn note_alloc(n: usize) { if n > MAX_ALLOC.load(Ordering::Relaxed) { MAX_ALLOC.fetch_max(n, Ordering::Relaxed); } }
/// Largest single allocation request (bytes) since the last reset, process-wide.
pub fn max_alloc() -> usize { MAX_ALLOC.load(Ordering::Relaxed) }
pub fn max_alloc_reset() { MAX_ALLOC.store(0, Ordering::Relaxed); }

// ---- watchdog ------------------------------------------------------------------------------
static CASE_START_CPU_MS: AtomicU64 = AtomicU64::new(u64::MAX);
static CASE_CPU_LIMIT_MS: AtomicU64 = AtomicU64::new(60_000);
static CASE_START_WALL: AtomicU64 = AtomicU64::new(0);
static CASE_WALL_LIMIT_MS: AtomicU64 = AtomicU64::new(90_000);

fn process_cpu_ms() -> u64 {
    let mut ts = libc::timespec { tv_sec: 0, tv_nsec: 0 };
    unsafe { libc::clock_gettime(libc::CLOCK_PROCESS_CPUTIME_ID, &mut ts); }
    ts.tv_sec as u64 * 1000 + ts.tv_nsec as u64 / 1_000_000
}
fn wall_ms() -> u64 { static T0: std::sync::OnceLock<Instant> = std::sync::OnceLock::new(); T0.get_or_init(Instant::now).elapsed().as_millis() as u64 }

// ---- case ----------------------------------------------------------------------------------
pub struct Case {
    pub rng: Rng,
    pub tier: Tier,
    pub verbose: bool,
    pub key: String,
    nontrivial: bool,
    hash: u64,
    desc: String,
    pub events: u64,
    tags: Vec<String>,
    notes: BTreeMap<String, u64>,
}
impl Case {
    /// Fold an input into the structural hash; the first input also becomes the sample description.
    pub fn input(&mut self, name: &str, bytes: &[u8]) {
        self.hash = fnv1a(self.hash.rotate_left(9), name.as_bytes()); self.hash = fnv1a(self.hash, bytes);
        if self.desc.len() < 400 { if !self.desc.is_empty() { self.desc.push_str("; "); } self.desc.push_str(&format!("{name}: {}", crate::gen::abbrev(bytes))); }
    }
    pub fn input_str(&mut self, name: &str, s: &str) {
        self.hash = fnv1a(self.hash.rotate_left(9), name.as_bytes()); self.hash = fnv1a(self.hash, s.as_bytes());
        if self.desc.len() < 400 { if !self.desc.is_empty() { self.desc.push_str("; "); } let t: String = s.chars().take(300).collect(); self.desc.push_str(&format!("{name}: {t}")); }
    }
    pub fn hash_more(&mut self, bytes: &[u8]) { self.hash = fnv1a(self.hash.rotate_left(5), bytes); }
    pub fn nontrivial(&mut self) { self.nontrivial = true; }
    pub fn set_nontrivial(&mut self, b: bool) { self.nontrivial = b; }
    /// Tag computed from the *input only* (root-cause predicates for known findings).
    pub fn tag(&mut self, t: &str) { if !self.tags.iter().any(|x| x == t) { self.tags.push(t.to_string()); } }
    pub fn ev(&mut self, n: u64) { self.events += n; }
    pub fn note(&mut self, k: &str, n: u64) { *self.notes.entry(k.to_string()).or_insert(0) += n; }
    pub fn log(&self, s: impl AsRef<str>) { if self.verbose { eprintln!("[case {}] {}", self.key, s.as_ref()); } }
}

pub struct Ctx {
    pub prop: String,
    pub tier: Tier,
    pub seed: u64,
    pub pinned: bool,
    pub shard: usize,
    pub nshards: usize,
    pub only: Option<String>,
    pub targets: Option<Vec<String>>,
    pub gens: Option<Vec<String>>,
    pub from_seq: u64,
    pub verbose: bool,
    pub variant: String,
    out: Option<File>,
    seq: u64,
    start: Instant,
    pub budget: Duration,
    samples: HashMap<String, u32>,
    pub stats: BTreeMap<String, u64>,
    pub executed: u64,
    pub scale: f64,
}

pub fn glob(pat: &str, s: &str) -> bool {
    // '*' wildcard only
    let parts: Vec<&str> = pat.split('*').collect();
    if parts.len() == 1 { return pat == s; }
    let mut pos = 0usize;
    for (i, p) in parts.iter().enumerate() {
        if i == 0 { if !s.starts_with(p) { return false; } pos = p.len(); }
        else if i == parts.len() - 1 { return s.len() >= pos + p.len() && s[pos..].ends_with(p); }
        else { match s[pos..].find(p) { Some(j) => pos += j + p.len(), None => return false } }
    }
    true
}

impl Ctx {
    pub fn new(prop: &str, tier: Tier, seed: u64, shard: usize, nshards: usize, out: Option<File>) -> Ctx {
        Ctx { prop: prop.to_string(), tier, seed, pinned: false, shard, nshards, only: None, targets: None, gens: None, from_seq: 0, verbose: false,
              variant: "fast".into(), out, seq: 0, start: Instant::now(), budget: Duration::from_secs(if tier == Tier::Quick { 100 } else { 1500 }),
              samples: HashMap::new(), stats: BTreeMap::new(), executed: 0, scale: 1.0 }
    }
    pub fn quick(&self) -> bool { self.tier == Tier::Quick }
    /// number of cases for a loop: quick / thorough counts, scaled (pinned runs use the quick count)
    pub fn n(&self, quick: usize, thorough: usize) -> usize {
        let base = if self.tier == Tier::Quick || self.pinned { quick } else { thorough };
        ((base as f64 * self.scale).ceil() as usize).max(1)
    }
    pub fn time_left(&self) -> bool { self.start.elapsed() < self.budget }
    pub fn wants(&self, target: &str) -> bool {
        match &self.targets { None => true, Some(ts) => ts.iter().any(|t| glob(t, target)) }
    }
    pub fn stat(&mut self, k: &str, n: u64) { *self.stats.entry(k.to_string()).or_insert(0) += n; }
    fn emit(&mut self, v: serde_json::Value) {
        if let Some(f) = self.out.as_mut() { let mut s = v.to_string(); s.push('\n'); let _ = f.write_all(s.as_bytes()); }
    }
    pub fn set_case_cpu_limit_ms(&self, ms: u64) { CASE_CPU_LIMIT_MS.store(ms, Ordering::SeqCst); }
    pub fn set_case_wall_limit_ms(&self, ms: u64) { CASE_WALL_LIMIT_MS.store(ms, Ordering::SeqCst); }

    /// Execute one case. `target` names the implementation under test, `gen` the generator family,
    /// `idx` the index within (target, gen). The case's PRNG depends only on (seed, prop, target, gen, idx).
    pub fn case<F>(&mut self, target: &str, gen: &str, idx: u64, f: F)
    where F: FnOnce(&mut Case) -> Res {
        let key = format!("{target}|{gen}|{idx}");
        if let Some(o) = &self.only { if *o != key { return; } }
        else {
            if !self.wants(target) { return; }
            if let Some(gs) = &self.gens { if !gs.iter().any(|g| glob(g, gen)) { return; } }
            let seq = self.seq; self.seq += 1;
            if (seq as usize) % self.nshards != self.shard { return; }
            if seq < self.from_seq { return; }
            if !self.time_left() { self.stat("skipped_time_budget", 1); return; }
        }
        let seq = self.seq.saturating_sub(1);
        let base = if self.pinned { 0x5eed_0000_0000_0001 } else { self.seed };
        let cs = derive_seed(&[self.prop.as_bytes(), target.as_bytes(), gen.as_bytes(), &idx.to_le_bytes()], base);
        let mut c = Case { rng: Rng::new(cs), tier: self.tier, verbose: self.verbose, key: key.clone(), nontrivial: false,
                           hash: fnv1a(0, key.as_bytes()) ^ 0, desc: String::new(), events: 0, tags: vec![], notes: BTreeMap::new() };
        c.hash = fnv1a(0, target.as_bytes()); c.hash = fnv1a(c.hash, gen.as_bytes());
        self.emit(json!({"t": "begin", "n": seq, "key": key, "target": target}));
        CASE_START_WALL.store(wall_ms(), Ordering::SeqCst);
        CASE_START_CPU_MS.store(if cfg!(miri) { 0 } else { process_cpu_ms() }, Ordering::SeqCst);
        let t0 = Instant::now();
        let _ = take_panic();
        let r = catch_unwind(AssertUnwindSafe(|| f(&mut c)));
        CASE_START_CPU_MS.store(u64::MAX, Ordering::SeqCst);
        let ms = t0.elapsed().as_millis() as u64;
        let (v, oracle, detail) = match r {
            Ok(Ok(())) => ("held", String::new(), String::new()),
            Ok(Err(e)) if e.oracle == "__inconclusive" => ("inconc", "inconclusive".to_string(), e.detail),
            Ok(Err(e)) => ("fail", e.oracle, e.detail),
            Err(_) => { let (loc, msg) = take_panic().unwrap_or(("?".into(), "?".into())); let p = PanicInfo { loc, msg };
                // a panic raised by the harness's shared infrastructure (generators, rng, monitors) is a harness error, never a verdict on the library;
                // a panic inside a driver (src/props/) stays a violation: drivers index library results and a short/garbled result must not be hidden
                if p.loc.starts_with("src/") && !p.loc.starts_with("src/props/") { ("inconc", "inconclusive".to_string(), format!("harness panic at {}: {}", p.loc, p.msg)) }
                else { ("fail", p.class(), format!("panic at {}: {}", p.loc, p.msg)) } }
        };
        self.executed += 1;
        let ns = self.samples.entry(target.to_string()).or_insert(0);
        let want_desc = v != "held" || *ns < 2;
        if v == "held" && c.nontrivial { *ns += 1; }
        let mut rec = json!({"t": "end", "n": seq, "key": key, "target": target, "gen": gen, "v": v, "nt": c.nontrivial, "h": format!("{:016x}", c.hash), "ev": c.events, "ms": ms});
        if v != "held" { rec["oracle"] = json!(oracle); let d: String = detail.chars().take(1500).collect(); rec["detail"] = json!(d); }
        if !c.tags.is_empty() { rec["tags"] = json!(c.tags); }
        if !c.notes.is_empty() { rec["notes"] = json!(c.notes); }
        if want_desc { rec["desc"] = json!(c.desc); }
        if self.verbose { eprintln!("[zv] {key}: {v} {oracle} {detail}"); }
        self.emit(rec);
    }

    pub fn finish(&mut self) {
        let stats = std::mem::take(&mut self.stats);
        for (k, v) in stats { self.emit(json!({"t": "stat", "k": k, "v": v})); }
        self.emit(json!({"t": "done", "executed": self.executed, "wall_ms": self.start.elapsed().as_millis() as u64}));
    }
    pub fn out_fd_note(&mut self, v: serde_json::Value) { self.emit(v); }
}

// ---- deadlock probe ----------------------------------------------------------------------------
static DEADLOCK_PROBE: std::sync::atomic::AtomicBool = std::sync::atomic::AtomicBool::new(false);
/// Opt in (drivers whose cases never legitimately block for seconds, i.e. no child processes / long timed waits): once a case
/// is older than 35 s the watchdog thread samples every other thread of the process through /proc/self/task 20 times over 10 s.
/// If the thread set is unchanged and every thread sits in state S with unchanged CPU time and unchanged voluntary +
/// involuntary context-switch counts, nothing in the process is running, nothing wakes up on a timer that fires, and nothing
/// outside can wake it: the case can never finish. That is a state predicate (global quiescence with the case still open),
/// not a deadline; the worker then reports `deadlock` and exits, anything else stays with the wall-clock limit (inconclusive).
pub fn enable_deadlock_probe(on: bool) { DEADLOCK_PROBE.store(on, Ordering::SeqCst); }
#[cfg(not(miri))]
fn all_other_threads_blocked() -> Option<String> {
    fn snap() -> Option<BTreeMap<u64, (char, u64, u64, String)>> {
        let me = unsafe { libc::syscall(libc::SYS_gettid) } as u64; let mut m = BTreeMap::new();
        for e in std::fs::read_dir("/proc/self/task").ok()? { let e = e.ok()?; let tid: u64 = e.file_name().to_string_lossy().parse().ok()?; if tid == me { continue; }
            let comm = std::fs::read_to_string(e.path().join("comm")).unwrap_or_default().trim().to_string(); if comm.starts_with("zv-") { continue; }
            let stat = match std::fs::read_to_string(e.path().join("stat")) { Ok(s) => s, Err(_) => continue }; // thread exited meanwhile
            let rest = &stat[stat.rfind(')')? + 2..]; let f: Vec<&str> = rest.split(' ').collect(); let state = f.first()?.chars().next()?; let cpu = f.get(11)?.parse::<u64>().ok()? + f.get(12)?.parse::<u64>().ok()?;
            let status = std::fs::read_to_string(e.path().join("status")).unwrap_or_default(); let mut cs = 0u64; for l in status.lines() { if l.starts_with("voluntary_ctxt_switches") || l.starts_with("nonvoluntary_ctxt_switches") { cs += l.split_whitespace().last()?.parse::<u64>().ok()?; } }
            m.insert(tid, (state, cpu, cs, comm)); }
        Some(m)
    }
    let first = snap()?; if first.is_empty() || first.values().any(|v| v.0 != 'S') { return None; }
    for _ in 0..20 { std::thread::sleep(Duration::from_millis(500)); if snap()? != first { return None; } }
    Some(format!("{} threads, every one in state S with no CPU time and no context switch during 10 s: {:?}", first.len(), first.values().map(|v| v.3.clone()).collect::<Vec<_>>()))
}
#[cfg(miri)]
fn all_other_threads_blocked() -> Option<String> { None }

/// Watchdog thread: a case that burns more CPU than its limit (an order of magnitudes above any legitimate case)
/// is reported as a `cpu_limit` event and the worker exits with status 3; the orchestrator restarts after it.
pub fn start_watchdog(out_path: Option<String>) {
    let _ = std::thread::Builder::new().name("zv-watchdog".into()).spawn(move || loop {
        std::thread::sleep(Duration::from_millis(250));
        let s = CASE_START_CPU_MS.load(Ordering::SeqCst);
        if s == u64::MAX { continue; }
        let cpu = if cfg!(miri) { 0 } else { process_cpu_ms().saturating_sub(s) };
        let wall = wall_ms().saturating_sub(CASE_START_WALL.load(Ordering::SeqCst));
        if DEADLOCK_PROBE.load(Ordering::SeqCst) && wall > 35_000 && wall < 70_000 {
            let case_start = CASE_START_WALL.load(Ordering::SeqCst);
            if let Some(d) = all_other_threads_blocked() { if CASE_START_WALL.load(Ordering::SeqCst) == case_start && CASE_START_CPU_MS.load(Ordering::SeqCst) != u64::MAX {
                if let Some(p) = &out_path { if let Ok(mut f) = std::fs::OpenOptions::new().append(true).open(p) { let _ = writeln!(f, "{}", json!({"t": "watchdog", "kind": "deadlock", "wall_ms": wall, "detail": d})); } }
                std::process::exit(3); } }
            continue;
        }
        let over_cpu = cpu > CASE_CPU_LIMIT_MS.load(Ordering::SeqCst);
        let over_wall = wall > CASE_WALL_LIMIT_MS.load(Ordering::SeqCst);
        if over_cpu || over_wall {
            if let Some(p) = &out_path {
                if let Ok(mut f) = std::fs::OpenOptions::new().append(true).open(p) {
                    let _ = writeln!(f, "{}", json!({"t": "watchdog", "kind": if over_cpu { "cpu_limit" } else { "wall_limit" }, "cpu_ms": cpu, "wall_ms": wall}));
                }
            }
            std::process::exit(3);
        }
    });
}
pub fn set_verbose_panics(on: bool) { VERBOSE_PANICS.store(on as u64, Ordering::SeqCst); }
