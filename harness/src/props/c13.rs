//! C13 — serialised values decode to themselves and consume exactly their own bytes.
//! Oracles: decode(encode(v)) == (v, |encode(v)|); concatenated encodings read back in order and end exactly at the
//! end; encoded_len == produced length; SIMD batch varint byte-identical to the scalar codec; endian conversions agree
//! with to_le/be_bytes; DataOutput back ends produce the model byte stream, DataInput back ends read it back with exact
//! positions; stream wrappers (range / buffered / zero-copy) present exactly the inner byte stream for arbitrary
//! request sizes.
#![allow(clippy::all)]
use crate::ctx::{catch, Case, Ctx, Fail, Res};
use crate::gen;
use crate::rng::Rng;
use std::collections::{BTreeMap, BTreeSet, HashMap, HashSet, VecDeque};
use std::fmt::Debug;
use std::io::{BufRead, Cursor, IoSlice, IoSliceMut, Read, Seek, SeekFrom, Write};
use std::rc::Rc;
use std::sync::Arc;
use zipora::io::complex_types::{ComplexSerialize, ComplexTypeConfig, ComplexTypeSerializer, NestedSerialize};
use zipora::io::endian::{self, EndianConvert, EndianIO, Endianness};
use zipora::io::simd_encoding::varint as sv;
use zipora::io::smart_ptr::{DeserializationContext, SerializableType, SerializationContext, SmartPtrConfig, SmartPtrSerialize, SmartPtrSerializer};
use zipora::io::var_int_variants::{choose_optimal_strategy, choose_optimal_strategy_signed, VarIntEncoder, VarIntStrategy};
use zipora::io::versioning::{Version, VersionConfig, VersionManager, VersionProxy, VersionedSerialize, VersionedSerializer};
use zipora::io::{DataInput, DataOutput, FileDataOutput, MemoryMappedInput, MemoryMappedOutput, MmapDataInput, MmapZeroCopyReader,
    MultiRangeReader, RangeReader, RangeWriter, ReaderDataInput, SignedVarInt, SliceDataInput, StreamBufferConfig,
    StreamBufferedReader, StreamBufferedWriter, VarInt, VecDataOutput, VectoredIO, WriterDataOutput, ZeroCopyBuffer, ZeroCopyRead,
    ZeroCopyReader, ZeroCopyWrite, ZeroCopyWriter};

fn bad(oracle: &str, d: String) -> Fail { Fail { oracle: oracle.to_string(), detail: d } }

/// in-contract call returning zipora Result: panic -> panic class, Err -> "<what>_err"
macro_rules! zok { ($what:expr, $e:expr) => { match catch(|| $e) { Ok(Ok(x)) => x,
    Ok(Err(e)) => return Err(bad(concat!($what, "_err"), format!("{}: {}", $what, e))),
    Err(p) => return Err(bad(&p.class(), format!("{} panicked at {}: {}", $what, p.loc, p.msg))) } } }
/// in-contract call that must not panic (plain value)
macro_rules! np { ($what:expr, $e:expr) => { match catch(|| $e) { Ok(x) => x,
    Err(p) => return Err(bad(&p.class(), format!("{} panicked at {}: {}", $what, p.loc, p.msg))) } } }

/// sentinel appended after encodings: decodes to small numbers whatever a buggy decoder reads from it
const SENT: [u8; 9] = [2, 0, 0, 0, 0, 0, 0, 0, 0];

// ---------------------------------------------------------------------------------------------
// integer generators
// ---------------------------------------------------------------------------------------------
fn bnd_u64(r: &mut Rng) -> u64 {
    match r.below(10) {
        0..=3 => { let k = 1 + r.below(9); let b = 1u64 << (7 * k); match r.below(3) { 0 => b - 1, 1 => b, _ => b.wrapping_add(1) } }
        4..=5 => { let k = 1 + r.below(8); if k == 8 { u64::MAX - r.below(2) } else { let b = 1u64 << (8 * k); match r.below(3) { 0 => b - 1, 1 => b, _ => b + 1 } } }
        6 => *r.pick(&[0u64, 1, 2, u64::MAX, u64::MAX - 1, 1 << 63, (1 << 63) - 1, (1 << 63) + 1, 1 << 32, (1 << 32) - 1, i64::MAX as u64, 127, 128, 16383, 16384]),
        7..=8 => { let w = r.below(65); if w == 0 { 0 } else if w == 64 { r.next() | (1 << 63) } else { (r.next() & ((1u64 << w) - 1)) | (1u64 << (w - 1)) } }
        _ => r.next(),
    }
}
fn unzz(u: u64) -> i64 { ((u >> 1) as i64) ^ (-((u & 1) as i64)) }
fn bnd_i64(r: &mut Rng) -> i64 {
    let u = bnd_u64(r);
    match r.below(5) {
        0 => u as i64,
        1 => (u as i64).wrapping_neg(),
        2 => unzz(u),
        3 => *r.pick(&[i64::MIN, i64::MIN + 1, -1, 0, 1, i64::MAX, i64::MAX - 1, -64, -65, 63, 64, -8192, -8193, 8191, 8192, -128, -129, 127, 128]),
        _ => { let k = 1 + r.below(9); let b = 1i64 << (7 * k - 1); *r.pick(&[b - 1, b, -b, -b - 1, b + 1, -b + 1]) }
    }
}
const SEQ_LENS: &[usize] = &[0, 1, 2, 3, 4, 5, 6, 7, 8, 9, 10, 11, 15, 16, 17, 18, 19, 31, 33, 63, 65, 100, 127, 128, 129, 255, 257, 1000];
const SEQ_FAMS: u32 = gen::INT_KINDS + 5;
fn seq_fam_name(f: u32) -> &'static str { if f < gen::INT_KINDS { gen::int_kind_name(f) } else { ["boundary", "huge_first_diff", "sorted_wide", "descending", "lt32bit"][(f - gen::INT_KINDS) as usize] } }
fn seq_len(r: &mut Rng) -> usize { if r.chance(3, 4) { *r.pick(SEQ_LENS) } else { r.usize_below(70) } }
fn seq_u64(r: &mut Rng, fam: u32) -> Vec<u64> {
    let len = seq_len(r);
    if fam < gen::INT_KINDS { return gen::ints_kind(r, fam, len, u64::MAX); }
    match fam - gen::INT_KINDS {
        0 => (0..len).map(|_| bnd_u64(r)).collect(),
        1 => (0..len).map(|i| if i == 0 { r.below(100) } else if i % 2 == 1 { u64::MAX - r.below(1000) } else if r.bool() { r.below(1000) } else { (1 << 63) + r.below(9) }).collect(),
        2 => { let two_clusters = r.bool(); // half of the cases: a low and a high cluster, i.e. one sorted step >= 2^63
            let mut v: Vec<u64> = (0..len).map(|i| if two_clusters { if i % 2 == 0 { r.below(1 << 20) } else { (1 << 63) + (1 << 20) + r.below(1 << 40) } } else { r.next() }).collect();
            if len >= 2 && !two_clusters { v[0] = 0; v[1] = u64::MAX; } if len >= 3 && r.bool() && !two_clusters { v[2] = 1 << 63; } v.sort(); v }
        3 => { let mut cur = u64::MAX; (0..len).map(|_| { let x = cur; let sh = r.below(64); cur = cur.saturating_sub(r.below(1 << sh)); x }).collect() }
        _ => { let len = len.max(16); (0..len).map(|_| r.next() >> (32 + r.below(32))).collect() }
    }
}
fn seq_i64(r: &mut Rng, fam: u32) -> Vec<i64> {
    if fam < gen::INT_KINDS || fam == gen::INT_KINDS + 1 { return seq_u64(r, fam).into_iter().map(|x| x as i64).collect(); }
    let len = seq_len(r);
    match fam - gen::INT_KINDS {
        0 => (0..len).map(|_| bnd_i64(r)).collect(),
        2 => { let two_clusters = r.bool(); // half of the cases: a very negative and a very positive cluster (no i64::MIN), one sorted step overflows i64
            let mut v: Vec<i64> = (0..len).map(|i| if two_clusters { if i % 2 == 0 { i64::MIN + 1 + r.below(1 << 40) as i64 } else { i64::MAX - r.below(1 << 40) as i64 } } else { r.next() as i64 }).collect();
            if len >= 2 && !two_clusters { v[0] = i64::MIN; v[1] = i64::MAX; } v.sort(); v }
        3 => { let mut v: Vec<i64> = (0..len).map(|_| r.next() as i64 >> r.below(64)).collect(); v.sort(); v.reverse(); v }
        _ => (0..len.max(7)).map(|_| r.below(600) as i64 - 300).collect(),
    }
}
fn u64s_bytes(v: &[u64]) -> Vec<u8> { v.iter().flat_map(|x| x.to_le_bytes()).collect() }
fn i64s_bytes(v: &[i64]) -> Vec<u8> { v.iter().flat_map(|x| x.to_le_bytes()).collect() }
fn leb_len(mut v: u64) -> usize { let mut n = 1; while v >= 128 { v >>= 7; n += 1; } n }
fn model_leb(out: &mut Vec<u8>, mut v: u64) { loop { let b = (v & 0x7f) as u8; v >>= 7; if v != 0 { out.push(b | 0x80); } else { out.push(b); break; } } }

// input-only root-cause predicates
fn delta_u64_bad(v: &[u64]) -> bool { v.windows(2).any(|w| w[0].abs_diff(w[1]) >= 1 << 63) }
fn delta_i64_bad(v: &[i64]) -> bool { v.windows(2).any(|w| w[1].checked_sub(w[0]).is_none()) }
fn gv_bad(v: &[u64]) -> bool { v.iter().any(|&x| x >= 1 << 32) }

const STRATS: &[(&str, VarIntStrategy)] = &[("leb128", VarIntStrategy::Leb128), ("zigzag", VarIntStrategy::Zigzag), ("delta", VarIntStrategy::Delta),
    ("group", VarIntStrategy::GroupVarint), ("prefix", VarIntStrategy::PrefixFree), ("compact", VarIntStrategy::Compact), ("simd", VarIntStrategy::Simd)];

/// generic single-value codec check: each value alone (exact buffer and with trailing bytes) and all concatenated.
fn singles<T: Copy + PartialEq + Debug>(c: &mut Case, vals: &[T], enc: &dyn Fn(T) -> ZR<Vec<u8>>, dec: &dyn Fn(&[u8]) -> ZR<(T, usize)>, enc_len: Option<&dyn Fn(T) -> usize>) -> Res {
    let mut cat = Vec::new(); let mut lens = Vec::new();
    for &v in vals {
        let e = match catch(|| enc(v)) { Ok(Ok(b)) => b, Ok(Err(_)) => { c.note("encode_refused", 1); return Ok(()); }
            Err(p) => return Err(bad(&p.class(), format!("encode({v:?}) panicked at {}: {}", p.loc, p.msg))) };
        ensure!(!e.is_empty(), "empty_encoding", "encode({v:?}) produced no bytes");
        c.note(&format!("enc_len:{}", e.len()), 1);
        if let Some(f) = enc_len { let l = f(v); ensure!(l == e.len(), "encoded_len", "encoded_len({v:?})={l} but encoder produced {} bytes", e.len()); c.ev(1); }
        let (d, n) = match catch(|| dec(&e)) { Ok(Ok(x)) => x, Ok(Err(er)) => return Err(bad("decode_err", format!("decode(encode({v:?})={}) failed: {er}", gen::hex(&e)))),
            Err(p) => return Err(bad(&p.class(), format!("decode(encode({v:?})) panicked at {}: {}", p.loc, p.msg))) };
        ensure!(d == v, "roundtrip_mismatch", "decode(encode({v:?})={}) = {d:?}", gen::hex(&e));
        ensure!(n == e.len(), "consumed_len", "decode(encode({v:?})) consumed {n} of {} bytes", e.len());
        let mut t = e.clone(); t.extend_from_slice(&[0xff, 0x80, 0x00, 0x7f, 0xff, 0xff, 0xff, 0xff, 0xff, 0xff, 0x01]);
        let (d2, n2) = match catch(|| dec(&t)) { Ok(Ok(x)) => x, Ok(Err(er)) => return Err(bad("decode_err_trailing", format!("decode(encode({v:?}) ++ trailing) failed: {er}"))),
            Err(p) => return Err(bad(&p.class(), format!("decode with trailing panicked at {}: {}", p.loc, p.msg))) };
        ensure!(d2 == v && n2 == e.len(), "consumed_len_trailing", "with trailing bytes decode(encode({v:?})) = ({d2:?},{n2}) want ({v:?},{})", e.len());
        c.ev(4);
        cat.extend_from_slice(&e); lens.push(e.len());
    }
    let mut off = 0;
    for (i, &v) in vals.iter().enumerate() {
        let (d, n) = match catch(|| dec(&cat[off..])) { Ok(Ok(x)) => x, Ok(Err(er)) => return Err(bad("concat_decode_err", format!("item {i} at offset {off}: {er}"))),
            Err(p) => return Err(bad(&p.class(), format!("concat decode panicked at {}: {}", p.loc, p.msg))) };
        ensure!(d == v && n == lens[i], "concat_mismatch", "item {i} at offset {off}: got ({d:?},{n}) want ({v:?},{})", lens[i]);
        off += n; c.ev(1);
    }
    ensure!(off == cat.len(), "concat_end", "loop ended at {off} of {}", cat.len());
    Ok(())
}
type ZR<T> = zipora::error::Result<T>;

fn gen_vals_u64(c: &mut Case) -> Vec<u64> { let n = 1 + c.rng.usize_below(24); let v: Vec<u64> = (0..n).map(|_| bnd_u64(&mut c.rng)).collect(); c.input("u64s", &u64s_bytes(&v)); c.set_nontrivial(true); v }
fn gen_vals_i64(c: &mut Case) -> Vec<i64> { let n = 1 + c.rng.usize_below(24); let v: Vec<i64> = (0..n).map(|_| bnd_i64(&mut c.rng)).collect(); c.input("i64s", &i64s_bytes(&v)); c.set_nontrivial(true); v }

/// sequence codec check: decode(encode(vs)) == vs; decoding with trailing bytes appended gives the same values.
fn seq_rt<T: Copy + PartialEq + Debug>(c: &mut Case, vs: &[T], enc: &dyn Fn(&[T]) -> ZR<Vec<u8>>, dec: &dyn Fn(&[u8]) -> ZR<Vec<T>>) -> Res {
    let e = match catch(|| enc(vs)) { Ok(Ok(b)) => b, Ok(Err(_)) => { c.note("encode_refused", 1); c.set_nontrivial(false); return Ok(()); }
        Err(p) => return Err(bad(&p.class(), format!("encode_sequence panicked at {}: {}", p.loc, p.msg))) };
    let d = match catch(|| dec(&e)) { Ok(Ok(x)) => x, Ok(Err(er)) => return Err(bad("decode_err", format!("decode_sequence(encode_sequence(n={})) failed: {er}", vs.len()))),
        Err(p) => return Err(bad(&p.class(), format!("decode_sequence panicked at {}: {}", p.loc, p.msg))) };
    ensure!(d.len() == vs.len(), "roundtrip_len", "decoded {} values, encoded {}", d.len(), vs.len());
    if let Some(i) = (0..vs.len()).find(|&i| d[i] != vs[i]) { return Err(bad("roundtrip_mismatch", format!("index {i} of {}: got {:?} want {:?} (prev {:?})", vs.len(), d[i], vs[i], if i > 0 { Some(vs[i - 1]) } else { None }))); }
    c.ev(vs.len() as u64 + 1);
    let mut t = e.clone(); t.extend_from_slice(&SENT);
    let d2 = match catch(|| dec(&t)) { Ok(Ok(x)) => x, Ok(Err(er)) => return Err(bad("decode_err_trailing", format!("with trailing bytes: {er}"))),
        Err(p) => return Err(bad(&p.class(), format!("decode_sequence (trailing) panicked at {}: {}", p.loc, p.msg))) };
    ensure!(d2.as_slice() == vs, "trailing_sensitivity", "decode of encoding ++ trailing bytes differs from the values");
    c.ev(1);
    Ok(())
}

fn run_varint(ctx: &mut Ctx) {
    for idx in 0..ctx.n(500, 25000) as u64 {
        ctx.case("varint/core", "boundary", idx, |c| {
            let v = gen_vals_u64(c);
            singles(c, &v, &|x| Ok(VarInt::encode(x)), &|b| VarInt::decode(b), Some(&|x| VarInt::encoded_len(x)))?;
            // model bytes, write_to_vec, write_to, read_from, encode_multiple / decode_multiple
            let mut model = Vec::new(); for &x in &v { model_leb(&mut model, x); }
            let mut a = Vec::new(); let mut w = Cursor::new(Vec::new());
            for &x in &v { let n = zok!("write_to_vec", VarInt::write_to_vec(&mut a, x)); ensure!(n == leb_len(x), "written_len", "write_to_vec({x}) returned {n}");
                let n2 = zok!("write_to", VarInt::write_to(&mut w, x)); ensure!(n2 == leb_len(x), "written_len", "write_to({x}) returned {n2}");
                ensure!(x < 128 || !VarInt::fits_in_one_byte(x), "fits", "fits_in_one_byte({x})"); ensure!(VarInt::fits_in_one_byte(x) == (leb_len(x) == 1) && VarInt::fits_in_two_bytes(x) == (leb_len(x) <= 2), "fits", "fits_in_*({x})"); }
            ensure!(a == model, "bytes_vs_model", "write_to_vec bytes differ from LEB128 model"); ensure!(w.get_ref() == &model, "bytes_vs_model", "write_to bytes differ from model");
            let m = np!("encode_multiple", VarInt::encode_multiple(v.iter().copied())); ensure!(m == model, "bytes_vs_model", "encode_multiple differs from model");
            let dm = zok!("decode_multiple", VarInt::decode_multiple(&m)); ensure!(dm == v, "roundtrip_mismatch", "decode_multiple");
            let mut inp = SliceDataInput::new(&model); let mut pos = 0;
            for &x in &v { let d = zok!("read_from", VarInt::read_from(&mut inp)); pos += leb_len(x); ensure!(d == x, "roundtrip_mismatch", "read_from got {d} want {x}"); ensure!(inp.pos() == pos, "consumed_len", "read_from left reader at {} want {pos}", inp.pos()); }
            c.ev(v.len() as u64 * 4); Ok(()) });
        ctx.case("varint/signed", "boundary", idx, |c| {
            let v = gen_vals_i64(c);
            singles(c, &v, &|x| Ok(<VarInt as SignedVarInt>::encode_signed(x)), &|b| <VarInt as SignedVarInt>::decode_signed(b), None) });
    }
    // strategies, single values
    for (name, st) in STRATS {
        let st = *st;
        for idx in 0..ctx.n(150, 6000) as u64 {
            if !matches!(st, VarIntStrategy::Zigzag | VarIntStrategy::Delta) {
                ctx.case(&format!("vs/{name}/u64"), "boundary", idx, |c| { let v = gen_vals_u64(c); let e = VarIntEncoder::new(st); ensure!(e.strategy() == st, "strategy", "strategy()");
                    singles(c, &v, &|x| e.encode_u64(x), &|b| e.decode_u64(b), None) });
            }
            if !matches!(st, VarIntStrategy::Delta) {
                ctx.case(&format!("vs/{name}/i64"), "boundary", idx, |c| { let v = gen_vals_i64(c); let e = VarIntEncoder::new(st);
                    singles(c, &v, &|x| e.encode_i64(x), &|b| e.decode_i64(b), None) });
            }
        }
    }
    // strategies, sequences
    let per = ctx.n(14, 600) as u64;
    for fam in 0..SEQ_FAMS {
        let g = seq_fam_name(fam);
        for idx in 0..per {
            for (name, st) in STRATS {
                let st = *st;
                if !matches!(st, VarIntStrategy::Zigzag) {
                    ctx.case(&format!("vs/{name}/u64seq"), g, idx, |c| { let v = seq_u64(&mut c.rng, fam); c.input("u64s", &u64s_bytes(&v)); c.set_nontrivial(!v.is_empty());
                        if st == VarIntStrategy::Delta && delta_u64_bad(&v) { c.tag("delta_absdiff_ge_2pow63"); }
                        if st == VarIntStrategy::GroupVarint && gv_bad(&v) { c.tag("gv_value_ge_2pow32"); }
                        if v.len() % 4 != 0 { c.note("len_not_mult4", 1); }
                        let e = VarIntEncoder::new(st); seq_rt(c, &v, &|x| e.encode_u64_sequence(x), &|b| e.decode_u64_sequence(b)) });
                }
                ctx.case(&format!("vs/{name}/i64seq"), g, idx, |c| { let v = seq_i64(&mut c.rng, fam); c.input("i64s", &i64s_bytes(&v)); c.set_nontrivial(!v.is_empty());
                    if st == VarIntStrategy::Delta && delta_i64_bad(&v) { c.tag("delta_i64_diff_overflow"); }
                    if st == VarIntStrategy::GroupVarint && v.iter().any(|&x| (x as u64) >= 1 << 32) { c.tag("gv_value_ge_2pow32"); }
                    let e = VarIntEncoder::new(st); seq_rt(c, &v, &|x| e.encode_i64_sequence(x), &|b| e.decode_i64_sequence(b)) });
            }
            ctx.case("vs/auto/u64seq", g, idx, |c| { let v = seq_u64(&mut c.rng, fam); c.input("u64s", &u64s_bytes(&v)); c.set_nontrivial(!v.is_empty());
                let st = np!("choose_optimal_strategy", choose_optimal_strategy(&v)); c.note(&format!("auto:{st:?}"), 1);
                // input-only: the selector picks Delta exactly for sorted sequences (len > 6) that are not (len >= 16 and max < 2^32)
                let sorted = v.windows(2).all(|w| w[0] <= w[1]); let grp = v.len() >= 16 && v.iter().all(|&x| x < 1 << 32);
                if !grp && sorted && v.len() > 6 && delta_u64_bad(&v) { c.tag("delta_absdiff_ge_2pow63"); }
                let e = VarIntEncoder::new(st); seq_rt(c, &v, &|x| e.encode_u64_sequence(x), &|b| e.decode_u64_sequence(b)) });
            ctx.case("vs/auto/i64seq", g, idx, |c| { let v = seq_i64(&mut c.rng, fam); c.input("i64s", &i64s_bytes(&v)); c.set_nontrivial(!v.is_empty());
                let sorted = v.windows(2).all(|w| w[0] <= w[1]);
                if sorted && v.len() > 5 && delta_i64_bad(&v) { c.tag("delta_i64_diff_overflow"); }
                if let Some(k) = v.iter().position(|&x| x == i64::MIN) { if v[..k].iter().all(|&x| x.unsigned_abs() < 256) { c.tag("i64_min_before_any_abs_ge_256"); } }
                let st = np!("choose_optimal_strategy_signed", choose_optimal_strategy_signed(&v)); c.note(&format!("auto:{st:?}"), 1);
                let e = VarIntEncoder::new(st); seq_rt(c, &v, &|x| e.encode_i64_sequence(x), &|b| e.decode_i64_sequence(b)) });
        }
    }
    // SIMD batch codec vs scalar codec
    for fam in 0..SEQ_FAMS {
        let g = seq_fam_name(fam);
        for idx in 0..ctx.n(12, 600) as u64 {
            for which in ["simd_varint/codec", "simd_varint/global"] {
                ctx.case(which, g, idx, |c| {
                    let v = seq_u64(&mut c.rng, fam); c.input("u64s", &u64s_bytes(&v)); c.set_nontrivial(!v.is_empty());
                    let codec = np!("SimdVarintCodec::new", sv::SimdVarintCodec::new()); c.note(&format!("tier:{:?}", codec.tier()), 1);
                    let global = which.ends_with("global");
                    let mut model = Vec::new(); for &x in &v { model.extend_from_slice(&VarInt::encode(x)); }
                    let e = zok!("encode_batch", if global { sv::encode_varint_batch(&v) } else { codec.encode_batch(&v) });
                    ensure!(e == model, "batch_bytes_vs_scalar", "encode_batch of {} values differs from scalar codec (first diff at byte {:?})", v.len(), e.iter().zip(&model).position(|(a, b)| a != b));
                    let d = zok!("decode_batch", if global { sv::decode_varint_batch(&e, v.len()) } else { codec.decode_batch(&e, v.len()) });
                    ensure!(d == v, "roundtrip_mismatch", "decode_batch(encode_batch) differs (n={}, bytes={})", v.len(), e.len());
                    c.note(if v.len() >= 4 && e.len() >= 32 { "batch_simd_path" } else { "batch_scalar_path" }, 1);
                    let mut t = e.clone(); t.extend_from_slice(&[0x81; 40]);
                    let d2 = zok!("decode_batch_trailing", if global { sv::decode_varint_batch(&t, v.len()) } else { codec.decode_batch(&t, v.len()) });
                    ensure!(d2 == v, "trailing_sensitivity", "decode_batch with trailing bytes differs");
                    // prefix counts
                    if !v.is_empty() { let k = 1 + c.rng.usize_below(v.len()); let dk = zok!("decode_batch_prefix", codec.decode_batch(&e, k)); ensure!(dk[..] == v[..k], "roundtrip_mismatch", "decode_batch(count={k})"); }
                    c.ev(v.len() as u64 * 3 + 1);
                    let few: Vec<u64> = v.iter().copied().take(6).collect();
                    if global { singles(c, &few, &|x| sv::encode_varint(x), &|b| sv::decode_varint(b), Some(&|x| VarInt::encode(x).len())) }
                    else { singles(c, &few, &|x| codec.encode_single(x), &|b| codec.decode_single(b), Some(&|x| VarInt::encode(x).len())) }
                });
            }
        }
    }
}

// ---------------------------------------------------------------------------------------------
// strings, inner readers / writers with short transfers
// ---------------------------------------------------------------------------------------------
fn arb_string(r: &mut Rng) -> String {
    const PIECES: &[&str] = &["a", "Z", "0", " ", "\n", "\0", "é", "ß", "Ω", "中", "€", "\u{FFFD}", "😀", "𝄞", "\u{10FFFF}", "\u{7f}", "\u{80}", "\u{7ff}", "\u{800}", "\u{ffff}", "\u{10000}"];
    let target = match r.below(12) { 0 => 0, 1..=6 => r.usize_below(14), 7 => 120 + r.usize_below(16), 8 => 126 + r.usize_below(4), 9 => 250 + r.usize_below(12), 10 => if r.chance(1, 4) { 16380 + r.usize_below(8) } else { 300 + r.usize_below(300) }, _ => r.usize_below(70) };
    let mut s = String::new();
    while s.len() < target { let p = if r.chance(1, 2) { "x" } else { *r.pick(PIECES) }; if s.len() + p.len() > target && r.bool() { s.push('y'); } else { s.push_str(p); } }
    s
}
fn arb_bytes(r: &mut Rng) -> Vec<u8> { let n = match r.below(8) { 0 => 0, 1..=4 => r.usize_below(20), 5 => 126 + r.usize_below(4), 6 => 16382 + r.usize_below(4), _ => r.usize_below(600) }; let k = r.below(gen::BYTE_KINDS as u64) as u32; gen::bytes_kind(r, k, n) }

/// Read impl returning short reads (1..=max bytes per call) — legal `Read` behaviour.
struct Chunked { data: Vec<u8>, pos: usize, max: usize, rng: Rng }
impl Chunked { fn new(data: &[u8], max: usize, rng: Rng) -> Chunked { Chunked { data: data.to_vec(), pos: 0, max: max.max(1), rng } } }
impl Read for Chunked { fn read(&mut self, buf: &mut [u8]) -> std::io::Result<usize> {
    let rem = self.data.len() - self.pos; if rem == 0 || buf.is_empty() { return Ok(0); }
    let n = (1 + self.rng.usize_below(self.max)).min(rem).min(buf.len()); buf[..n].copy_from_slice(&self.data[self.pos..self.pos + n]); self.pos += n; Ok(n) } }
/// Write impl accepting at most `max` bytes per call.
struct ShortWriter { out: Vec<u8>, max: usize, rng: Rng, flushes: u32 }
impl ShortWriter { fn new(max: usize, rng: Rng) -> ShortWriter { ShortWriter { out: Vec::new(), max: max.max(1), rng, flushes: 0 } } }
impl Write for ShortWriter { fn write(&mut self, buf: &[u8]) -> std::io::Result<usize> { if buf.is_empty() { return Ok(0); } let n = (1 + self.rng.usize_below(self.max)).min(buf.len()); self.out.extend_from_slice(&buf[..n]); Ok(n) }
    fn flush(&mut self) -> std::io::Result<()> { self.flushes += 1; Ok(()) } }

// ---------------------------------------------------------------------------------------------
// DataOutput / DataInput scripts against a byte model
// ---------------------------------------------------------------------------------------------
#[derive(Clone, Debug, PartialEq)]
enum Item { U8(u8), U16(u16), U32(u32), U64(u64), Var(u64), Bytes(Vec<u8>), LpBytes(Vec<u8>), Str(String), LpStr(String) }
fn gen_items(r: &mut Rng) -> Vec<Item> {
    let n = 1 + r.usize_below(20);
    (0..n).map(|_| match r.below(9) { 0 => Item::U8(r.next() as u8), 1 => Item::U16(bnd_u64(r) as u16), 2 => Item::U32(bnd_u64(r) as u32), 3 => Item::U64(bnd_u64(r)), 4 => Item::Var(bnd_u64(r)),
        5 => Item::Bytes(arb_bytes(r)), 6 => Item::LpBytes(arb_bytes(r)), 7 => Item::Str(arb_string(r)), _ => Item::LpStr(arb_string(r)) }).collect()
}
fn model_item(out: &mut Vec<u8>, it: &Item) {
    match it { Item::U8(v) => out.push(*v), Item::U16(v) => out.extend_from_slice(&v.to_le_bytes()), Item::U32(v) => out.extend_from_slice(&v.to_le_bytes()), Item::U64(v) => out.extend_from_slice(&v.to_le_bytes()),
        Item::Var(v) => model_leb(out, *v), Item::Bytes(b) => out.extend_from_slice(b), Item::LpBytes(b) => { model_leb(out, b.len() as u64); out.extend_from_slice(b) }
        Item::Str(s) => out.extend_from_slice(s.as_bytes()), Item::LpStr(s) => { model_leb(out, s.len() as u64); out.extend_from_slice(s.as_bytes()) } }
}
fn model_bytes(items: &[Item]) -> (Vec<u8>, Vec<usize>) { let mut out = Vec::new(); let mut ends = Vec::new(); for it in items { model_item(&mut out, it); ends.push(out.len()); } (out, ends) }
fn record_items(c: &mut Case, items: &[Item]) -> (Vec<u8>, Vec<usize>) { let (m, e) = model_bytes(items); c.input("model_stream", &m); let kinds: String = items.iter().map(|i| match i { Item::U8(_) => 'b', Item::U16(_) => 'h', Item::U32(_) => 'w', Item::U64(_) => 'q', Item::Var(_) => 'v', Item::Bytes(_) => 'B', Item::LpBytes(_) => 'L', Item::Str(_) => 's', Item::LpStr(_) => 'S' }).collect(); c.input_str("items", &kinds); c.set_nontrivial(true); (m, e) }

fn write_items<O: DataOutput>(c: &mut Case, o: &mut O, items: &[Item], base: u64) -> Res {
    let (_, ends) = model_bytes(items);
    for (i, it) in items.iter().enumerate() {
        match it { Item::U8(v) => zok!("write_u8", o.write_u8(*v)), Item::U16(v) => zok!("write_u16", o.write_u16(*v)), Item::U32(v) => zok!("write_u32", o.write_u32(*v)), Item::U64(v) => zok!("write_u64", o.write_u64(*v)),
            Item::Var(v) => zok!("write_var_int", o.write_var_int(*v)), Item::Bytes(b) => zok!("write_bytes", o.write_bytes(b)), Item::LpBytes(b) => zok!("write_length_prefixed_bytes", o.write_length_prefixed_bytes(b)),
            Item::Str(s) => zok!("write_string", o.write_string(s)), Item::LpStr(s) => zok!("write_length_prefixed_string", o.write_length_prefixed_string(s)) }
        if let Some(p) = o.position() { ensure!(p == base + ends[i] as u64, "writer_position", "after item {i} ({it:?}) position()={p} want {}", base + ends[i] as u64); c.ev(1); }
        if let Some(p) = o.bytes_written() { ensure!(p == base + ends[i] as u64, "writer_bytes_written", "after item {i} bytes_written()={p} want {}", base + ends[i] as u64); c.ev(1); }
    }
    zok!("flush", o.flush()); Ok(())
}
/// read the model stream back through a DataInput; `skips` selects items that are skipped instead of decoded.
fn read_items<I: DataInput>(c: &mut Case, inp: &mut I, items: &[Item], ends: &[usize], skip_some: bool, at_end_check: bool) -> Res {
    let mut prev = 0usize;
    for (i, it) in items.iter().enumerate() {
        let len = ends[i] - prev; prev = ends[i];
        if skip_some && c.rng.chance(1, 5) { zok!("skip", inp.skip(len)); c.note("skipped_items", 1); }
        else {
            let got = match it { Item::U8(_) => Item::U8(zok!("read_u8", inp.read_u8())), Item::U16(_) => Item::U16(zok!("read_u16", inp.read_u16())), Item::U32(_) => Item::U32(zok!("read_u32", inp.read_u32())), Item::U64(_) => Item::U64(zok!("read_u64", inp.read_u64())),
                Item::Var(_) => Item::Var(zok!("read_var_int", inp.read_var_int())),
                Item::Bytes(b) => if c.rng.bool() { Item::Bytes(zok!("read_vec", inp.read_vec(b.len()))) } else { let mut buf = vec![0u8; b.len()]; zok!("read_bytes", inp.read_bytes(&mut buf)); Item::Bytes(buf) },
                Item::LpBytes(_) => Item::LpBytes(zok!("read_length_prefixed_bytes", inp.read_length_prefixed_bytes())),
                Item::Str(s) => Item::Str(zok!("read_string", inp.read_string(s.len()))), Item::LpStr(_) => Item::LpStr(zok!("read_length_prefixed_string", inp.read_length_prefixed_string())) };
            ensure!(got == *it, "roundtrip_mismatch", "item {i}: read {} want {}", abbrev_item(&got), abbrev_item(it)); c.ev(1);
        }
        if let Some(p) = inp.position() { ensure!(p == ends[i] as u64, "consumed_len", "after item {i} ({}) position()={p} want {}", abbrev_item(it), ends[i]); c.ev(1); }
    }
    if at_end_check {
        if let Some(h) = inp.has_remaining() { ensure!(!h, "has_remaining_at_end", "has_remaining() true after the last item"); }
        let r = np!("read_u8 at end", inp.read_u8()); ensure!(r.is_err(), "read_past_end", "read_u8 after the last item returned {r:?}");
    }
    Ok(())
}
fn abbrev_item(i: &Item) -> String { let s = format!("{i:?}"); if s.len() > 120 { format!("{}..(len {})", s.chars().take(100).collect::<String>(), s.len()) } else { s } }

fn run_dataio(ctx: &mut Ctx) {
    for idx in 0..ctx.n(400, 12000) as u64 {
        ctx.case("dout/vec", "script", idx, |c| { let items = gen_items(&mut c.rng); let (m, _) = record_items(c, &items);
            let mut o = if c.rng.bool() { VecDataOutput::new() } else { zipora::io::to_vec_with_capacity(c.rng.usize_below(64)) }; write_items(c, &mut o, &items, 0)?;
            ensure!(o.len() == m.len(), "len", "VecDataOutput.len()={} want {}", o.len(), m.len()); ensure!(o.as_slice() == &m[..], "bytes_vs_model", "VecDataOutput bytes differ from model"); c.ev(1); Ok(()) });
        ctx.case("dout/writer", "script", idx, |c| { let items = gen_items(&mut c.rng); let (m, _) = record_items(c, &items);
            if c.rng.bool() { let mut o = WriterDataOutput::new(Vec::new()); write_items(c, &mut o, &items, 0)?; let v = o.into_inner(); ensure!(v == m, "bytes_vs_model", "WriterDataOutput<Vec> bytes differ from model"); }
            else { let mx = 1 + c.rng.usize_below(5); c.tag("inner_short_writes"); let f = c.rng.fork(); let mut o = zipora::io::to_writer(ShortWriter::new(mx, f)); write_items(c, &mut o, &items, 0)?; let v = o.into_inner().out; ensure!(v == m, "bytes_vs_model", "WriterDataOutput<short writer> bytes differ from model"); }
            c.ev(1); Ok(()) });
        ctx.case("din/slice", "script", idx, |c| { let items = gen_items(&mut c.rng); let (m, ends) = record_items(c, &items);
            let mut i = if c.rng.bool() { SliceDataInput::new(&m) } else { zipora::io::from_slice(&m) }; read_items(c, &mut i, &items, &ends, true, true)?;
            ensure!(i.remaining() == 0 && !i.has_more() && i.pos() == m.len(), "consumed_len", "slice input not at end"); Ok(()) });
        ctx.case("din/reader", "script", idx, |c| { let items = gen_items(&mut c.rng); let (m, ends) = record_items(c, &items);
            if c.rng.bool() { let mut i = ReaderDataInput::new(Cursor::new(m.clone())); read_items(c, &mut i, &items, &ends, true, true)?; ensure!(i.pos() == m.len() as u64, "consumed_len", "pos()"); }
            else { let mx = 1 + c.rng.usize_below(6); let f = c.rng.fork(); c.tag("inner_short_reads"); let mut i = zipora::io::from_reader(Chunked::new(&m, mx, f)); read_items(c, &mut i, &items, &ends, true, true)?; }
            Ok(()) });
        ctx.case("din/range", "script", idx, |c| { let items = gen_items(&mut c.rng); let (m, ends) = record_items(c, &items);
            let pre = c.rng.usize_below(40); let post = c.rng.usize_below(40); let mut all = c.rng.bytes(pre); all.extend_from_slice(&m); all.extend(c.rng.bytes(post)); c.input_str("pre_post", &format!("{pre},{post}"));
            let mut i = zok!("RangeReader::new_and_seek", RangeReader::new_and_seek(Cursor::new(all), pre as u64, m.len() as u64)); read_items(c, &mut i, &items, &ends, true, true)?;
            ensure!(i.remaining() == 0 && i.is_at_end(), "consumed_len", "range reader not at end: remaining {}", i.remaining()); Ok(()) });
    }
    // file-backed back ends (fewer cases: syscalls)
    for idx in 0..ctx.n(120, 2500) as u64 {
        ctx.case("dout/file", "script", idx, |c| { let items = gen_items(&mut c.rng); let (m, _) = record_items(c, &items);
            let dir = tempfile::tempdir().map_err(|e| bad("__inconclusive", format!("tempdir: {e}")))?; let p = dir.path().join("f.bin");
            let cut = c.rng.usize_below(items.len() + 1);
            { let mut o = zok!("FileDataOutput::create", FileDataOutput::create(&p)); write_items(c, &mut o, &items[..cut], 0)?; ensure!(o.bytes_written() == model_bytes(&items[..cut]).0.len() as u64, "writer_bytes_written", "bytes_written()"); }
            let base = model_bytes(&items[..cut]).0.len() as u64;
            { let mut o = zok!("FileDataOutput::append", if c.rng.bool() { FileDataOutput::append(&p) } else { zipora::io::to_file_append(&p) }); write_items(c, &mut o, &items[cut..], base)?; zok!("sync_data", o.sync_data()); }
            let got = std::fs::read(&p).map_err(|e| bad("__inconclusive", format!("read back: {e}")))?; ensure!(got == m, "bytes_vs_model", "file content ({} bytes) differs from model ({} bytes)", got.len(), m.len()); c.ev(1); Ok(()) });
        ctx.case("dout/mmap", "script", idx, |c| { let items = gen_items(&mut c.rng); let (m, _) = record_items(c, &items);
            let dir = tempfile::tempdir().map_err(|e| bad("__inconclusive", format!("tempdir: {e}")))?; let p = dir.path().join("m.bin");
            let init = *c.rng.pick(&[0usize, 1, 2, 16, 100, 4096, 70000]); c.input_str("initial_size", &init.to_string());
            let mut o = match catch(|| MemoryMappedOutput::create(&p, init)) { Ok(Ok(o)) => o, Ok(Err(e)) => { c.note("ctor_refused", 1); c.log(format!("create refused: {e}")); c.set_nontrivial(false); return Ok(()); } Err(pn) => return Err(bad(&pn.class(), format!("create panicked {}", pn.loc))) };
            write_items(c, &mut o, &items, 0)?; ensure!(o.position() == m.len(), "writer_position", "position()={} want {}", o.position(), m.len()); ensure!(o.capacity() >= m.len(), "capacity", "capacity {} < written {}", o.capacity(), m.len());
            let trunc = c.rng.bool(); if trunc { zok!("truncate", o.truncate()); } drop(o);
            let got = std::fs::read(&p).map_err(|e| bad("__inconclusive", format!("read back: {e}")))?;
            if trunc { ensure!(got == m, "bytes_vs_model", "truncated mmap file ({} bytes) differs from model ({} bytes)", got.len(), m.len()); } else { ensure!(got.len() >= m.len() && got[..m.len()] == m[..], "bytes_vs_model", "mmap file prefix differs from model"); }
            c.ev(1); Ok(()) });
        ctx.case("din/mmap", "script", idx, |c| { let mut items = gen_items(&mut c.rng); if c.rng.chance(1, 3) { items.push(Item::Bytes(c.rng.bytes(5000))); items.push(Item::Var(bnd_u64(&mut c.rng))); } let (m, ends) = record_items(c, &items);
            let dir = tempfile::tempdir().map_err(|e| bad("__inconclusive", format!("tempdir: {e}")))?; let p = dir.path().join("i.bin"); std::fs::write(&p, &m).map_err(|e| bad("__inconclusive", format!("{e}")))?;
            let mut i = zok!("MmapDataInput::open", if c.rng.bool() { MmapDataInput::open(&p) } else { zipora::io::from_file(&p) }); ensure!(i.len() == m.len(), "len", "len()"); read_items(c, &mut i, &items, &ends, true, true)?; ensure!(i.remaining() == 0, "consumed_len", "remaining"); Ok(()) });
        ctx.case("din/mmapped_input", "script", idx, |c| { let mut items = gen_items(&mut c.rng);
            let big = c.rng.below(3); if big >= 1 { items.push(Item::Bytes(c.rng.bytes(4200))); items.push(Item::LpStr(arb_string(&mut c.rng))); items.push(Item::Var(bnd_u64(&mut c.rng))); }
            if idx % 40 == 0 { let k = c.rng.below(gen::BYTE_KINDS as u64) as u32; items.insert(0, Item::Bytes(gen::bytes_kind(&mut c.rng, k, 1024 * 1024 + 5))); }
            let (m, ends) = record_items(c, &items);
            let dir = tempfile::tempdir().map_err(|e| bad("__inconclusive", format!("tempdir: {e}")))?; let p = dir.path().join("i.bin"); std::fs::write(&p, &m).map_err(|e| bad("__inconclusive", format!("{e}")))?;
            let mut i = zok!("MemoryMappedInput::from_path", MemoryMappedInput::from_path(&p)); c.note(&format!("strategy:{:?}", i.strategy()), 1); ensure!(i.len() == m.len(), "len", "len()");
            read_items(c, &mut i, &items, &ends, true, true)?; ensure!(i.remaining() == 0 && i.position() == m.len(), "consumed_len", "position {} want {}", i.position(), m.len());
            // seek back to a random item boundary and re-read the tail
            let k = c.rng.usize_below(items.len()); let start = if k == 0 { 0 } else { ends[k - 1] }; zok!("seek", i.seek(start));
            let tail_ends: Vec<usize> = ends[k..].iter().map(|e| *e).collect();
            let mut prev = start; for (j, it) in items[k..].iter().enumerate() { let len = tail_ends[j] - prev; prev = tail_ends[j]; let raw = zok!("read_slice", i.read_slice(len)); ensure!(raw[..] == m[tail_ends[j] - len..tail_ends[j]], "reread_mismatch", "after seek({start}) item {} ({}) raw bytes differ", k + j, abbrev_item(it)); c.ev(1); }
            Ok(()) });
    }
}

// ---------------------------------------------------------------------------------------------
// endian
// ---------------------------------------------------------------------------------------------
macro_rules! endian_int { ($c:expr, $t:ty, $raw:expr) => {{ let v: $t = $raw as $t; const N: usize = std::mem::size_of::<$t>();
    let le = <$t as EndianConvert>::to_le(v); let be = <$t as EndianConvert>::to_be(v);
    ensure!(le.to_ne_bytes() == v.to_le_bytes(), "to_le_vs_bytes", "{}::to_le({v})", stringify!($t)); ensure!(be.to_ne_bytes() == v.to_be_bytes(), "to_be_vs_bytes", "{}::to_be({v})", stringify!($t));
    ensure!(<$t as EndianConvert>::from_le(le) == v && <$t as EndianConvert>::from_be(be) == v, "endian_roundtrip", "{} from(to({v}))", stringify!($t));
    ensure!(<$t as EndianConvert>::from_le(v) == <$t>::from_le_bytes(v.to_ne_bytes()) && <$t as EndianConvert>::from_be(v) == <$t>::from_be_bytes(v.to_ne_bytes()), "from_vs_bytes", "{} from_*({v})", stringify!($t));
    ensure!(<$t as EndianConvert>::to_be(be) == v && <$t as EndianConvert>::to_le(le) == v, "endian_involution", "{} to(to({v}))", stringify!($t));
    for e in [Endianness::Little, Endianness::Big, Endianness::Native] {
        let want: [u8; N] = match e { Endianness::Little => v.to_le_bytes(), Endianness::Big => v.to_be_bytes(), Endianness::Native => v.to_ne_bytes() };
        let x = v.to_endian(e); ensure!(x.to_ne_bytes() == want, "to_endian_vs_bytes", "{}::to_endian({v},{e:?})", stringify!($t)); ensure!(x.from_endian(e) == v, "endian_roundtrip", "{} from_endian(to_endian({v},{e:?}))", stringify!($t));
        let io = EndianIO::<$t>::new(e); let off = $c.rng.usize_below(4); let mut buf = [0xAAu8; 24];
        zok!("write_to_bytes", io.write_to_bytes(v, &mut buf[off..])); ensure!(buf[off..off + N] == want, "endian_io_bytes", "EndianIO<{}>({e:?}).write_to_bytes({v}) wrote {} want {}", stringify!($t), gen::hex(&buf[off..off + N]), gen::hex(&want));
        ensure!(buf[..off].iter().all(|&b| b == 0xAA) && buf[off + N..].iter().all(|&b| b == 0xAA), "endian_io_overwrite", "write_to_bytes touched bytes outside the value");
        let back = zok!("read_from_bytes", io.read_from_bytes(&buf[off..])); ensure!(back == v, "endian_roundtrip", "EndianIO<{}>({e:?}) read(write({v}))={back}", stringify!($t));
        let exact = zok!("read_from_bytes", io.read_from_bytes(&buf[off..off + N])); ensure!(exact == v, "endian_roundtrip", "exact-size read");
        if N > 1 { ensure!(io.read_from_bytes(&buf[..N - 1]).is_err() && io.write_to_bytes(v, &mut buf[..N - 1]).is_err(), "endian_io_short", "short buffer accepted"); }
        ensure!(io.needs_conversion() == (e == Endianness::Big) || cfg!(target_endian = "big"), "needs_conversion", "{e:?}");
        $c.ev(6);
    } }} }
macro_rules! endian_slice { ($c:expr, $t:ty) => {{ let n = $c.rng.usize_below(40); let orig: Vec<$t> = (0..n).map(|_| bnd_u64(&mut $c.rng) as $t).collect();
    for e in [Endianness::Little, Endianness::Big, Endianness::Native] { let io = EndianIO::<$t>::new(e); let mut v = orig.clone(); np!("convert_slice_to_endian", io.convert_slice_to_endian(&mut v));
        for i in 0..n { let want = match e { Endianness::Little => orig[i].to_le_bytes(), Endianness::Big => orig[i].to_be_bytes(), Endianness::Native => orig[i].to_ne_bytes() }; ensure!(v[i].to_ne_bytes() == want, "slice_to_endian", "{}[{i}] {e:?}", stringify!($t)); }
        np!("convert_slice_from_endian", io.convert_slice_from_endian(&mut v)); ensure!(v == orig, "endian_roundtrip", "slice {} {e:?}", stringify!($t)); $c.ev(n as u64 * 2); } }} }

fn run_endian(ctx: &mut Ctx) {
    for idx in 0..ctx.n(300, 10000) as u64 {
        ctx.case("endian/convert_io", "boundary", idx, |c| {
            let raw = bnd_u64(&mut c.rng); let raw2 = c.rng.next(); c.input("raw", &[raw.to_le_bytes(), raw2.to_le_bytes()].concat()); c.set_nontrivial(true);
            endian_int!(c, u8, raw); endian_int!(c, i8, raw); endian_int!(c, u16, raw); endian_int!(c, i16, raw); endian_int!(c, u32, raw); endian_int!(c, i32, raw2); endian_int!(c, u64, raw); endian_int!(c, i64, raw2);
            endian_int!(c, usize, raw); endian_int!(c, isize, raw2); let w = ((raw as u128) << 64) | raw2 as u128; endian_int!(c, u128, w); endian_int!(c, i128, w);
            // floats through bit patterns (NaNs excluded after swapping: payload preservation of NaN through f32 moves is not a library matter)
            let f = f32::from_bits(raw2 as u32); let g = f64::from_bits(raw);
            if !f.is_nan() && !f32::from_bits((raw2 as u32).swap_bytes()).is_nan() { for e in [Endianness::Little, Endianness::Big, Endianness::Native] { let x = f.to_endian(e); let want = match e { Endianness::Big => f.to_bits().to_be(), _ => f.to_bits() }; ensure!(x.to_bits() == want, "to_endian_vs_bytes", "f32 {e:?}"); ensure!(x.from_endian(e).to_bits() == f.to_bits(), "endian_roundtrip", "f32 {e:?}");
                let io = EndianIO::<f32>::new(e); let mut b = [0u8; 4]; zok!("write_to_bytes", io.write_to_bytes(f, &mut b)); ensure!(b == match e { Endianness::Big => f.to_be_bytes(), Endianness::Little => f.to_le_bytes(), _ => f.to_ne_bytes() }, "endian_io_bytes", "f32 {e:?}"); ensure!(zok!("read_from_bytes", io.read_from_bytes(&b)).to_bits() == f.to_bits(), "endian_roundtrip", "f32 io"); c.ev(4); } }
            if !g.is_nan() && !f64::from_bits(raw.swap_bytes()).is_nan() { for e in [Endianness::Little, Endianness::Big, Endianness::Native] { let x = g.to_endian(e); let want = match e { Endianness::Big => g.to_bits().to_be(), _ => g.to_bits() }; ensure!(x.to_bits() == want, "to_endian_vs_bytes", "f64 {e:?}"); ensure!(x.from_endian(e).to_bits() == g.to_bits(), "endian_roundtrip", "f64 {e:?}");
                let io = EndianIO::<f64>::new(e); let mut b = [0u8; 8]; zok!("write_to_bytes", io.write_to_bytes(g, &mut b)); ensure!(b == match e { Endianness::Big => g.to_be_bytes(), Endianness::Little => g.to_le_bytes(), _ => g.to_ne_bytes() }, "endian_io_bytes", "f64 {e:?}"); ensure!(zok!("read_from_bytes", io.read_from_bytes(&b)).to_bits() == g.to_bits(), "endian_roundtrip", "f64 io"); c.ev(4); } }
            endian_slice!(c, u16); endian_slice!(c, u32); endian_slice!(c, u64); endian_slice!(c, i16); endian_slice!(c, i64);
            Ok(()) });
    }
    for idx in 0..ctx.n(60, 1500) as u64 {
        // bulk helpers: `from_little` names the byte order of the data; result must be the native-order values
        ctx.case("endian/simd_slice", "u16_u32", idx, |c| { c.tag("simd_slice_flag_inverted"); c.set_nontrivial(true);
            let n = c.rng.usize_below(45); let from_little = c.rng.bool(); c.input_str("n_from_little", &format!("{n},{from_little}"));
            let a: Vec<u16> = (0..n).map(|_| c.rng.next() as u16).collect(); let mut x = a.clone(); np!("convert_u16_slice_simd", endian::simd::convert_u16_slice_simd(&mut x, from_little));
            let mut twice = x.clone(); np!("convert_u16_slice_simd", endian::simd::convert_u16_slice_simd(&mut twice, from_little)); ensure!(twice == a, "endian_involution", "convert_u16_slice_simd twice is not the identity (n={n})");
            for i in 0..n { let want = if from_little { u16::from_le(a[i]) } else { u16::from_be(a[i]) }; ensure!(x[i] == want, "simd_slice_vs_from_bytes", "convert_u16_slice_simd(from_little={from_little})[{i}] = {:#06x} want {:#06x} (input {:#06x}, n={n})", x[i], want, a[i]); c.ev(1); }
            let b: Vec<u32> = (0..n).map(|_| c.rng.next() as u32).collect(); let mut y = b.clone(); np!("convert_u32_slice_simd", endian::simd::convert_u32_slice_simd(&mut y, from_little));
            for i in 0..n { let want = if from_little { u32::from_le(b[i]) } else { u32::from_be(b[i]) }; ensure!(y[i] == want, "simd_slice_vs_from_bytes", "convert_u32_slice_simd(from_little={from_little})[{i}] = {:#010x} want {:#010x} (n={n})", y[i], want); c.ev(1); }
            Ok(()) });
    }
    for (idx, e) in [Endianness::Little, Endianness::Big, Endianness::Native].into_iter().enumerate() {
        ctx.case("endian/magic", "all", idx as u64, |c| { c.input_str("endianness", &format!("{e:?}")); c.set_nontrivial(true); if e.needs_conversion() { c.tag("magic_non_native"); }
            let m = np!("write_endianness_magic", endian::write_endianness_magic(e)); let d = endian::detect_endianness_from_magic(m);
            let want = if e == Endianness::Native { Endianness::native() } else { e }; c.ev(1);
            ensure!(d == Some(want), "magic_roundtrip", "detect_endianness_from_magic(write_endianness_magic({e:?})={m:#x}) = {d:?} want {want:?}"); Ok(()) });
    }
}

// ---------------------------------------------------------------------------------------------
// arbitrary values for SerializableType / ComplexSerialize
// ---------------------------------------------------------------------------------------------
trait Arb: Sized { fn arb(r: &mut Rng, d: u32) -> Self; }
macro_rules! arb_int { ($($t:ty),*) => { $( impl Arb for $t { fn arb(r: &mut Rng, _d: u32) -> Self { match r.below(4) { 0 => *r.pick(&[0 as $t, 1 as $t, <$t>::MAX, <$t>::MIN, <$t>::MAX - 1, 0x7f as $t, (0x80u8) as $t]), 1 => bnd_u64(r) as $t, _ => r.next() as $t } } } )* } }
arb_int!(u8, u16, u32, u64, i8, i16, i32, i64);
impl Arb for () { fn arb(_r: &mut Rng, _d: u32) -> Self {} }
impl Arb for bool { fn arb(r: &mut Rng, _d: u32) -> Self { r.bool() } }
impl Arb for String { fn arb(r: &mut Rng, _d: u32) -> Self { arb_string(r) } }
impl<T: Arb> Arb for Vec<T> { fn arb(r: &mut Rng, d: u32) -> Self { let n = if d == 0 { r.usize_below(2) } else if r.chance(1, 12) { 100 + r.usize_below(200) >> (3 - d.min(3)) } else { r.usize_below(6) }; (0..n).map(|_| T::arb(r, d.saturating_sub(1))).collect() } }
impl<T: Arb> Arb for Option<T> { fn arb(r: &mut Rng, d: u32) -> Self { if r.chance(1, 3) { None } else { Some(T::arb(r, d.saturating_sub(1))) } } }
impl<T: Arb> Arb for Box<T> { fn arb(r: &mut Rng, d: u32) -> Self { Box::new(T::arb(r, d)) } }
impl<T: Arb> Arb for Rc<T> { fn arb(r: &mut Rng, d: u32) -> Self { Rc::new(T::arb(r, d)) } }
impl<T: Arb> Arb for Arc<T> { fn arb(r: &mut Rng, d: u32) -> Self { Arc::new(T::arb(r, d)) } }
impl<K: Arb + Ord, V: Arb> Arb for BTreeMap<K, V> { fn arb(r: &mut Rng, d: u32) -> Self { let n = r.usize_below(7); (0..n).map(|_| (K::arb(r, d.saturating_sub(1)), V::arb(r, d.saturating_sub(1)))).collect() } }
impl<T: Arb + Ord> Arb for BTreeSet<T> { fn arb(r: &mut Rng, d: u32) -> Self { let n = r.usize_below(9); (0..n).map(|_| T::arb(r, d.saturating_sub(1))).collect() } }
impl<T: Arb, const N: usize> Arb for [T; N] { fn arb(r: &mut Rng, d: u32) -> Self { std::array::from_fn(|_| T::arb(r, d.saturating_sub(1))) } }
impl<T: Arb, E: Arb> Arb for Result<T, E> { fn arb(r: &mut Rng, d: u32) -> Self { if r.bool() { Ok(T::arb(r, d)) } else { Err(E::arb(r, d)) } } }
macro_rules! arb_tuple { ($($T:ident),*) => { impl<$($T: Arb),*> Arb for ($($T,)*) { fn arb(r: &mut Rng, d: u32) -> Self { ($($T::arb(r, d),)*) } } } }
arb_tuple!(A); arb_tuple!(A, B); arb_tuple!(A, B, C); arb_tuple!(A, B, C, D); arb_tuple!(A, B, C, D, E); arb_tuple!(A, B, C, D, E, F, G); arb_tuple!(A, B, C, D, E, F, G, H, I, J, K, L);
impl Arb for Version { fn arb(r: &mut Rng, _d: u32) -> Self { let f = |r: &mut Rng| -> u16 { match r.below(6) { 0 => 0, 1 => 255, 2 => 256, 3 => r.below(256) as u16, 4 => r.below(20) as u16, _ => r.next() as u16 } }; Version::new(f(r), f(r), f(r)) } }

fn show<T: Debug>(v: &T) -> String { let s = format!("{v:?}"); if s.len() > 300 { format!("{}..(len {})", s.chars().take(280).collect::<String>(), s.len()) } else { s } }

/// SerializableType round trip: exact buffer, buffer + sentinel, and a ++ b ++ a ++ sentinel read back in order.
fn rt_ser<T: SerializableType + PartialEq + Debug>(c: &mut Case, a: &T, b: &T) -> Res {
    // an encoder that refuses a value (Err) is outside the property (it conditions on a produced encoding); a panic is not
    let enc = |v: &T| -> Result<Option<Vec<u8>>, Fail> { let mut o = VecDataOutput::new(); match catch(|| v.serialize(&mut o)) { Ok(Ok(())) => Ok(Some(o.into_vec())), Ok(Err(_)) => Ok(None), Err(p) => Err(bad(&p.class(), format!("serialize panicked at {}: {}", p.loc, p.msg))) } };
    let (ea, eb) = match (enc(a)?, enc(b)?) { (Some(x), Some(y)) => (x, y), _ => { c.note("encode_refused", 1); c.set_nontrivial(false); return Ok(()); } };
    { let mut i = SliceDataInput::new(&ea); let d = zok!("deserialize", T::deserialize(&mut i)); ensure!(d == *a, "roundtrip_mismatch", "deserialize(serialize({})) = {}", show(a), show(&d)); ensure!(i.pos() == ea.len(), "consumed_len", "consumed {} of {} bytes for {}", i.pos(), ea.len(), show(a)); c.ev(2); }
    let mut buf = ea.clone(); buf.extend_from_slice(&eb); buf.extend_from_slice(&ea); buf.extend_from_slice(&SENT);
    let mut i = SliceDataInput::new(&buf); let mut want_pos = 0;
    for (k, (v, e)) in [(a, &ea), (b, &eb), (a, &ea)].into_iter().enumerate() {
        let d = match catch(|| T::deserialize(&mut i)) { Ok(Ok(d)) => d, Ok(Err(er)) => return Err(bad("concat_decode_err", format!("value {k} of a++b++a: {er}; a={} b={}", show(a), show(b)))), Err(p) => return Err(bad(&p.class(), format!("deserialize panicked at {}: {}", p.loc, p.msg))) };
        want_pos += e.len(); ensure!(d == *v, "concat_mismatch", "value {k} of a++b++a decoded as {} want {}", show(&d), show(v)); ensure!(i.pos() == want_pos, "consumed_len", "after value {k} reader at {} want {want_pos} ({})", i.pos(), show(v)); c.ev(2);
    }
    ensure!(i.remaining() == SENT.len(), "concat_end", "remaining {} want {}", i.remaining(), SENT.len());
    Ok(())
}
/// ComplexSerialize round trip (data only, with metadata, nested) with exact consumption.
fn rt_complex<T: ComplexSerialize + PartialEq + Debug>(c: &mut Case, a: &T, b: &T) -> Res {
    c.input_str("value_a", &show(a)); c.input_str("value_b", &show(b)); c.set_nontrivial(true);
    for mode in 0..3 {
        let mut o = VecDataOutput::new(); let mut lens = Vec::new();
        for v in [a, b, a] { match mode { 0 => zok!("serialize_data", v.serialize_data(&mut o)), 1 => zok!("serialize_with_metadata", v.serialize_with_metadata(&mut o)), _ => zok!("serialize_nested", v.serialize_nested(&mut o, 0)) }; lens.push(o.len()); }
        zok!("write_bytes", o.write_bytes(&SENT)); let buf = o.into_vec(); let mut i = SliceDataInput::new(&buf);
        for (k, v) in [a, b, a].into_iter().enumerate() {
            let r = catch(|| match mode { 0 => T::deserialize_with_version(&mut i, T::version()), 1 => T::deserialize_with_metadata(&mut i), _ => T::deserialize_nested(&mut i, 0) });
            let d = match r { Ok(Ok(d)) => d, Ok(Err(e)) => return Err(bad("decode_err", format!("mode {mode} value {k}: {e}; a={} b={}", show(a), show(b)))), Err(p) => return Err(bad(&p.class(), format!("deserialize (mode {mode}) panicked at {}: {}", p.loc, p.msg))) };
            ensure!(d == *v, "roundtrip_mismatch", "mode {mode} value {k}: got {} want {}", show(&d), show(v)); ensure!(i.pos() == lens[k], "consumed_len", "mode {mode} after value {k} reader at {} want {}", i.pos(), lens[k]); c.ev(2);
        }
        ensure!(i.remaining() == SENT.len(), "concat_end", "mode {mode}: remaining {}", i.remaining());
    }
    Ok(())
}
macro_rules! cx { ($ctx:expr, $target:expr, $gen:expr, $idx:expr, $t:ty) => { $ctx.case($target, $gen, $idx, |c| { let a = <$t as Arb>::arb(&mut c.rng, 3); let b = <$t as Arb>::arb(&mut c.rng, 3); rt_complex::<$t>(c, &a, &b) }); } }
macro_rules! sx { ($ctx:expr, $target:expr, $gen:expr, $idx:expr, $t:ty) => { $ctx.case($target, $gen, $idx, |c| { let a = <$t as Arb>::arb(&mut c.rng, 3); let b = <$t as Arb>::arb(&mut c.rng, 3); c.input_str("value_a", &show(&a)); c.input_str("value_b", &show(&b)); c.set_nontrivial(true); rt_ser::<$t>(c, &a, &b) }); } }

mod macro_struct {
    use zipora::error::Result;
    use zipora::io::{ComplexSerialize, DataInput, DataOutput, SerializableType};
    #[derive(Debug, PartialEq, Clone)]
    pub struct Rec { pub id: u32, pub name: String, pub active: bool, pub tags: Vec<String>, pub score: Option<i64>, pub raw: Vec<u8> }
    zipora::impl_complex_serialize!(Rec { id: u32, name: String, active: bool, tags: Vec<String>, score: Option<i64>, raw: Vec<u8> });
}
use macro_struct::Rec;
impl Arb for Rec { fn arb(r: &mut Rng, d: u32) -> Self { Rec { id: Arb::arb(r, d), name: Arb::arb(r, d), active: Arb::arb(r, d), tags: Arb::arb(r, 2), score: Arb::arb(r, d), raw: Arb::arb(r, 2) } } }

fn run_complex(ctx: &mut Ctx) {
    for idx in 0..ctx.n(60, 2500) as u64 {
        cx!(ctx, "complex/tuple", "t0", idx, ());
        cx!(ctx, "complex/tuple", "t1", idx, (u8,)); cx!(ctx, "complex/tuple", "t2", idx, (u32, String)); cx!(ctx, "complex/tuple", "t3", idx, (u64, i16, bool));
        cx!(ctx, "complex/tuple", "t4", idx, (String, Vec<u32>, Option<i64>, u8)); cx!(ctx, "complex/tuple", "t5", idx, (Vec<String>, Option<String>, i8, u16, Box<u64>));
        cx!(ctx, "complex/tuple", "t7", idx, (bool, bool, String, String, Vec<Option<u16>>, i32, BTreeMap<u8, String>)); cx!(ctx, "complex/tuple", "t12", idx, (u8, u16, u32, u64, i8, i16, i32, i64, bool, String, Vec<u8>, Option<u32>));
        cx!(ctx, "complex/array", "u32x0", idx, [u32; 0]); cx!(ctx, "complex/array", "u8x1", idx, [u8; 1]); cx!(ctx, "complex/array", "stringx3", idx, [String; 3]); cx!(ctx, "complex/array", "u64x8", idx, [u64; 8]); cx!(ctx, "complex/array", "i16x33", idx, [i16; 33]); cx!(ctx, "complex/array", "optx4", idx, [Option<u32>; 4]);
        cx!(ctx, "complex/option", "u32", idx, Option<u32>); cx!(ctx, "complex/option", "string", idx, Option<String>); cx!(ctx, "complex/option", "nested", idx, Option<Option<Vec<Option<String>>>>);
        cx!(ctx, "complex/result", "u32_string", idx, Result<u32, String>); cx!(ctx, "complex/result", "string_i64", idx, Result<String, i64>); cx!(ctx, "complex/result", "vec_u8", idx, Result<Vec<u8>, u8>);
        cx!(ctx, "complex/btreemap", "string_u32", idx, BTreeMap<String, u32>); cx!(ctx, "complex/btreemap", "u64_vec", idx, BTreeMap<u64, Vec<String>>); cx!(ctx, "complex/btreemap", "nested", idx, BTreeMap<i16, BTreeMap<String, Option<u8>>>);
        cx!(ctx, "complex/btreeset", "string", idx, BTreeSet<String>); cx!(ctx, "complex/btreeset", "i64", idx, BTreeSet<i64>);
        cx!(ctx, "complex/struct_macro", "rec", idx, Rec);
        ctx.case("complex/hashmap", "string_vec", idx, |c| { let a: BTreeMap<String, Vec<u32>> = Arb::arb(&mut c.rng, 3); let b: BTreeMap<String, Vec<u32>> = Arb::arb(&mut c.rng, 3); c.hash_more(show(&a).as_bytes());
            let (ha, hb): (HashMap<String, Vec<u32>>, HashMap<String, Vec<u32>>) = (a.into_iter().collect(), b.into_iter().collect()); rt_complex_unordered(c, &ha, &hb) });
        ctx.case("complex/hashmap", "u32_optstring", idx, |c| { let a: BTreeMap<u32, Option<String>> = Arb::arb(&mut c.rng, 3); let b: BTreeMap<u32, Option<String>> = Arb::arb(&mut c.rng, 3); c.hash_more(show(&a).as_bytes());
            let (ha, hb): (HashMap<u32, Option<String>>, HashMap<u32, Option<String>>) = (a.into_iter().collect(), b.into_iter().collect()); rt_complex_unordered(c, &ha, &hb) });
        ctx.case("complex/hashset", "string", idx, |c| { let a: BTreeSet<String> = Arb::arb(&mut c.rng, 3); let b: BTreeSet<String> = Arb::arb(&mut c.rng, 3); c.hash_more(show(&a).as_bytes());
            let (ha, hb): (HashSet<String>, HashSet<String>) = (a.into_iter().collect(), b.into_iter().collect()); rt_complex_unordered(c, &ha, &hb) });
        ctx.case("complex/hashset", "u16", idx, |c| { let a: BTreeSet<u16> = Arb::arb(&mut c.rng, 3); let b: BTreeSet<u16> = Arb::arb(&mut c.rng, 3); c.hash_more(show(&a).as_bytes());
            let (ha, hb): (HashSet<u16>, HashSet<u16>) = (a.into_iter().collect(), b.into_iter().collect()); rt_complex_unordered(c, &ha, &hb) });
        // SerializableType (primitives, strings, vectors, nested collections)
        sx!(ctx, "ser/primitive", "ints", idx, Vec<u8>); sx!(ctx, "ser/primitive", "u16", idx, u16); sx!(ctx, "ser/primitive", "u32", idx, u32); sx!(ctx, "ser/primitive", "u64", idx, u64); sx!(ctx, "ser/primitive", "i8", idx, i8); sx!(ctx, "ser/primitive", "i16", idx, i16);
        sx!(ctx, "ser/primitive", "i32", idx, i32); sx!(ctx, "ser/primitive", "i64", idx, i64); sx!(ctx, "ser/primitive", "bool", idx, bool); sx!(ctx, "ser/string", "string", idx, String); sx!(ctx, "ser/vec", "vec_string", idx, Vec<String>); sx!(ctx, "ser/vec", "vec_vec_i64", idx, Vec<Vec<i64>>);
        sx!(ctx, "ser/nested", "vec_opt_string", idx, Vec<Option<String>>); sx!(ctx, "ser/nested", "map_vec", idx, BTreeMap<String, Vec<Option<u32>>>); sx!(ctx, "ser/nested", "opt_vec_set", idx, Option<Vec<BTreeSet<i16>>>); sx!(ctx, "ser/nested", "vec_box_rc_arc", idx, Vec<Trio>);
        // ComplexTypeSerializer (every preset), single values and batches
        ctx.case("complex/serializer", "presets", idx, |c| { type T = (u32, String, Option<Vec<i16>>); let n = c.rng.usize_below(5); let vals: Vec<T> = (0..n + 1).map(|_| Arb::arb(&mut c.rng, 3)).collect(); c.input_str("values", &show(&vals)); c.set_nontrivial(true);
            for (nm, cfg) in [("new", ComplexTypeConfig::new()), ("safe", ComplexTypeConfig::safe()), ("fast", ComplexTypeConfig::fast()), ("compact", ComplexTypeConfig::compact()), ("compatible", ComplexTypeConfig::compatible())] {
                let s = ComplexTypeSerializer::new(cfg); let e = zok!("serialize_to_bytes", s.serialize_to_bytes(&vals[0])); let d: T = match s.deserialize_from_bytes(&e) { Ok(d) => d, Err(er) => return Err(bad("decode_err", format!("preset {nm}: {er}"))) }; ensure!(d == vals[0], "roundtrip_mismatch", "preset {nm}: {}", show(&d));
                for take in [0, vals.len()] { let e = zok!("serialize_batch", s.serialize_batch(&vals[..take])); let d: Vec<T> = match s.deserialize_batch(&e) { Ok(d) => d, Err(er) => return Err(bad("decode_err", format!("preset {nm} batch of {take}: {er}"))) }; ensure!(d[..] == vals[..take], "roundtrip_mismatch", "preset {nm} batch of {take}"); c.ev(1); }
                c.ev(1); }
            Ok(()) });
    }
}
/// a local SerializableType that nests Box / Rc / Arc bridges
#[derive(Debug, PartialEq, Clone)]
struct Trio(Box<String>, Rc<u32>, Arc<Vec<u8>>);
impl Arb for Trio { fn arb(r: &mut Rng, d: u32) -> Self { Trio(Arb::arb(r, d), Arb::arb(r, d), Arb::arb(r, 2)) } }
impl SerializableType for Trio {
    fn serialize<O: DataOutput>(&self, o: &mut O) -> ZR<()> { <Box<String> as SerializableType>::serialize(&self.0, o)?; <Rc<u32> as SerializableType>::serialize(&self.1, o)?; <Arc<Vec<u8>> as SerializableType>::serialize(&self.2, o) }
    fn deserialize<I: DataInput>(i: &mut I) -> ZR<Self> { Ok(Trio(<Box<String> as SerializableType>::deserialize(i)?, <Rc<u32> as SerializableType>::deserialize(i)?, <Arc<Vec<u8>> as SerializableType>::deserialize(i)?)) }
}
fn rt_complex_unordered<T: ComplexSerialize + PartialEq + Debug>(c: &mut Case, a: &T, b: &T) -> Res {
    // same as rt_complex but without recording the (RandomState-ordered) Debug text as input
    c.set_nontrivial(true);
    for mode in 0..2 {
        let mut o = VecDataOutput::new(); let mut lens = Vec::new();
        for v in [a, b, a] { if mode == 0 { zok!("serialize_data", v.serialize_data(&mut o)) } else { zok!("serialize_with_metadata", v.serialize_with_metadata(&mut o)) }; lens.push(o.len()); }
        zok!("write_bytes", o.write_bytes(&SENT)); let buf = o.into_vec(); let mut i = SliceDataInput::new(&buf);
        for (k, v) in [a, b, a].into_iter().enumerate() {
            let d = match catch(|| if mode == 0 { T::deserialize_with_version(&mut i, T::version()) } else { T::deserialize_with_metadata(&mut i) }) { Ok(Ok(d)) => d, Ok(Err(e)) => return Err(bad("decode_err", format!("mode {mode} value {k}: {e}"))), Err(p) => return Err(bad(&p.class(), format!("panic at {}: {}", p.loc, p.msg))) };
            ensure!(d == *v, "roundtrip_mismatch", "mode {mode} value {k}"); ensure!(i.pos() == lens[k], "consumed_len", "mode {mode} after value {k} reader at {} want {}", i.pos(), lens[k]); c.ev(2);
        }
    }
    Ok(())
}

// ---------------------------------------------------------------------------------------------
// smart pointers
// ---------------------------------------------------------------------------------------------
/// round trip through SmartPtrSerialize::{serialize,deserialize} (fresh contexts): x ++ y ++ sentinel
fn rt_sp<T, P: SmartPtrSerialize<T>>(c: &mut Case, x: &P, y: &P, eq: &dyn Fn(&P, &P) -> bool, what: &str) -> Res {
    let mut o = VecDataOutput::new(); let mut lens = Vec::new();
    for v in [x, y, x] { zok!("sp_serialize", <P as SmartPtrSerialize<T>>::serialize(v, &mut o)); lens.push(o.len()); }
    let exact = o.as_slice()[..lens[0]].to_vec();
    { let mut i = SliceDataInput::new(&exact); let d = match catch(|| <P as SmartPtrSerialize<T>>::deserialize(&mut i)) { Ok(Ok(d)) => d, Ok(Err(e)) => return Err(bad("decode_err", format!("{what}: deserialize of own {}-byte encoding {} failed: {e}", exact.len(), gen::hex(&exact)))), Err(p) => return Err(bad(&p.class(), format!("{what}: panic at {}: {}", p.loc, p.msg))) };
      ensure!(eq(&d, x), "roundtrip_mismatch", "{what}: value differs"); ensure!(i.pos() == exact.len(), "consumed_len", "{what}: consumed {} of {}", i.pos(), exact.len()); c.ev(2); }
    zok!("write_bytes", o.write_bytes(&SENT)); let buf = o.into_vec(); let mut i = SliceDataInput::new(&buf);
    for (k, v) in [x, y, x].into_iter().enumerate() {
        let d = match catch(|| <P as SmartPtrSerialize<T>>::deserialize(&mut i)) { Ok(Ok(d)) => d, Ok(Err(e)) => return Err(bad("concat_decode_err", format!("{what}: value {k}: {e}"))), Err(p) => return Err(bad(&p.class(), format!("{what}: panic at {}: {}", p.loc, p.msg))) };
        ensure!(i.pos() == lens[k], "consumed_len", "{what}: after value {k} reader at {} want {} (stream {})", i.pos(), lens[k], gen::abbrev(&buf)); ensure!(eq(&d, v), "concat_mismatch", "{what}: value {k} differs"); c.ev(2);
    }
    Ok(())
}

fn run_smart_ptr(ctx: &mut Ctx) {
    for idx in 0..ctx.n(60, 2500) as u64 {
        ctx.case("sptr/box", "u32_string", idx, |c| { let (a, b): (Box<u32>, Box<u32>) = (Arb::arb(&mut c.rng, 2), Arb::arb(&mut c.rng, 2)); let (s, t): (Box<String>, Box<String>) = (Arb::arb(&mut c.rng, 2), Arb::arb(&mut c.rng, 2)); c.input_str("values", &show(&(&a, &b, &s, &t))); c.set_nontrivial(true);
            rt_sp::<u32, Box<u32>>(c, &a, &b, &|p, q| p == q, "Box<u32>")?; rt_sp::<String, Box<String>>(c, &s, &t, &|p, q| p == q, "Box<String>")?; rt_ser(c, &s, &t) });
        ctx.case("sptr/option_box", "i64_vec", idx, |c| { let (a, b): (Option<Box<i64>>, Option<Box<i64>>) = (Arb::arb(&mut c.rng, 2), Arb::arb(&mut c.rng, 2)); let (s, t): (Option<Box<Vec<String>>>, Option<Box<Vec<String>>>) = (Arb::arb(&mut c.rng, 3), Arb::arb(&mut c.rng, 3)); c.input_str("values", &show(&(&a, &b, &s, &t))); c.set_nontrivial(true);
            rt_sp::<i64, Option<Box<i64>>>(c, &a, &b, &|p, q| p == q, "Option<Box<i64>>")?; rt_sp::<Vec<String>, Option<Box<Vec<String>>>>(c, &s, &t, &|p, q| p == q, "Option<Box<Vec<String>>>") });
        ctx.case("sptr/rc", "u64_string", idx, |c| { let (a, b): (Rc<u64>, Rc<u64>) = (Arb::arb(&mut c.rng, 2), Arb::arb(&mut c.rng, 2)); let (s, t): (Rc<String>, Rc<String>) = (Arb::arb(&mut c.rng, 2), Arb::arb(&mut c.rng, 2)); c.input_str("values", &show(&(&a, &b, &s, &t))); c.set_nontrivial(true);
            rt_sp::<u64, Rc<u64>>(c, &a, &b, &|p, q| p == q, "Rc<u64>")?; rt_sp::<String, Rc<String>>(c, &s, &t, &|p, q| p == q, "Rc<String>")?; rt_ser(c, &s, &t) });
        ctx.case("sptr/arc", "i16_vec", idx, |c| { let (a, b): (Arc<i16>, Arc<i16>) = (Arb::arb(&mut c.rng, 2), Arb::arb(&mut c.rng, 2)); let (s, t): (Arc<Vec<Option<String>>>, Arc<Vec<Option<String>>>) = (Arb::arb(&mut c.rng, 3), Arb::arb(&mut c.rng, 3)); c.input_str("values", &show(&(&a, &b, &s, &t))); c.set_nontrivial(true);
            rt_sp::<i16, Arc<i16>>(c, &a, &b, &|p, q| p == q, "Arc<i16>")?; rt_sp::<Vec<Option<String>>, Arc<Vec<Option<String>>>>(c, &s, &t, &|p, q| p == q, "Arc<Vec<..>>")?; rt_ser(c, &s, &t) });
        // shared contexts: a list of Rc / Arc handles with aliasing, one SerializationContext, one DeserializationContext
        ctx.case("sptr/shared_ctx", "rc_arc", idx, |c| { let n = 1 + c.rng.usize_below(5); let objs: Vec<Rc<String>> = (0..n).map(|_| Arb::arb(&mut c.rng, 2)).collect(); let m = 1 + c.rng.usize_below(10); let picks: Vec<usize> = (0..m).map(|_| c.rng.usize_below(n)).collect(); let detect = c.rng.bool();
            c.input_str("objects", &show(&objs)); c.input_str("handles", &format!("{picks:?} detect={detect}")); c.set_nontrivial(true);
            // both contexts are reusable objects: after clear() a context must behave like a new one (the same live objects are
            // serialised again into a new, self-contained stream; a stale pointer table would emit dangling back-references)
            let rounds = 1 + c.rng.usize_below(3); c.input_str("rounds", &rounds.to_string());
            let mut sc = if detect { SerializationContext::new() } else { SerializationContext::without_cycle_detection() }; let mut dc: DeserializationContext<Rc<String>> = DeserializationContext::new();
            for round in 0..rounds {
            let picks: Vec<usize> = if round == 0 { picks.clone() } else { let m2 = 1 + c.rng.usize_below(10); (0..m2).map(|_| c.rng.usize_below(n)).collect() }; let m = picks.len();
            if round > 0 { sc.clear(); if c.rng.bool() { dc.clear(); } else { dc = DeserializationContext::new(); } c.note("context_reused_after_clear", 1); }
            let mut o = VecDataOutput::new(); let mut lens = vec![];
            for &p in &picks { zok!("serialize_with_context", objs[p].serialize_with_context(&mut o, &mut sc)); lens.push(o.len()); }
            zok!("write_bytes", o.write_bytes(&SENT)); let buf = o.into_vec(); let mut i = SliceDataInput::new(&buf); let mut out: Vec<Rc<String>> = vec![];
            for (k, &p) in picks.iter().enumerate() { let d = match <Rc<String> as SmartPtrSerialize<String>>::deserialize_with_context(&mut i, &mut dc) { Ok(d) => d, Err(e) => return Err(bad("decode_err", format!("round {round} handle {k} (object {p}): {e}"))) };
                ensure!(*d == *objs[p], "roundtrip_mismatch", "round {round} handle {k} (object {p}) decoded {:?} want {:?}", show(&*d), show(&*objs[p])); ensure!(i.pos() == lens[k], "consumed_len", "round {round}: after handle {k} reader at {} want {}", i.pos(), lens[k]); out.push(d); c.ev(2); }
            if detect { let mut kept = 0; for x in 0..m { for y in 0..x { if (picks[x] == picks[y]) == Rc::ptr_eq(&out[x], &out[y]) { kept += 1; } } } c.note("alias_pairs_preserved", kept as u64); }
            }
            // Arc variant through SmartPtrSerializer presets
            let av: Arc<Vec<u32>> = Arb::arb(&mut c.rng, 3);
            for cfg in [SmartPtrConfig::new(), SmartPtrConfig::performance_optimized(), SmartPtrConfig::space_optimized(), SmartPtrConfig::robust()] { let s = SmartPtrSerializer::new(cfg); let e = zok!("serialize_to_bytes", s.serialize_to_bytes::<Vec<u32>, Arc<Vec<u32>>>(&av)); let d: Arc<Vec<u32>> = zok!("deserialize_from_bytes", s.deserialize_from_bytes::<Vec<u32>, Arc<Vec<u32>>>(&e)); ensure!(*d == *av, "roundtrip_mismatch", "SmartPtrSerializer Arc<Vec<u32>>"); c.ev(1); }
            Ok(()) });
        // weak handles: value equality is not observable (the decoded owner is dropped), consumption is
        ctx.case("sptr/weak_rc", "live_dangling", idx, |c| { let live: Rc<u32> = Arb::arb(&mut c.rng, 1); let dangling = c.rng.bool(); c.input_str("weak", &format!("{live:?} dangling={dangling}")); c.set_nontrivial(true); if dangling { c.tag("weak_dangling"); }
            let w = if dangling { Rc::downgrade(&Rc::new(7u32)) } else { Rc::downgrade(&live) }; let other = Rc::downgrade(&live);
            rt_sp::<u32, std::rc::Weak<u32>>(c, &w, &other, &|_, _| true, if dangling { "dangling Weak<Rc<u32>>" } else { "live Weak<Rc<u32>>" }) });
        ctx.case("sptr/weak_arc", "live_dangling", idx, |c| { let live: Arc<String> = Arb::arb(&mut c.rng, 1); let dangling = c.rng.bool(); c.input_str("weak", &format!("{live:?} dangling={dangling}")); c.set_nontrivial(true); if dangling { c.tag("weak_dangling"); }
            let w = if dangling { Arc::downgrade(&Arc::new(String::from("gone"))) } else { Arc::downgrade(&live) }; let other = Arc::downgrade(&live);
            rt_sp::<String, std::sync::Weak<String>>(c, &w, &other, &|_, _| true, if dangling { "dangling Weak<Arc<String>>" } else { "live Weak<Arc<String>>" }) });
    }
}

// ---------------------------------------------------------------------------------------------
// versioning
// ---------------------------------------------------------------------------------------------
const F_B: Version = Version::new(1, 1, 0);
const F_C: Version = Version::new(1, 3, 0);
/// record whose type-level version is a const parameter: field `b` exists since 1.1.0, `c` since 1.3.0
#[derive(Debug, PartialEq, Clone)]
struct VRec<const MAJ: u16, const MIN: u16> { a: u32, b: String, c: u64, tail: u16 }
impl<const MAJ: u16, const MIN: u16> VersionedSerialize for VRec<MAJ, MIN> {
    fn current_version() -> Version { Version::new(MAJ, MIN, 0) }
    fn serialize_with_manager<O: DataOutput>(&self, m: &mut VersionManager, o: &mut O) -> ZR<()> {
        m.register_field("b", F_B); m.register_field("c", F_C);
        o.write_u32(self.a)?; m.serialize_field("b", &self.b, o)?; m.serialize_field("c", &self.c, o)?; o.write_u16(self.tail)
    }
    fn deserialize_with_manager<I: DataInput>(m: &mut VersionManager, i: &mut I) -> ZR<Self> {
        m.register_field("b", F_B); m.register_field("c", F_C);
        let a = i.read_u32()?; let b: Option<String> = m.deserialize_field("b", i)?; let c: Option<u64> = m.deserialize_field("c", i)?; let tail = i.read_u16()?;
        Ok(VRec { a, b: b.unwrap_or_default(), c: c.unwrap_or(0), tail })
    }
}
#[derive(Debug, PartialEq, Clone)]
struct VFix { a: u32, c: u64, tail: u16 }
impl VersionedSerialize for VFix {
    fn current_version() -> Version { Version::new(1, 3, 0) }
    fn serialize_with_manager<O: DataOutput>(&self, m: &mut VersionManager, o: &mut O) -> ZR<()> { m.register_field("c", F_C); o.write_u32(self.a)?; m.serialize_field("c", &self.c, o)?; o.write_u16(self.tail) }
    fn deserialize_with_manager<I: DataInput>(m: &mut VersionManager, i: &mut I) -> ZR<Self> { m.register_field("c", F_C); let a = i.read_u32()?; let c: Option<u64> = m.deserialize_field("c", i)?; let tail = i.read_u16()?; Ok(VFix { a, c: c.unwrap_or(0), tail }) }
}
fn vrec_vals(r: &mut Rng) -> (u32, String, u64, u16) { (Arb::arb(r, 1), arb_string(r), bnd_u64(r), Arb::arb(r, 1)) }
const VERS: &[(u16, u16)] = &[(1, 0), (1, 1), (1, 3), (2, 0), (3, 300)];
fn ver_cfgs() -> Vec<(&'static str, VersionConfig)> { vec![("new", VersionConfig::new()), ("strict", VersionConfig::strict()), ("flexible", VersionConfig::flexible()), ("development", VersionConfig::development()),
    ("lenient_nomigrate", VersionConfig { strict_version_checking: false, allow_forward_compatibility: true, max_version_skew: u16::MAX, enable_migrations: false })] }

/// writer type W, reader type R (same wire layout, different type-level versions)
fn ver_skew<const WA: u16, const WI: u16, const RA: u16, const RI: u16>(c: &mut Case, vals: &(u32, String, u64, u16), cfg_name: &str, cfg: VersionConfig) -> Res {
    let w = VRec::<WA, WI> { a: vals.0, b: vals.1.clone(), c: vals.2, tail: vals.3 };
    let wv = Version::new(WA, WI, 0); let same = (WA, WI) == (RA, RI);
    let ser = VersionedSerializer::new(cfg.clone());
    let bytes = match catch(|| ser.serialize_to_bytes(&w)) { Ok(Ok(b)) => b, Ok(Err(_)) => { c.note("encode_refused", 1); c.set_nontrivial(false); return Ok(()); } Err(p) => return Err(bad(&p.class(), format!("serialize_to_bytes panicked at {}: {}", p.loc, p.msg))) };
    let r = catch(|| VersionedSerializer::new(cfg.clone()).deserialize_from_bytes::<VRec<RA, RI>>(&bytes));
    let got = match r { Err(p) => return Err(bad(&p.class(), format!("deserialize_from_bytes (writer {WA}.{WI}, reader {RA}.{RI}, cfg {cfg_name}) panicked at {}: {}", p.loc, p.msg))),
        Ok(Err(e)) => { if same { return Err(bad("decode_err", format!("reader of the same version {RA}.{RI} (cfg {cfg_name}) refused its own encoding: {e}"))); } c.note("cross_version_refused", 1); return Ok(()); }
        Ok(Ok(g)) => g };
    let want = VRec::<RA, RI> { a: vals.0, b: if wv >= F_B { vals.1.clone() } else { String::new() }, c: if wv >= F_C { vals.2 } else { 0 }, tail: vals.3 };
    ensure!(got == want, "roundtrip_mismatch", "writer {WA}.{WI} reader {RA}.{RI} cfg {cfg_name}: got {} want {}", show(&got), show(&want)); c.ev(1); c.note("cross_version_decoded", !same as u64);
    Ok(())
}
fn skew(c: &mut Case, vals: &(u32, String, u64, u16), nm: &str, cfg: VersionConfig, wi: usize, ri: usize) -> Res {
    macro_rules! row { ($wa:literal, $wm:literal) => { match ri { 0 => ver_skew::<$wa, $wm, 1, 0>(c, vals, nm, cfg), 1 => ver_skew::<$wa, $wm, 1, 1>(c, vals, nm, cfg), 2 => ver_skew::<$wa, $wm, 1, 3>(c, vals, nm, cfg), 3 => ver_skew::<$wa, $wm, 2, 0>(c, vals, nm, cfg), _ => ver_skew::<$wa, $wm, 3, 300>(c, vals, nm, cfg) } } }
    match wi { 0 => row!(1, 0), 1 => row!(1, 1), 2 => row!(1, 3), 3 => row!(2, 0), _ => row!(3, 300) }
}

fn run_versioning(ctx: &mut Ctx) {
    for idx in 0..ctx.n(150, 5000) as u64 {
        ctx.case("ver/version", "pack", idx, |c| { let v: Version = Arb::arb(&mut c.rng, 0); let w: Version = Arb::arb(&mut c.rng, 0); c.input_str("versions", &format!("{v:?} {w:?}")); c.set_nontrivial(true);
            if [v, w].iter().any(|x| x.major() > 255 || x.minor() > 255) { c.tag("version_major_or_minor_gt_255"); }
            // the packed u32 form is documented as 0xMMmmpppp (8-bit major/minor): checked directly only inside that range; the serialised form is checked for every Version
            if v.major() <= 255 && v.minor() <= 255 { let back = Version::from_u32(v.to_u32()); ensure!(back == v, "roundtrip_mismatch", "Version::from_u32(to_u32({v})) = {back}"); c.ev(1); }
            rt_ser(c, &v, &w) });
        ctx.case("ver/fields", "manager", idx, |c| {
            // a writer at version W emits k conditional fields; a reader whose reading version is R decodes / skips them
            let vs = [Version::new(1, 0, 0), Version::new(1, 1, 0), Version::new(1, 2, 5), Version::new(1, 3, 0), Version::new(2, 0, 0), Version::new(0, 9, 9)];
            let wv = *c.rng.pick(&vs); let rv = if c.rng.chance(2, 3) { wv } else { *c.rng.pick(&vs) }; let n = 1 + c.rng.usize_below(8);
            let fields: Vec<(String, Option<Version>, u32)> = (0..n).map(|i| (format!("f{i}"), if c.rng.chance(1, 5) { None } else { Some(*c.rng.pick(&vs)) }, c.rng.below(3) as u32)).collect();
            let strs: Vec<String> = (0..n).map(|_| arb_string(&mut c.rng)).collect(); let nums: Vec<u64> = (0..n).map(|_| bnd_u64(&mut c.rng)).collect(); let vecs: Vec<Vec<Option<u16>>> = (0..n).map(|_| Arb::arb(&mut c.rng, 2)).collect();
            c.input_str("setup", &format!("writer {wv} reader {rv} fields {:?}", fields)); c.input_str("values", &show(&(&strs, &nums, &vecs))); c.set_nontrivial(true);
            let mut wm = VersionManager::new(wv); let mut rm = VersionManager::new(Version::new(9, 9, 9)); rm.set_reading_version(rv); ensure!(rm.reading_version() == rv && wm.current_version() == wv, "manager_version", "accessors");
            for (nm, mv, _) in &fields { if let Some(mv) = mv { wm.register_field(nm.clone(), *mv); rm.register_field(nm.clone(), *mv); } }
            let mut o = VecDataOutput::new(); let mut lens = vec![];
            for (i, (nm, _, ty)) in fields.iter().enumerate() { match ty { 0 => zok!("serialize_field", wm.serialize_field(nm, &strs[i], &mut o)), 1 => zok!("serialize_field", wm.serialize_field(nm, &nums[i], &mut o)), _ => zok!("serialize_field", wm.serialize_field(nm, &vecs[i], &mut o)) }; lens.push(o.len()); }
            zok!("write_bytes", o.write_bytes(&SENT)); let buf = o.into_vec(); let mut inp = SliceDataInput::new(&buf);
            for (i, (nm, mv, ty)) in fields.iter().enumerate() {
                let written = mv.map_or(true, |m| wv >= m); let visible = mv.map_or(true, |m| rv >= m); let expect_some = written && visible;
                macro_rules! chk { ($t:ty, $want:expr) => {{ let d: Option<$t> = match catch(|| rm.deserialize_field::<$t, _>(nm, &mut inp)) { Ok(Ok(d)) => d, Ok(Err(e)) => return Err(bad("decode_err", format!("field {nm}: {e}"))), Err(p) => return Err(bad(&p.class(), format!("deserialize_field panicked at {}: {}", p.loc, p.msg))) };
                    ensure!(d == if expect_some { Some($want.clone()) } else { None }, "field_value", "field {nm} (min {mv:?}, writer {wv}, reader {rv}): got {} want_some={expect_some}", show(&d)); }} }
                match ty { 0 => chk!(String, strs[i]), 1 => chk!(u64, nums[i]), _ => chk!(Vec<Option<u16>>, vecs[i]) }
                ensure!(inp.pos() == lens[i], "consumed_len", "after field {nm} (written={written}, visible={visible}) reader at {} want {}", inp.pos(), lens[i]); c.ev(2);
                if written && !visible { c.note("field_skipped", 1); } if !written { c.note("field_absent", 1); }
            }
            Ok(()) });
        ctx.case("ver/proxy", "manager", idx, |c| { let vs = [Version::new(1, 0, 0), Version::new(1, 1, 0), Version::new(1, 3, 0), Version::new(2, 0, 0)]; let cur = *c.rng.pick(&vs); let minv = *c.rng.pick(&vs); let maxv = if c.rng.bool() { Some(*c.rng.pick(&vs)) } else { None };
            let val = arb_string(&mut c.rng); let val2: Vec<u32> = Arb::arb(&mut c.rng, 2); c.input_str("setup", &format!("cur {cur} min {minv} max {maxv:?} val {val:?} {val2:?}")); c.set_nontrivial(true);
            let p = match maxv { Some(m) => VersionProxy::with_range(val.clone(), minv, m), None => VersionProxy::new(val.clone(), minv) }; let p2 = VersionProxy::new(val2.clone(), minv);
            let present = cur >= minv && maxv.map_or(true, |m| cur <= m); ensure!(p.should_serialize(&cur) == present, "should_serialize", "should_serialize");
            let m = VersionManager::new(cur); let mut o = VecDataOutput::new(); zok!("serialize_proxy", m.serialize_proxy(&p, &mut o)); let l1 = o.len(); zok!("serialize_proxy", m.serialize_proxy(&p2, &mut o)); let l2 = o.len(); zok!("write_bytes", o.write_bytes(&SENT)); let buf = o.into_vec(); let mut i = SliceDataInput::new(&buf);
            let d: Option<VersionProxy<String>> = zok!("deserialize_proxy", m.deserialize_proxy(minv, &mut i)); ensure!(d.as_ref().map(|x| x.data().clone()) == if present { Some(val.clone()) } else { None }, "roundtrip_mismatch", "proxy 1 present={present}"); ensure!(i.pos() == l1, "consumed_len", "proxy 1: reader at {} want {l1}", i.pos());
            let d2: Option<VersionProxy<Vec<u32>>> = zok!("deserialize_proxy", m.deserialize_proxy(minv, &mut i)); ensure!(d2.map(|x| x.into_data()) == if cur >= minv { Some(val2.clone()) } else { None }, "roundtrip_mismatch", "proxy 2"); ensure!(i.pos() == l2, "consumed_len", "proxy 2: reader at {} want {l2}", i.pos()); c.ev(4);
            // VersionProxy as SerializableType
            let mut o = VecDataOutput::new(); zok!("serialize", <VersionProxy<String> as SerializableType>::serialize(&p, &mut o)); let e = o.into_vec(); let mut i = SliceDataInput::new(&e); let d = zok!("deserialize", <VersionProxy<String> as SerializableType>::deserialize(&mut i)); ensure!(d.data() == &val && i.pos() == e.len(), "roundtrip_mismatch", "VersionProxy as SerializableType"); c.ev(1);
            Ok(()) });
        ctx.case("ver/trait_pair", "fixed_width", idx, |c| { c.tag("versioned_trait_pair_asymmetric"); let mut vals = vrec_vals(&mut c.rng); vals.1 = String::new(); c.input_str("rec", &show(&vals)); c.set_nontrivial(true);
            // VFix has only fixed-width fields: the mis-framed stream that deserialize_versioned sees cannot turn into a giant length prefix (see REPORT: with a String field the same defect aborts the process)
            let w = VFix { a: vals.0, c: vals.2, tail: vals.3 }; let mut o = VecDataOutput::new(); zok!("serialize_versioned", w.serialize_versioned(&mut o)); let e = o.into_vec(); let mut i = SliceDataInput::new(&e);
            let d = match catch(|| VFix::deserialize_versioned(&mut i)) { Ok(Ok(d)) => d, Ok(Err(er)) => return Err(bad("decode_err", format!("deserialize_versioned(serialize_versioned(rec)) failed: {er} (stream {})", gen::abbrev(&e)))), Err(p) => return Err(bad(&p.class(), format!("deserialize_versioned panicked at {}: {}", p.loc, p.msg))) };
            ensure!(d == w, "roundtrip_mismatch", "deserialize_versioned(serialize_versioned({})) = {}", show(&w), show(&d)); ensure!(i.pos() == e.len(), "consumed_len", "consumed {} of {}", i.pos(), e.len()); c.ev(2); Ok(()) });
        // record with a String field (the mis-framing of the unfixed tree turned its bytes into a giant length prefix -> allocation abort; holds since fix d460aa8)
        ctx.case("ver/trait_pair", "versioned", idx, |c| { c.tag("versioned_trait_pair_asymmetric"); let vals = vrec_vals(&mut c.rng); c.input_str("rec", &show(&vals)); c.set_nontrivial(true);
            let w = VRec::<1, 3> { a: vals.0, b: vals.1.clone(), c: vals.2, tail: vals.3 }; let mut o = VecDataOutput::new(); zok!("serialize_versioned", w.serialize_versioned(&mut o)); zok!("write_bytes", o.write_bytes(&SENT)); let e = o.into_vec(); let mut i = SliceDataInput::new(&e);
            let d = match catch(|| VRec::<1, 3>::deserialize_versioned(&mut i)) { Ok(Ok(d)) => d, Ok(Err(er)) => return Err(bad("decode_err", format!("deserialize_versioned(serialize_versioned(rec)) failed: {er} (stream {})", gen::abbrev(&e)))), Err(p) => return Err(bad(&p.class(), format!("deserialize_versioned panicked at {}: {}", p.loc, p.msg))) };
            ensure!(d == w, "roundtrip_mismatch", "deserialize_versioned(serialize_versioned({})) = {}", show(&w), show(&d)); ensure!(i.pos() + SENT.len() == e.len(), "consumed_len", "consumed {} of {}", i.pos(), e.len() - SENT.len()); c.ev(2); Ok(()) });
        if idx == 0 {
            ctx.case("ver/trait_pair", "string_abort_witness", idx, |c| { c.tag("versioned_trait_pair_asymmetric"); c.set_nontrivial(true);
                // a = 0x01010000 is read back as version 1.1.0; the reader then takes [marker, len, 'a', 'b'] as `a`, 0x01 as the marker of `b` and the UTF-8 bytes c3 bf.. as a length prefix
                let w = VRec::<1, 3> { a: 0x0101_0000, b: "ab\u{1}\u{ff}\u{ff}\u{ff}\u{ff}\u{7f}".to_string(), c: 0, tail: 0 }; c.input_str("rec", &show(&w)); let mut o = VecDataOutput::new(); zok!("serialize_versioned", w.serialize_versioned(&mut o)); let e = o.into_vec(); let mut i = SliceDataInput::new(&e);
                let d = zok!("deserialize_versioned", VRec::<1, 3>::deserialize_versioned(&mut i)); ensure!(d == w, "roundtrip_mismatch", "got {}", show(&d)); Ok(()) });
        }
        ctx.case("ver/serializer", "same_version", idx, |c| { let vals = vrec_vals(&mut c.rng); let vi = c.rng.usize_below(VERS.len()); let cfgs = ver_cfgs(); let (nm, cfg) = cfgs[c.rng.usize_below(cfgs.len())].clone(); c.input_str("rec", &show(&vals)); c.input_str("setup", &format!("version {:?} cfg {nm}", VERS[vi])); c.set_nontrivial(true);
            if VERS[vi].1 > 255 { c.tag("version_major_or_minor_gt_255"); }
            skew(c, &vals, nm, cfg, vi, vi) });
        ctx.case("ver/serializer_skew", "cross_version", idx, |c| { let vals = vrec_vals(&mut c.rng); let wi = c.rng.usize_below(VERS.len()); let mut ri = c.rng.usize_below(VERS.len()); if ri == wi { ri = (ri + 1) % VERS.len(); } let cfgs = ver_cfgs(); let (nm, cfg) = cfgs[c.rng.usize_below(cfgs.len())].clone();
            c.input_str("rec", &show(&vals)); c.input_str("setup", &format!("writer {:?} reader {:?} cfg {nm}", VERS[wi], VERS[ri])); c.set_nontrivial(true);
            // input-only: the skew computation subtracts minors in the order given by the full-version comparison
            let (w, r) = (VERS[wi], VERS[ri]); let (wp, rp) = ((w.0 & 0xff) + (w.1 >> 8), (r.0 & 0xff) + (r.1 >> 8)); let _ = (wp, rp);
            let stored = Version::from_u32(Version::new(w.0, w.1, 0).to_u32()); let cur = Version::new(r.0, r.1, 0);
            let underflow = if stored > cur { stored.minor() < cur.minor() } else { cur.minor() < stored.minor() };
            if underflow && !cfg.strict_version_checking { c.tag("skew_minor_underflow"); }
            skew(c, &vals, nm, cfg, wi, ri) });
    }
}

// ---------------------------------------------------------------------------------------------
// stream wrappers
// ---------------------------------------------------------------------------------------------
fn req_size(r: &mut Rng, b: usize) -> usize {
    match r.below(11) { 0 => 1, 1 => 2, 2 => 3, 3 => b.saturating_sub(1).max(1), 4 => b.max(1), 5 => b + 1, 6 => 2 * b + 1, 7 => 1 + r.usize_below(2 * b + 8), 8 => if r.chance(1, 4) { 9000 + r.usize_below(3000) } else { 1 + r.usize_below(64) }, 9 => (b / 2 + r.usize_below(3)).max(1), _ => 1 + r.usize_below(b + 2) }
}
fn stream_data(c: &mut Case, max: usize) -> Vec<u8> { let (k, d) = gen::bytes_any(&mut c.rng, max); let d = if k % 3 == 0 { d } else { c.rng.bytes(d.len()) }; c.input("data", &d); c.set_nontrivial(d.len() >= 2); d }
fn io_fail(oracle: &str, what: &str, e: impl std::fmt::Display) -> Fail { bad(oracle, format!("{what}: {e}")) }

fn run_range(ctx: &mut Ctx) {
    for idx in 0..ctx.n(300, 10000) as u64 {
        for inner_kind in ["cursor", "chunked"] {
            ctx.case("range/reader", inner_kind, idx, |c| {
                let data = stream_data(c, 3000); let l = data.len(); let start = c.rng.usize_below(l + 3); let mut len = if c.rng.chance(1, 6) { c.rng.usize_below(l + 12) } else { c.rng.usize_below(l.saturating_sub(start.min(l)) + 1) };
                let ctor = c.rng.below(4); let set_total = c.rng.chance(1, 8) && start <= l; c.input_str("range", &format!("start={start} len={len} ctor={ctor} set_total={set_total}"));
                let chunked = inner_kind == "chunked"; if chunked { c.tag("inner_short_reads"); }
                let mut q = 0usize; let mut nops = 0u64;
                macro_rules! drive { ($rd:expr, $seekable:expr) => {{
                    if set_total { $rd.set_total_size(l as u64); len = len.min(l - start); }
                    let model: &[u8] = &data[start.min(l)..(start + len).min(l)];
                    ensure!($rd.range_length() == len as u64 && $rd.start_position() == start as u64, "range_meta", "range_length {} want {len}", $rd.range_length());
                    let b = 1 + c.rng.usize_below(64);
                    for _ in 0..(4 + c.rng.usize_below(40)) {
                        let s = req_size(&mut c.rng, b); let mut buf = vec![0u8; s];
                        let n = match catch(|| $rd.read(&mut buf)) { Ok(Ok(n)) => n, Ok(Err(e)) => return Err(io_fail("read_err", "RangeReader::read", e)), Err(p) => return Err(bad(&p.class(), format!("read panicked at {}: {}", p.loc, p.msg))) };
                        ensure!(n <= s && n <= len - q.min(len), "read_overrun", "read({s}) at range offset {q} returned {n} with {} left in range", len - q.min(len));
                        if n == 0 { ensure!(q >= model.len(), "premature_eof", "read({s}) returned 0 at range offset {q} of {}", model.len()); }
                        else { ensure!(q + n <= model.len() && buf[..n] == model[q..q + n], "stream_bytes", "read({s}) at range offset {q}: bytes differ from inner[start+{q}..]"); }
                        q += n; nops += 1; c.ev(1);
                        ensure!($rd.current_position() == (start + q) as u64 && $rd.remaining() == (len - q) as u64 && $rd.is_at_end() == (q >= len), "range_position", "after read: current_position {} want {}", $rd.current_position(), start + q);
                        $seekable;
                    }
                }} }
                if chunked {
                    let f = c.rng.fork(); let mx = 1 + c.rng.usize_below(9); let inner = Chunked::new(&data[start.min(l)..], mx, f);
                    let mut rd = if ctor % 2 == 0 { RangeReader::new(inner, start as u64, len as u64) } else { RangeReader::with_range(inner, start as u64, (start + len) as u64) };
                    drive!(rd, {});
                } else {
                    let mut cur = Cursor::new(data.clone());
                    let mut rd = match ctor { 0 => zok!("new_and_seek", RangeReader::new_and_seek(cur, start as u64, len as u64)), 1 => zok!("range::reader", zipora::io::range::reader(cur, start as u64, len as u64)),
                        2 => { cur.set_position(start as u64); RangeReader::with_range(cur, start as u64, (start + len) as u64) } _ => { cur.set_position(start as u64); RangeReader::new(cur, start as u64, len as u64) } };
                    drive!(rd, { if c.rng.chance(1, 3) {
                        let (sf, want) = match c.rng.below(5) { 0 => { let x = c.rng.usize_below(len + 4); (SeekFrom::Start(x as u64), x.min(len)) }
                            1 => { let k = c.rng.usize_below(len + 4); (SeekFrom::End(-(k as i64)), len.saturating_sub(k)) }
                            2 => { let d = c.rng.usize_below(len + 4) as i64 - (len as i64 / 2); (SeekFrom::Current(d), (q as i64 + d).clamp(0, len as i64) as usize) }
                            3 => { let k = c.rng.usize_below(9); (SeekFrom::End(k as i64), len) }
                            _ => (SeekFrom::Current(0), q.min(len)) };
                        if c.rng.chance(1, 6) { let x = c.rng.usize_below(len + 2); let r = np!("seek_in_range", rd.seek_in_range(x as u64)); if x < len { ensure!(matches!(r, Ok(v) if v == x as u64), "seek_result", "seek_in_range({x}) = {r:?}"); q = x; } else { ensure!(r.is_err(), "seek_result", "seek_in_range({x}) beyond len {len} accepted"); } }
                        else if c.rng.chance(1, 8) { zok!("reset", rd.reset()); q = 0; }
                        else { let got = match rd.seek(sf) { Ok(g) => g, Err(e) => return Err(io_fail("seek_err", &format!("seek({sf:?})"), e)) }; ensure!(got == want as u64, "seek_result", "seek({sf:?}) from {q} in range of {len} returned {got} want {want}"); q = want; }
                        ensure!(rd.current_position() == (start + q) as u64, "range_position", "after seek: current_position {} want {}", rd.current_position(), start + q); c.ev(1); } });
                }
                c.note("read_calls", nops); Ok(()) });
        }
        ctx.case("range/writer", "cursor", idx, |c| {
            let bg = stream_data(c, 1500); let l = bg.len(); let start = c.rng.usize_below(l + 1); let len = c.rng.usize_below(l + 10); c.input_str("range", &format!("start={start} len={len}"));
            let mut model = bg.clone(); let cur = Cursor::new(bg.clone());
            let mut w = zok!("RangeWriter::new_and_seek", if c.rng.bool() { RangeWriter::new_and_seek(cur, start as u64, len as u64) } else { zipora::io::range::writer(cur, start as u64, len as u64) });
            let mut q = 0usize; let mut total = 0usize;
            for _ in 0..(2 + c.rng.usize_below(25)) {
                if c.rng.chance(1, 6) { let x = c.rng.usize_below(len + 3); let got = match w.seek(SeekFrom::Start(x as u64)) { Ok(g) => g, Err(e) => return Err(io_fail("seek_err", "RangeWriter::seek", e)) }; ensure!(got == x.min(len) as u64, "seek_result", "seek(Start({x})) = {got}"); q = x.min(len); c.log(format!("seek {x} -> q={q}")); continue; }
                let s = req_size(&mut c.rng, 16); let chunk = c.rng.bytes(s);
                let n = match catch(|| w.write(&chunk)) { Ok(Ok(n)) => n, Ok(Err(e)) => return Err(io_fail("write_err", "RangeWriter::write", e)), Err(p) => return Err(bad(&p.class(), format!("write panicked at {}: {}", p.loc, p.msg))) };
                c.log(format!("write {s} at q={q} -> {n}")); ensure!(n == s.min(len - q), "write_count", "write({s}) at range offset {q} of {len} accepted {n}");
                if n > 0 && model.len() < start + q + n { model.resize(start + q + n, 0); } if n > 0 { model[start + q..start + q + n].copy_from_slice(&chunk[..n]); } q += n; total += n; c.ev(1);
                ensure!(w.bytes_written() == total as u64 && w.remaining() == (len - q) as u64 && w.current_position() == (start + q) as u64 && w.is_at_end() == (q >= len), "range_position", "writer accounting after write: bytes_written {} want {total}", w.bytes_written());
            }
            let _ = w.flush(); let got = w.into_inner().into_inner(); ensure!(got == model, "stream_bytes", "inner content after ranged writes differs from model (len {} vs {})", got.len(), model.len()); Ok(()) });
        ctx.case("range/multi", "cursor", idx, |c| {
            let data = stream_data(c, 2000); let l = data.len(); let k = c.rng.usize_below(7);
            let ranges: Vec<(u64, u64)> = (0..k).map(|_| { let a = c.rng.usize_below(l + 1); let b = if c.rng.chance(1, 5) { a } else { a + c.rng.usize_below(l - a + 1) }; (a as u64, b as u64) }).collect(); c.input_str("ranges", &format!("{ranges:?}"));
            let want: Vec<u8> = ranges.iter().flat_map(|&(a, b)| data[a as usize..b as usize].to_vec()).collect();
            let mut rd = MultiRangeReader::new(Cursor::new(data.clone()), ranges.clone()); ensure!(rd.total_length() == want.len() as u64, "range_meta", "total_length {} want {}", rd.total_length(), want.len());
            let mut got = Vec::new(); let mut guard = 0;
            loop { let s = req_size(&mut c.rng, 8); let mut buf = vec![0u8; s]; let n = match catch(|| rd.read(&mut buf)) { Ok(Ok(n)) => n, Ok(Err(e)) => return Err(io_fail("read_err", "MultiRangeReader::read", e)), Err(p) => return Err(bad(&p.class(), format!("read panicked at {}: {}", p.loc, p.msg))) };
                if n == 0 { break; } got.extend_from_slice(&buf[..n]); guard += 1; c.ev(1); ensure!(got.len() <= want.len() && guard < 100000, "read_overrun", "produced more than the ranges contain"); }
            ensure!(got == want, "stream_bytes", "multi-range stream ({} bytes) differs from concatenated ranges ({} bytes) {ranges:?}", got.len(), want.len()); Ok(()) });
    }
}

#[derive(Debug, Clone)]
enum ROp { Read(usize), Byte, Slice(usize), Fill(usize), Simd(usize), Ensure(usize), SeekStart(usize), SeekCur(i64), SeekEnd(usize) }
fn gen_rops(r: &mut Rng, cap: usize, seeks: bool) -> Vec<ROp> {
    let n = 3 + r.usize_below(40);
    (0..n).map(|_| match r.below(if seeks { 13 } else { 10 }) { 0..=3 => ROp::Read(req_size(r, cap)), 4 => ROp::Byte, 5 => ROp::Slice(req_size(r, cap)), 6 => ROp::Fill(r.usize_below(cap + 3)), 7 => ROp::Simd(req_size(r, cap)), 8 => ROp::Ensure(req_size(r, cap)), 9 => ROp::Read(1 + r.usize_below(3)),
        10 => ROp::SeekStart(r.usize_below(6000)), 11 => ROp::SeekCur(r.below(200) as i64 - 100), _ => ROp::SeekEnd(r.usize_below(300)) }).collect()
}
fn sbuf_cfg(r: &mut Rng) -> (StreamBufferConfig, usize) {
    let b = *r.pick(&[1usize, 2, 3, 4, 7, 8, 15, 16, 17, 64, 255, 256, 1000, 1024, 4095, 4096]); let align = match r.below(10) { 0 => 4096, 1 => 64, 2 => 2, _ => 1 }; let cap = (b + align - 1) & !(align - 1);
    let maxc = match r.below(5) { 0 => cap, 1 => cap * 2, 2 => cap + 1, 3 => 65536.max(cap), _ => 2 << 20 };
    let thr = match r.below(7) { 0 => 1, 1 => cap.saturating_sub(1).max(1), 2 => cap, 3 => cap + 1, 4 => 8192, 5 => 0, _ => usize::MAX / 2 };
    (StreamBufferConfig { initial_capacity: b, max_capacity: maxc, growth_factor: *r.pick(&[1.5, 2.0, 1.618, 1.0]), page_alignment: align, use_secure_pool: r.chance(1, 10), bulk_read_threshold: thr, enable_readahead: r.bool(), readahead_multiplier: *r.pick(&[1usize, 2, 4, 0]) }, cap)
}
/// drive a StreamBufferedReader through a script; `p` is the model position in `data`
fn drive_sbuf<R: Read>(c: &mut Case, rd: &mut StreamBufferedReader<R>, data: &[u8], ops: &[ROp], cap: usize, p: &mut usize, seek: &mut dyn FnMut(&mut StreamBufferedReader<R>, SeekFrom) -> std::io::Result<u64>) -> Res {
    let l = data.len();
    for (oi, op) in ops.iter().enumerate() {
        let avail = l.saturating_sub(*p); let pp = (*p).min(l);
        macro_rules! chk_read { ($what:expr, $s:expr, $n:expr, $buf:expr) => {{ let (s, n) = ($s, $n); ensure!(n <= s, "read_overrun", "op {oi} {}: returned {n} for a {s}-byte buffer", $what);
            if n == 0 { ensure!(s == 0 || avail == 0, "premature_eof", "op {oi} {}({s}) returned 0 at stream offset {} of {l}", $what, *p); }
            else { ensure!(n <= avail && $buf[..n] == data[pp..pp + n], "stream_bytes", "op {oi} {}({s}) at stream offset {}: {n} bytes differ from the inner stream (first diff {:?})", $what, *p, (0..n.min(avail)).find(|&i| $buf[i] != data[pp + i])); }
            *p += n; c.ev(1); }} }
        match op {
            ROp::Read(s) => { let mut buf = vec![0u8; *s]; let n = match catch(|| rd.read(&mut buf)) { Ok(Ok(n)) => n, Ok(Err(e)) => return Err(io_fail("read_err", &format!("op {oi} read({s}) at offset {}", *p), e)), Err(pn) => return Err(bad(&pn.class(), format!("read panicked at {}: {}", pn.loc, pn.msg))) }; chk_read!("read", *s, n, buf); }
            ROp::Simd(s) => { let mut buf = vec![0u8; *s]; let n = match catch(|| rd.read_simd_optimized(&mut buf)) { Ok(Ok(n)) => n, Ok(Err(e)) => return Err(io_fail("read_err", &format!("op {oi} read_simd_optimized({s}) at offset {}", *p), e)), Err(pn) => return Err(bad(&pn.class(), format!("read_simd_optimized panicked at {}: {}", pn.loc, pn.msg))) }; chk_read!("read_simd_optimized", *s, n, buf); }
            ROp::Byte => { match catch(|| rd.read_byte_fast()) { Ok(Ok(b)) => { ensure!(avail > 0 && b == data[pp], "stream_bytes", "op {oi} read_byte_fast at offset {} = {b:#x}", *p); *p += 1; } Ok(Err(e)) => ensure!(avail == 0, "premature_eof", "op {oi} read_byte_fast failed at offset {} of {l}: {e}", *p), Err(pn) => return Err(bad(&pn.class(), format!("read_byte_fast panicked at {}: {}", pn.loc, pn.msg))) } c.ev(1); }
            ROp::Slice(s) => { match catch(|| rd.read_slice(*s).map(|o| o.map(|x| x.to_vec()))) { Ok(Ok(Some(v))) => { ensure!(v.len() == *s && *s <= avail && v[..] == data[pp..pp + *s], "stream_bytes", "op {oi} read_slice({s}) at offset {} differs", *p); *p += *s; c.note("slice_some", 1); } Ok(Ok(None)) => { c.note("slice_none", 1); }
                Ok(Err(e)) => ensure!(*s > cap, "read_slice_err", "op {oi} read_slice({s}) with capacity {cap} failed: {e}"), Err(pn) => return Err(bad(&pn.class(), format!("read_slice panicked at {}: {}", pn.loc, pn.msg))) } c.ev(1); }
            ROp::Fill(k) => { let (n, okp) = match catch(|| rd.fill_buf().map(|s| (s.len(), s.len() <= avail && s[..] == data[pp..pp + s.len().min(avail)]))) { Ok(Ok(x)) => x, Ok(Err(e)) => return Err(io_fail("read_err", &format!("op {oi} fill_buf at offset {}", *p), e)), Err(pn) => return Err(bad(&pn.class(), format!("fill_buf panicked at {}: {}", pn.loc, pn.msg))) };
                ensure!(okp, "stream_bytes", "op {oi} fill_buf at offset {} exposes {n} bytes that are not the next bytes of the stream", *p); ensure!(n > 0 || avail == 0, "premature_eof", "op {oi} fill_buf empty at offset {} of {l}", *p); let k = (*k).min(n); rd.consume(k); *p += k; c.ev(1); }
            ROp::Ensure(s) => { match catch(|| rd.ensure_buffered(*s)) { Ok(Ok(n)) => { ensure!(n == rd.buffer_usage() && n <= avail, "ensure_buffered", "op {oi} ensure_buffered({s}) = {n}, buffer_usage {} stream remaining {avail}", rd.buffer_usage()); } Ok(Err(e)) => ensure!(*s > cap, "ensure_err", "op {oi} ensure_buffered({s}) with capacity {cap} failed: {e}"), Err(pn) => return Err(bad(&pn.class(), format!("ensure_buffered panicked at {}: {}", pn.loc, pn.msg))) } c.ev(1); }
            ROp::SeekStart(x) => { let g = seek(rd, SeekFrom::Start(*x as u64)).map_err(|e| io_fail("seek_err", "seek(Start)", e))?; ensure!(g == *x as u64, "seek_result", "op {oi} seek(Start({x})) = {g}"); *p = *x; c.ev(1); }
            ROp::SeekEnd(k) => { let k = (*k).min(l); let g = seek(rd, SeekFrom::End(-(k as i64))).map_err(|e| io_fail("seek_err", "seek(End)", e))?; ensure!(g == (l - k) as u64, "seek_result", "op {oi} seek(End(-{k})) = {g} want {}", l - k); *p = l - k; c.ev(1); }
            ROp::SeekCur(d) => { let d = (*d).max(-(*p as i64)); let g = seek(rd, SeekFrom::Current(d)).map_err(|e| io_fail("seek_err", "seek(Current)", e))?; let want = (*p as i64 + d) as usize;
                ensure!(g == want as u64, "seek_current_result", "op {oi} seek(Current({d})) at logical offset {} returned {g} want {want} (buffered bytes not accounted for)", *p); *p = want; c.ev(1); }
        }
    }
    // drain the rest with fixed-size reads
    let s = 1 + cap % 7; let mut guard = 0;
    loop { let mut buf = vec![0u8; s]; let n = match catch(|| rd.read(&mut buf)) { Ok(Ok(n)) => n, Ok(Err(e)) => return Err(io_fail("read_err", &format!("drain read({s}) at offset {}", *p), e)), Err(pn) => return Err(bad(&pn.class(), format!("read panicked at {}: {}", pn.loc, pn.msg))) };
        if n == 0 { break; } ensure!(*p + n <= l && buf[..n] == data[*p..*p + n], "stream_bytes", "drain read at offset {}: bytes differ or data past the end", *p); *p += n; guard += 1; if guard > l + 1000 { return Err(bad("read_overrun", "drain does not terminate".into())); } }
    ensure!(*p >= l, "premature_eof", "stream ended at offset {} of {l}", *p); c.ev(1);
    Ok(())
}

fn run_sbuf(ctx: &mut Ctx) {
    let npresets = ctx.n(8, 120) as u64;
    for idx in 0..ctx.n(500, 15000) as u64 {
        for inner_kind in ["cursor", "chunked"] {
            ctx.case("sbuf/reader", inner_kind, idx, |c| {
                let data = stream_data(c, 6000); let (cfg, cap) = sbuf_cfg(&mut c.rng); let ops = gen_rops(&mut c.rng, cap, false); c.input_str("cfg", &format!("{cfg:?}")); c.input_str("ops", &format!("{ops:?}"));
                let biggest_read = ops.iter().map(|o| match o { ROp::Read(s) | ROp::Simd(s) => *s, _ => 1 }).max().unwrap_or(1).max(1 + cap % 7) /* incl. the final drain reads */;
                if biggest_read > cfg.max_capacity.max(cap) { c.tag("read_req_gt_max_capacity"); }
                let mut p = 0; let mut noseek = |_: &mut StreamBufferedReader<_>, _: SeekFrom| -> std::io::Result<u64> { Ok(0) };
                if inner_kind == "cursor" { let mut rd = zok!("with_config", StreamBufferedReader::with_config(Cursor::new(data.clone()), cfg.clone())); ensure!(rd.capacity() == cap, "capacity", "capacity {} want {cap}", rd.capacity()); drive_sbuf(c, &mut rd, &data, &ops, cap, &mut p, &mut noseek)?; ensure!(rd.total_read() == data.len() as u64, "total_read", "total_read {} want {}", rd.total_read(), data.len()); }
                else { c.tag("inner_short_reads"); let f = c.rng.fork(); let mx = 1 + c.rng.usize_below(2 * cap + 3); let mut rd = zok!("with_config", StreamBufferedReader::with_config(Chunked::new(&data, mx, f), cfg.clone())); let mut ns = |_: &mut StreamBufferedReader<Chunked>, _: SeekFrom| -> std::io::Result<u64> { Ok(0) }; drive_sbuf(c, &mut rd, &data, &ops, cap, &mut p, &mut ns)?; }
                Ok(()) });
        }
        ctx.case("sbuf/reader_seek", "cursor", idx, |c| {
            let data = stream_data(c, 6000); let (cfg, cap) = sbuf_cfg(&mut c.rng); let ops = gen_rops(&mut c.rng, cap, true); c.input_str("cfg", &format!("{cfg:?}")); c.input_str("ops", &format!("{ops:?}"));
            let first_read = ops.iter().position(|o| !matches!(o, ROp::SeekStart(_) | ROp::SeekCur(_) | ROp::SeekEnd(_))); if let Some(fr) = first_read { if ops[fr..].iter().any(|o| matches!(o, ROp::SeekCur(_))) { c.tag("seek_current_after_read"); } }
            let biggest_read = ops.iter().map(|o| match o { ROp::Read(s) | ROp::Simd(s) => *s, _ => 1 }).max().unwrap_or(1).max(1 + cap % 7) /* incl. the final drain reads */; if biggest_read > cfg.max_capacity.max(cap) { c.tag("read_req_gt_max_capacity"); }
            let mut rd = zok!("with_config", StreamBufferedReader::with_config(Cursor::new(data.clone()), cfg.clone())); let mut p = 0;
            let mut sk = |r: &mut StreamBufferedReader<Cursor<Vec<u8>>>, s: SeekFrom| r.seek(s); drive_sbuf(c, &mut rd, &data, &ops, cap, &mut p, &mut sk) });
        if idx < npresets { ctx.case("sbuf/presets", "cursor", idx, |c| { // the four documented presets, default-size buffers
            let data = stream_data(c, 65536 * 2); let ops = gen_rops(&mut c.rng, 8192, false); let which = (idx % 4) as u32; c.input_str("preset", &which.to_string()); c.input_str("ops", &format!("{ops:?}"));
            let cur = Cursor::new(data.clone()); let mut rd = zok!("preset", match which { 0 => StreamBufferedReader::new(cur), 1 => StreamBufferedReader::performance_optimized(cur), 2 => StreamBufferedReader::memory_efficient(cur), _ => StreamBufferedReader::low_latency(cur) });
            let cap = rd.capacity(); let mut p = 0; let mut ns = |_: &mut StreamBufferedReader<Cursor<Vec<u8>>>, _: SeekFrom| -> std::io::Result<u64> { Ok(0) }; drive_sbuf(c, &mut rd, &data, &ops, cap, &mut p, &mut ns) }); }
        for inner_kind in ["vec", "short"] {
            ctx.case("sbuf/writer", inner_kind, idx, |c| {
                let (cfg, cap) = sbuf_cfg(&mut c.rng); c.input_str("cfg", &format!("{cfg:?}")); c.set_nontrivial(true); let nops = 2 + c.rng.usize_below(40); let mut model: Vec<u8> = Vec::new();
                macro_rules! drive { ($w:expr, $inner_bytes:expr) => {{
                    for oi in 0..nops { match c.rng.below(8) {
                        0 => { let b = c.rng.next() as u8; zok!("write_byte_fast", $w.write_byte_fast(b)); model.push(b); }
                        1 => { if let Err(e) = $w.flush() { return Err(io_fail("write_err", "flush", e)); } ensure!($w.buffer_usage() == 0 && $w.total_written() == model.len() as u64, "flush_accounting", "op {oi}: after flush buffer_usage {} total_written {} want {}", $w.buffer_usage(), $w.total_written(), model.len()); }
                        _ => { let s = req_size(&mut c.rng, cap); let chunk = c.rng.bytes(s); let mut off = 0; let mut spins = 0; while off < s { let n = match catch(|| $w.write(&chunk[off..])) { Ok(Ok(n)) => n, Ok(Err(e)) => return Err(io_fail("write_err", &format!("op {oi} write({})", s - off), e)), Err(p) => return Err(bad(&p.class(), format!("write panicked at {}: {}", p.loc, p.msg))) };
                                ensure!(n <= s - off && (n > 0 || { spins += 1; spins < 3 }), "write_count", "op {oi} write({}) returned {n}", s - off); off += n; } model.extend_from_slice(&chunk); }
                    } c.ev(1); ensure!($w.buffer_usage() <= $w.capacity(), "buffer_usage", "buffer_usage > capacity"); }
                    let inner = match $w.into_inner() { Ok(i) => i, Err(e) => return Err(io_fail("write_err", "into_inner", e)) }; let got: Vec<u8> = $inner_bytes(inner);
                    ensure!(got == model, "stream_bytes", "bytes reaching the inner writer ({}) differ from the bytes written ({}); first diff {:?}", got.len(), model.len(), got.iter().zip(&model).position(|(a, b)| a != b));
                }} }
                c.input_str("nops", &nops.to_string());
                if inner_kind == "vec" { let w = zok!("with_config", StreamBufferedWriter::with_config(Vec::new(), cfg.clone())); let mut w = w; ensure!(w.capacity() == cap, "capacity", "capacity"); drive!(w, |v: Vec<u8>| v); }
                else { c.tag("inner_short_writes"); let f = c.rng.fork(); let mx = 1 + c.rng.usize_below(2 * cap + 3); let mut w = zok!("with_config", StreamBufferedWriter::with_config(ShortWriter::new(mx, f), cfg.clone())); drive!(w, |s: ShortWriter| s.out); }
                Ok(()) });
        }
    }
}

// ---------------------------------------------------------------------------------------------
// zero-copy
// ---------------------------------------------------------------------------------------------
#[derive(Debug, Clone)]
enum ZOp { Read(usize), Opt(usize), Peek(usize), Skip(usize), Zc(usize, usize), Ensure(usize) }
fn gen_zops(r: &mut Rng, cap: usize, bounded: bool) -> Vec<ZOp> {
    let n = 3 + r.usize_below(40); let cl = |s: usize| if bounded { s.min(cap).max(1) } else { s };
    let v: Vec<ZOp> = (0..n).map(|_| match r.below(10) { 0..=3 => ZOp::Read(req_size(r, cap)), 4 => ZOp::Opt(req_size(r, cap)), 5 => ZOp::Peek(req_size(r, cap)), 6 => ZOp::Skip(r.usize_below(2 * cap + 20)), 7 | 8 => { let l = req_size(r, cap); ZOp::Zc(l, r.usize_below(l + 1)) } _ => ZOp::Ensure(req_size(r, cap)) }).collect();
    v.into_iter().map(|o| match o { ZOp::Opt(s) => ZOp::Opt(cl(s)), ZOp::Peek(s) => ZOp::Peek(cl(s)), ZOp::Ensure(s) => ZOp::Ensure(cl(s)), ZOp::Zc(s, a) => { let s2 = cl(s); ZOp::Zc(s2, a.min(s2)) } o => o }).collect()
}
fn drive_zc<R: Read>(c: &mut Case, rd: &mut ZeroCopyReader<R>, data: &[u8], ops: &[ZOp], cap: usize) -> Res {
    let l = data.len(); let mut p = 0usize;
    for (oi, op) in ops.iter().enumerate() {
        let avail = l - p;
        match op {
            ZOp::Read(s) | ZOp::Opt(s) => { let mut buf = vec![0u8; *s]; let opt = matches!(op, ZOp::Opt(_));
                let n = if opt { match catch(|| rd.read_optimized(&mut buf)) { Ok(Ok(n)) => n, Ok(Err(e)) => return Err(io_fail("read_err", &format!("op {oi} read_optimized({s}) at {p}"), e)), Err(pn) => return Err(bad(&pn.class(), format!("read_optimized panicked at {}: {}", pn.loc, pn.msg))) } }
                    else { match catch(|| rd.read(&mut buf)) { Ok(Ok(n)) => n, Ok(Err(e)) => return Err(io_fail("read_err", &format!("op {oi} read({s}) at {p}"), e)), Err(pn) => return Err(bad(&pn.class(), format!("read panicked at {}: {}", pn.loc, pn.msg))) } };
                ensure!(n <= *s, "read_overrun", "op {oi}: {n} > {s}");
                if n == 0 { ensure!(avail == 0, "premature_eof", "op {oi} {}({s}) returned 0 at stream offset {p} of {l}", if opt { "read_optimized" } else { "read" }); }
                else { ensure!(n <= avail && buf[..n] == data[p..p + n], "stream_bytes", "op {oi} {}({s}) at offset {p}: bytes differ", if opt { "read_optimized" } else { "read" }); }
                p += n; c.ev(1); }
            ZOp::Peek(s) => { let v = match catch(|| rd.peek(*s).map(|x| x.to_vec())) { Ok(Ok(v)) => v, Ok(Err(e)) => return Err(io_fail("read_err", &format!("op {oi} peek({s})"), e)), Err(pn) => return Err(bad(&pn.class(), format!("peek panicked at {}: {}", pn.loc, pn.msg))) };
                ensure!(v.len() <= *s && v.len() <= avail && v[..] == data[p..p + v.len()], "stream_bytes", "op {oi} peek({s}) at offset {p}: not a prefix of the remaining stream"); if *s <= cap && *s <= avail { ensure!(v.len() == *s, "peek_short", "op {oi} peek({s}) with capacity {cap} and {avail} remaining returned {} bytes", v.len()); } c.ev(1); }
            ZOp::Skip(k) => { let k = (*k).min(avail); match catch(|| rd.skip_bytes(k)) { Ok(Ok(())) => {} Ok(Err(e)) => return Err(io_fail("skip_err", &format!("op {oi} skip_bytes({k}) with {avail} remaining"), e)), Err(pn) => return Err(bad(&pn.class(), format!("skip_bytes panicked at {}: {}", pn.loc, pn.msg))) } p += k; c.ev(1); }
            ZOp::Zc(len, adv) => { let got = match catch(|| rd.zc_read(*len).map(|o| o.map(|x| x.to_vec()))) { Ok(Ok(g)) => g, Ok(Err(e)) => return Err(io_fail("read_err", &format!("op {oi} zc_read({len})"), e)), Err(pn) => return Err(bad(&pn.class(), format!("zc_read panicked at {}: {}", pn.loc, pn.msg))) };
                match got { Some(v) => { ensure!(v.len() == *len && *len <= avail && v[..] == data[p..p + *len], "stream_bytes", "op {oi} zc_read({len}) at offset {p} differs"); ensure!(rd.zc_available() >= *len, "zc_available", "zc_available {} < {len}", rd.zc_available()); zok!("zc_advance", rd.zc_advance(*adv)); p += *adv; c.note("zc_some", 1); }
                    None => { ensure!(*len > cap || *len > avail, "zc_read_none", "op {oi} zc_read({len}) = None with capacity {cap} and {avail} bytes remaining"); c.note("zc_none", 1); } } c.ev(1); }
            ZOp::Ensure(s) => { let n = zok!("zc_ensure", rd.zc_ensure(*s)); ensure!(n <= *s && n <= avail, "zc_ensure", "op {oi} zc_ensure({s}) = {n} with {avail} remaining"); if *s <= cap { ensure!(n == (*s).min(avail), "zc_ensure", "op {oi} zc_ensure({s}) = {n}, capacity {cap}, remaining {avail}"); } c.ev(1); }
        }
    }
    let s = 1 + cap % 5; let mut guard = 0;
    loop { let mut buf = vec![0u8; s]; let n = match catch(|| rd.read(&mut buf)) { Ok(Ok(n)) => n, Ok(Err(e)) => return Err(io_fail("read_err", "drain read", e)), Err(pn) => return Err(bad(&pn.class(), format!("read panicked at {}: {}", pn.loc, pn.msg))) };
        if n == 0 { break; } ensure!(p + n <= l && buf[..n] == data[p..p + n], "stream_bytes", "drain read at offset {p}: bytes differ"); p += n; guard += 1; if guard > l + 1000 { return Err(bad("read_overrun", "drain does not terminate".into())); } }
    ensure!(p == l, "premature_eof", "stream ended at offset {p} of {l} (small reads return 0 although the inner reader still has data)"); c.ev(1);
    Ok(())
}

fn run_zero_copy(ctx: &mut Ctx) {
    for idx in 0..ctx.n(500, 15000) as u64 {
        for inner_kind in ["cursor", "chunked"] {
            ctx.case("zc/reader", inner_kind, idx, |c| {
                let data = stream_data(c, 6000); let bounded = c.rng.chance(1, 3); let cap = *c.rng.pick(&[1usize, 2, 3, 4, 8, 15, 16, 17, 64, 255, 256, 1000, 4096, 65536, 0][..if bounded { 14 } else { 15 }]); let ops = gen_zops(&mut c.rng, cap, bounded); c.input_str("cap", &cap.to_string()); c.input_str("ops", &format!("{ops:?}"));
                if ops.iter().any(|o| match o { ZOp::Opt(s) | ZOp::Peek(s) | ZOp::Ensure(s) | ZOp::Zc(s, _) => *s > cap, _ => false }) { c.tag("zc_request_gt_capacity"); }
                let secure = c.rng.chance(1, 10) && cap > 0 && !cfg!(miri);
                if inner_kind == "cursor" { let cur = Cursor::new(data.clone()); let mut rd = zok!("with_capacity", if secure { ZeroCopyReader::with_secure_buffer(cur, cap) } else { ZeroCopyReader::with_capacity(cur, cap) }); drive_zc(c, &mut rd, &data, &ops, cap) }
                else { c.tag("inner_short_reads"); let f = c.rng.fork(); let mx = 1 + c.rng.usize_below(2 * cap + 3); let mut rd = zok!("with_capacity", ZeroCopyReader::with_capacity(Chunked::new(&data, mx, f), cap)); drive_zc(c, &mut rd, &data, &ops, cap) } });
            ctx.case("zc/writer", if inner_kind == "cursor" { "vec" } else { "short" }, idx, |c| {
                let cap = *c.rng.pick(&[1usize, 2, 3, 4, 8, 15, 16, 17, 64, 255, 256, 1000, 4096, 0]); let nops = 2 + c.rng.usize_below(40); c.input_str("cap_nops", &format!("{cap},{nops}")); c.set_nontrivial(true); let mut model: Vec<u8> = Vec::new();
                macro_rules! drive { ($w:expr, $inner_bytes:expr) => {{
                    for oi in 0..nops { match c.rng.below(8) {
                        0 => { if let Err(e) = $w.flush() { return Err(io_fail("write_err", "flush", e)); } }
                        1 | 2 => { let len = req_size(&mut c.rng, cap); let k = c.rng.usize_below(len + 1); let fill = c.rng.bytes(len);
                            let some = match catch(|| $w.zc_write(len).map(|o| o.map(|s| { s.copy_from_slice(&fill); s.len() }))) { Ok(Ok(x)) => x, Ok(Err(e)) => return Err(io_fail("write_err", &format!("op {oi} zc_write({len})"), e)), Err(p) => return Err(bad(&p.class(), format!("zc_write panicked at {}: {}", p.loc, p.msg))) };
                            match some { Some(n) => { ensure!(n == len, "zc_write_len", "zc_write({len}) slice of {n}"); zok!("zc_commit", $w.zc_commit(k)); model.extend_from_slice(&fill[..k]); c.note("zc_some", 1); } None => { ensure!(len > cap, "zc_write_none", "op {oi} zc_write({len}) = None with capacity {cap}"); } } }
                        3 => { let len = req_size(&mut c.rng, cap); let n = zok!("zc_ensure_write", $w.zc_ensure_write(len)); ensure!(n == len.min(cap), "zc_ensure_write", "op {oi} zc_ensure_write({len}) = {n} capacity {cap}"); }
                        _ => { let s = req_size(&mut c.rng, cap); let chunk = c.rng.bytes(s); let mut off = 0; let mut spins = 0; while off < s { let n = match catch(|| $w.write(&chunk[off..])) { Ok(Ok(n)) => n, Ok(Err(e)) => return Err(io_fail("write_err", &format!("op {oi} write({})", s - off), e)), Err(p) => return Err(bad(&p.class(), format!("write panicked at {}: {}", p.loc, p.msg))) };
                                ensure!(n <= s - off && (n > 0 || { spins += 1; spins < 3 }), "write_count", "op {oi} write({}) returned {n}", s - off); off += n; } model.extend_from_slice(&chunk); }
                    } c.ev(1); }
                    let inner = match $w.into_inner() { Ok(i) => i, Err(e) => return Err(io_fail("write_err", "into_inner", e)) }; let got: Vec<u8> = $inner_bytes(inner);
                    ensure!(got == model, "stream_bytes", "bytes reaching the inner writer ({}) differ from the bytes written ({}); first diff {:?}", got.len(), model.len(), got.iter().zip(&model).position(|(a, b)| a != b));
                }} }
                if inner_kind == "cursor" { let mut w = zok!("with_capacity", ZeroCopyWriter::with_capacity(Vec::new(), cap)); drive!(w, |v: Vec<u8>| v); }
                else { c.tag("inner_short_writes"); let f = c.rng.fork(); let mx = 1 + c.rng.usize_below(2 * cap + 3); let mut w = zok!("with_capacity", ZeroCopyWriter::with_capacity(ShortWriter::new(mx, f), cap)); drive!(w, |s: ShortWriter| s.out); }
                Ok(()) });
            ctx.case("zc/vectored", inner_kind, idx, |c| {
                let data = stream_data(c, 800); let chunked = inner_kind == "chunked"; if chunked { c.tag("inner_short_transfers"); } let mx = 1 + c.rng.usize_below(12); c.input_str("max_transfer", &mx.to_string());
                let nb = 1 + c.rng.usize_below(5); let sizes: Vec<usize> = (0..nb).map(|_| if c.rng.chance(1, 6) { 0 } else { 1 + c.rng.usize_below(40) }).collect(); c.input_str("buf_sizes", &format!("{sizes:?}"));
                // read side
                let mut bufs: Vec<Vec<u8>> = sizes.iter().map(|&s| vec![0xEEu8; s]).collect();
                let total = { let mut sl: Vec<IoSliceMut> = bufs.iter_mut().map(|b| IoSliceMut::new(b)).collect(); let f = c.rng.fork();
                    let r = if chunked { let mut rd = Chunked::new(&data, mx, f); catch(|| VectoredIO::read_vectored(&mut rd, &mut sl)) } else { let mut rd = Cursor::new(data.clone()); catch(|| VectoredIO::read_vectored(&mut rd, &mut sl)) };
                    match r { Ok(Ok(n)) => n, Ok(Err(e)) => return Err(io_fail("read_err", "read_vectored", e)), Err(p) => return Err(bad(&p.class(), format!("read_vectored panicked at {}: {}", p.loc, p.msg))) } };
                let flat: Vec<u8> = bufs.concat(); ensure!(total <= flat.len() && total <= data.len(), "read_overrun", "read_vectored returned {total}");
                ensure!(flat[..total] == data[..total], "vectored_read_layout", "read_vectored returned {total}: the first {total} bytes of the buffers (in order) are not the first {total} bytes of the stream (sizes {sizes:?}); a short read left a gap inside a buffer");
                ensure!(total > 0 || data.is_empty() || flat.is_empty(), "premature_eof", "read_vectored returned 0"); c.ev(1);
                // write side
                let src: Vec<Vec<u8>> = sizes.iter().map(|&s| c.rng.bytes(s)).collect(); let sl: Vec<IoSlice> = src.iter().map(|b| IoSlice::new(b)).collect(); let flat: Vec<u8> = src.concat(); let f = c.rng.fork();
                let (n, out) = if chunked { let mut w = ShortWriter::new(mx, f); let n = match VectoredIO::write_vectored(&mut w, &sl) { Ok(n) => n, Err(e) => return Err(io_fail("write_err", "write_vectored", e)) }; (n, w.out) } else { let mut w: Vec<u8> = Vec::new(); let n = match VectoredIO::write_vectored(&mut w, &sl) { Ok(n) => n, Err(e) => return Err(io_fail("write_err", "write_vectored", e)) }; (n, w) };
                ensure!(n == out.len() && n <= flat.len(), "write_count", "write_vectored returned {n}, inner received {}", out.len());
                ensure!(out[..] == flat[..n], "vectored_write_layout", "write_vectored returned {n}: the inner writer did not receive the first {n} bytes of the buffers in order (sizes {sizes:?}); a short write skipped the rest of a buffer"); c.ev(1);
                Ok(()) });
        }
        ctx.case("zc/buffer", "fifo_model", idx, |c| {
            let cap = *c.rng.pick(&[0usize, 1, 2, 3, 8, 16, 17, 64, 100, 1024]); let nops = 5 + c.rng.usize_below(60); c.input_str("cap_nops", &format!("{cap},{nops}")); c.set_nontrivial(cap > 0);
            let mut b = zok!("ZeroCopyBuffer::new", if c.rng.chance(1, 10) && !cfg!(miri) { ZeroCopyBuffer::with_secure_pool(cap) } else { ZeroCopyBuffer::new(cap) }); let mut q: VecDeque<u8> = VecDeque::new(); let (mut rp, mut wp) = (0usize, 0usize); let mut drained: Vec<u8> = Vec::new(); let mut drained_model: Vec<u8> = Vec::new();
            for oi in 0..nops {
                match c.rng.below(9) {
                    0 | 1 => { let len = c.rng.usize_below(cap + 3); let k = c.rng.usize_below(len + 1); let fill = c.rng.bytes(len); let got = zok!("zc_write", b.zc_write(len).map(|o| o.map(|s| { s.copy_from_slice(&fill); })));
                        ensure!(got.is_some() == (cap - wp >= len), "zc_write_some", "op {oi} zc_write({len}) some={} with write_available {}", got.is_some(), cap - wp); if got.is_some() { zok!("zc_commit", b.zc_commit(k)); wp += k; q.extend(&fill[..k]); }
                        else { ensure!(b.zc_commit(len).is_err() || wp + len <= cap, "zc_commit_bound", "commit past capacity accepted"); } }
                    2 | 3 => { let len = c.rng.usize_below(cap + 3); let k = c.rng.usize_below(len + 1); let got = zok!("zc_read", b.zc_read(len).map(|o| o.map(|s| s.to_vec()))); ensure!(got.is_some() == (q.len() >= len), "zc_read_some", "op {oi} zc_read({len}) some={} available {}", got.is_some(), q.len());
                        if let Some(v) = got { let want: Vec<u8> = q.iter().take(len).copied().collect(); ensure!(v == want, "stream_bytes", "op {oi} zc_read({len}) differs from FIFO model"); zok!("zc_advance", b.zc_advance(k)); rp += k; q.drain(..k); } else { ensure!(b.zc_advance(len).is_err(), "zc_advance_bound", "advance past data accepted"); } }
                    4 => { np!("compact", b.compact()); if rp > 0 { wp -= rp; rp = 0; } }
                    5 => { let n = c.rng.usize_below(cap + 5); let src = c.rng.bytes(n); let mut cur = Cursor::new(src.clone()); if wp == cap && rp > 0 { wp -= rp; rp = 0; } let want = n.min(cap - wp); let got = zok!("fill_from", b.fill_from(&mut cur)); ensure!(got == want, "fill_from", "op {oi} fill_from returned {got} want {want}"); wp += got; q.extend(&src[..got]); }
                    6 => { let got = zok!("drain_to", b.drain_to(&mut drained)); ensure!(got == q.len(), "drain_to", "op {oi} drain_to returned {got} want {}", q.len()); drained_model.extend(q.drain(..)); rp = wp; ensure!(drained == drained_model, "stream_bytes", "drained bytes differ from FIFO model"); }
                    7 => { let len = c.rng.usize_below(cap + 3); if cap - wp < len && rp > 0 { wp -= rp; rp = 0; } let got = zok!("zc_ensure_write", b.zc_ensure_write(len)); ensure!(got == len.min(cap - wp), "zc_ensure_write", "op {oi} zc_ensure_write({len}) = {got} want {}", len.min(cap - wp)); }
                    _ => { if c.rng.chance(1, 4) { b.reset(); rp = 0; wp = 0; q.clear(); } else { let e = zok!("zc_ensure", b.zc_ensure(5)); ensure!(e == q.len().min(5), "zc_ensure", "zc_ensure"); } }
                }
                let rs: Vec<u8> = b.readable_slice().to_vec(); let want: Vec<u8> = q.iter().copied().collect();
                ensure!(rs == want, "stream_bytes", "op {oi}: readable_slice differs from FIFO model ({} vs {} bytes)", rs.len(), want.len());
                ensure!(b.available() == wp - rp && b.write_available() == cap - wp && b.read_position() == rp && b.write_position() == wp && b.capacity() == cap && b.is_empty() == (rp == wp) && b.is_full() == (wp == cap) && b.writable_slice().len() == cap - wp, "buffer_accounting", "op {oi}: positions ({},{}) want ({rp},{wp})", b.read_position(), b.write_position()); c.ev(2);
            }
            Ok(()) });
    }
    for idx in 0..(if cfg!(miri) { 0 } else { ctx.n(60, 1500) as u64 }) {
        ctx.case("zc/mmap_reader", "file", idx, |c| {
            let data = stream_data(c, 9000); let l = data.len(); if l == 0 { c.set_nontrivial(false); }
            let dir = tempfile::tempdir().map_err(|e| bad("__inconclusive", format!("tempdir: {e}")))?; let p = dir.path().join("z.bin"); std::fs::write(&p, &data).map_err(|e| bad("__inconclusive", format!("{e}")))?;
            let f = std::fs::File::open(&p).map_err(|e| bad("__inconclusive", format!("{e}")))?; let mut rd = match catch(|| MmapZeroCopyReader::new(f)) { Ok(Ok(r)) => r, Ok(Err(e)) => { if l == 0 { c.note("ctor_refused_empty", 1); return Ok(()); } return Err(bad("ctor_err", format!("{e}"))); } Err(pn) => return Err(bad(&pn.class(), format!("panic at {}", pn.loc))) };
            ensure!(rd.len() == l && rd.is_empty() == (l == 0) && rd.as_slice() == &data[..], "stream_bytes", "mapped slice differs"); let mut pos = 0usize;
            for oi in 0..(5 + c.rng.usize_below(40)) { let avail = l - pos; match c.rng.below(4) {
                0 => { let s = req_size(&mut c.rng, 64); let mut buf = vec![0u8; s]; let n = rd.read(&mut buf).map_err(|e| io_fail("read_err", "read", e))?; ensure!(n == s.min(avail) && buf[..n] == data[pos..pos + n], "stream_bytes", "op {oi} read({s}) at {pos} returned {n}"); pos += n; }
                1 => { let len = req_size(&mut c.rng, 64); let k = c.rng.usize_below(len + 1); let got = zok!("zc_read", rd.zc_read(len).map(|o| o.map(|s| s.to_vec()))); ensure!(got.is_some() == (len <= avail), "zc_read_some", "op {oi} zc_read({len}) with {avail} left"); if let Some(v) = got { ensure!(v[..] == data[pos..pos + len], "stream_bytes", "op {oi} zc_read differs"); zok!("zc_advance", rd.zc_advance(k)); pos += k; } else { ensure!(rd.zc_advance(len).is_err(), "zc_advance_bound", "advance past end accepted"); } }
                2 => { let x = c.rng.usize_below(l + 3); let r = rd.set_position(x); ensure!(r.is_ok() == (x <= l), "set_position", "set_position({x}) len {l}: {r:?}"); if x <= l { pos = x; } }
                _ => { ensure!(rd.zc_available() == avail && rd.position() == pos && rd.remaining_slice() == &data[pos..] && zok!("zc_ensure", rd.zc_ensure(10)) == avail.min(10), "buffer_accounting", "op {oi} accounting at {pos}"); } } c.ev(1); }
            Ok(()) });
    }
}


// ---------------------------------------------------------------------------------------------
// huge_* families: sizes / counts just above 16-bit and 20-bit limits, a handful of cases per target
// ---------------------------------------------------------------------------------------------
const HUGE_SIZES: &[usize] = &[65535, 65536, 65537, 70001, 131071, 131072, 131073, (1 << 20) + 17];
const HUGE_COUNTS: &[usize] = &[65535, 65536, 65537, 70001, 100001, 131073];
fn huge_shape_name(k: u32) -> &'static str { ["dominant", "all_equal", "compressible", "xcxd", "random"][(k % 5) as usize] }
/// data shapes at large sizes: one dominant symbol, all-equal, > 1000:1 compressible, X c X d, random
fn huge_bytes(r: &mut Rng, len: usize, shape: u32) -> Vec<u8> {
    match shape % 5 {
        0 => { let d = r.next() as u8; let pct = 60 + r.below(40); (0..len).map(|_| if r.below(100) < pct { d } else { r.next() as u8 }).collect() }
        1 => vec![r.next() as u8; len],
        2 => { if r.bool() { let p = 1 + r.usize_below(4); let pat = r.bytes(p); (0..len).map(|i| pat[i % p]).collect() } else { let mut v = Vec::with_capacity(len); while v.len() < len { let b = r.next() as u8; let n = (20000 + r.usize_below(60000)).min(len - v.len()); v.extend(std::iter::repeat(b).take(n)); } v } }
        3 => { let h = (len.saturating_sub(2)) / 2; let x = r.bytes(h); let mut v = x.clone(); v.push(b'c'); v.extend_from_slice(&x); while v.len() < len { v.push(b'd'); } v.truncate(len); v }
        _ => r.bytes(len),
    }
}
/// valid UTF-8 of exactly `len` bytes with multi-byte characters spread through it
fn huge_string(r: &mut Rng, len: usize, shape: u32) -> String {
    let mut s = String::with_capacity(len + 4); let dom = (b'a' + r.below(26) as u8) as char; const MB: &[&str] = &["é", "中", "😀", "ß", "€"];
    while s.len() < len { let left = len - s.len(); match shape % 5 { 1 => s.push(dom), 0 => { if r.below(100) < 90 || left < 4 { s.push(dom) } else { s.push_str(*r.pick(MB)) } } 2 => s.push_str(if left >= 2 { "é" } else { "x" }),
        _ => { if left >= 4 && r.chance(1, 5) { s.push_str(*r.pick(MB)) } else { s.push((b' ' + r.below(90) as u8) as char) } } } }
    while s.len() > len { s.pop(); } while s.len() < len { s.push('x'); } s
}
/// script with length-prefixed arrays / strings of the given sizes between small items
fn huge_items(r: &mut Rng, sizes: &[usize]) -> Vec<Item> {
    let mut v = vec![Item::U16(bnd_u64(r) as u16), Item::Var(bnd_u64(r))];
    for (i, &n) in sizes.iter().enumerate() { let shape = r.below(5) as u32;
        match (i + r.usize_below(2)) % 3 { 0 => v.push(Item::LpBytes(huge_bytes(r, n, shape))), 1 => v.push(Item::LpStr(huge_string(r, n, shape))), _ => { v.push(Item::Var(n as u64)); v.push(Item::Bytes(huge_bytes(r, n, shape))); } }
        v.push(match r.below(4) { 0 => Item::U8(r.next() as u8), 1 => Item::U32(r.next() as u32), 2 => Item::LpStr(arb_string(r)), _ => Item::U64(bnd_u64(r)) }); }
    v.push(Item::LpBytes(huge_bytes(r, sizes[0], 3))); v.push(Item::U16(0xBEEF)); v
}
fn huge_size_set(idx: u64) -> &'static [usize] { if idx % 2 == 0 { &HUGE_SIZES[..4] } else { &HUGE_SIZES[4..] } }
fn tmpd() -> Result<tempfile::TempDir, Fail> { tempfile::tempdir().map_err(|e| bad("__inconclusive", format!("tempdir: {e}"))) }
fn inconc<E: std::fmt::Display>(e: E) -> Fail { bad("__inconclusive", format!("{e}")) }

fn run_huge(ctx: &mut Ctx) {
    // ---- varint sequences with > 65536 / > 10^5 elements
    for idx in 0..ctx.n(6, 36) as u64 {
        ctx.case("varint/core", "huge_count", idx, |c| { let n = HUGE_COUNTS[(idx as usize * 2 + c.rng.usize_below(2)) % HUGE_COUNTS.len()]; let v: Vec<u64> = (0..n).map(|i| if i % 1000 == 0 { bnd_u64(&mut c.rng) } else { c.rng.next() >> c.rng.below(64) }).collect(); c.input("u64s", &u64s_bytes(&v)); c.set_nontrivial(true);
            let mut model = Vec::new(); for &x in &v { model_leb(&mut model, x); } let m = np!("encode_multiple", VarInt::encode_multiple(v.iter().copied())); ensure!(m == model, "bytes_vs_model", "encode_multiple of {n} values differs from model");
            let d = zok!("decode_multiple", VarInt::decode_multiple(&m)); ensure!(d == v, "roundtrip_mismatch", "decode_multiple of {n} values"); let mut inp = SliceDataInput::new(&m); for (i, &x) in v.iter().enumerate() { let y = zok!("read_from", VarInt::read_from(&mut inp)); ensure!(y == x, "roundtrip_mismatch", "read_from item {i}"); } ensure!(inp.pos() == m.len(), "consumed_len", "end"); c.ev(2 * n as u64); Ok(()) });
        for (name, st) in STRATS { let st = *st;
            if !matches!(st, VarIntStrategy::Zigzag) { ctx.case(&format!("vs/{name}/u64seq"), "huge_count", idx, |c| { let n = HUGE_COUNTS[(idx as usize * 2 + c.rng.usize_below(2)) % HUGE_COUNTS.len()]; let kind = c.rng.below(4);
                let mut cur = c.rng.below(1 << 20); let v: Vec<u64> = (0..n).map(|_| match kind { 0 => c.rng.next() >> (32 + c.rng.below(32)), 1 => { cur += c.rng.below(300); cur } 2 => 7, _ => if st == VarIntStrategy::GroupVarint { c.rng.next() >> 32 } else { c.rng.next() >> c.rng.below(64) } }).collect();
                c.input("u64s", &u64s_bytes(&v)); c.input_str("n", &n.to_string()); c.set_nontrivial(true); if st == VarIntStrategy::Delta && delta_u64_bad(&v) { c.tag("delta_absdiff_ge_2pow63"); } if st == VarIntStrategy::GroupVarint && gv_bad(&v) { c.tag("gv_value_ge_2pow32"); }
                let e = VarIntEncoder::new(st); seq_rt(c, &v, &|x| e.encode_u64_sequence(x), &|b| e.decode_u64_sequence(b)) }); }
            ctx.case(&format!("vs/{name}/i64seq"), "huge_count", idx, |c| { let n = HUGE_COUNTS[(idx as usize * 2 + c.rng.usize_below(2)) % HUGE_COUNTS.len()]; let kind = c.rng.below(4);
                let mut cur = -(c.rng.below(1 << 20) as i64); let v: Vec<i64> = (0..n).map(|_| match kind { 0 => (c.rng.next() >> (33 + c.rng.below(31))) as i64, 1 => { cur += c.rng.below(300) as i64 - 100; cur } 2 => -7, _ => if st == VarIntStrategy::GroupVarint { (c.rng.next() >> 33) as i64 } else { c.rng.next() as i64 >> c.rng.below(64) } }).collect();
                c.input("i64s", &i64s_bytes(&v)); c.input_str("n", &n.to_string()); c.set_nontrivial(true); if st == VarIntStrategy::Delta && delta_i64_bad(&v) { c.tag("delta_i64_diff_overflow"); } if st == VarIntStrategy::GroupVarint && v.iter().any(|&x| (x as u64) >= 1 << 32) { c.tag("gv_value_ge_2pow32"); }
                let e = VarIntEncoder::new(st); seq_rt(c, &v, &|x| e.encode_i64_sequence(x), &|b| e.decode_i64_sequence(b)) });
        }
        ctx.case("vs/auto/u64seq", "huge_count", idx, |c| { let n = HUGE_COUNTS[(idx as usize * 2 + c.rng.usize_below(2)) % HUGE_COUNTS.len()]; let kind = c.rng.below(3); let mut cur = 0u64; let v: Vec<u64> = (0..n).map(|_| match kind { 0 => c.rng.next() >> 40, 1 => { cur += c.rng.below(1 << 30); cur } _ => c.rng.below(200) }).collect(); c.input("u64s", &u64s_bytes(&v)); c.set_nontrivial(true);
            let st = np!("choose_optimal_strategy", choose_optimal_strategy(&v)); c.note(&format!("auto:{st:?}"), 1); let e = VarIntEncoder::new(st); seq_rt(c, &v, &|x| e.encode_u64_sequence(x), &|b| e.decode_u64_sequence(b)) });
        ctx.case("vs/auto/i64seq", "huge_count", idx, |c| { let n = HUGE_COUNTS[(idx as usize * 2 + c.rng.usize_below(2)) % HUGE_COUNTS.len()]; let kind = c.rng.below(3); let mut cur = -5000i64; let v: Vec<i64> = (0..n).map(|_| match kind { 0 => (c.rng.next() >> 40) as i64 - 8000, 1 => { cur += c.rng.below(1 << 20) as i64; cur } _ => c.rng.below(200) as i64 }).collect(); c.input("i64s", &i64s_bytes(&v)); c.set_nontrivial(true);
            let st = np!("choose_optimal_strategy_signed", choose_optimal_strategy_signed(&v)); c.note(&format!("auto:{st:?}"), 1); let e = VarIntEncoder::new(st); seq_rt(c, &v, &|x| e.encode_i64_sequence(x), &|b| e.decode_i64_sequence(b)) });
        for which in ["simd_varint/codec", "simd_varint/global"] {
            ctx.case(which, "huge_count", idx, |c| { let n = if idx % 2 == 1 { (1 << 20) + 17 } else { HUGE_COUNTS[c.rng.usize_below(HUGE_COUNTS.len())] }; let kind = c.rng.below(3); let v: Vec<u64> = (0..n).map(|i| match kind { 0 => c.rng.next() >> c.rng.below(64), 1 => if i % 70000 == 69999 { u64::MAX } else { 3 }, _ => c.rng.below(1 << 14) }).collect(); c.input("u64s", &u64s_bytes(&v)); c.set_nontrivial(true);
                let global = which.ends_with("global"); let codec = np!("SimdVarintCodec::new", sv::SimdVarintCodec::new()); let mut model = Vec::with_capacity(n * 3); for &x in &v { model_leb(&mut model, x); }
                let e = zok!("encode_batch", if global { sv::encode_varint_batch(&v) } else { codec.encode_batch(&v) }); ensure!(e == model, "batch_bytes_vs_scalar", "encode_batch of {n} values differs from scalar codec (first diff at byte {:?})", e.iter().zip(&model).position(|(a, b)| a != b));
                let d = zok!("decode_batch", if global { sv::decode_varint_batch(&e, n) } else { codec.decode_batch(&e, n) }); ensure!(d == v, "roundtrip_mismatch", "decode_batch(encode_batch) differs (n={n})"); c.ev(2 * n as u64); Ok(()) });
        }
    }
    // ---- length-prefixed arrays / strings of 65535..65537, 70001, 131071..131073, 1 MiB + 17 through every DataOutput / DataInput back end
    for idx in 0..ctx.n(4, 32) as u64 {
        ctx.case("dout/vec", "huge_lp", idx, |c| { let items = huge_items(&mut c.rng, huge_size_set(idx)); let (m, _) = record_items(c, &items); let mut o = if c.rng.bool() { VecDataOutput::new() } else { zipora::io::to_vec_with_capacity(*c.rng.pick(&[65537usize, 131073, 196609, 262145])) }; write_items(c, &mut o, &items, 0)?; ensure!(o.as_slice() == &m[..], "bytes_vs_model", "VecDataOutput bytes differ from model"); c.ev(1); Ok(()) });
        ctx.case("dout/writer", "huge_lp", idx, |c| { let items = huge_items(&mut c.rng, huge_size_set(idx)); let (m, _) = record_items(c, &items);
            if c.rng.bool() { let mut o = WriterDataOutput::new(Vec::new()); write_items(c, &mut o, &items, 0)?; ensure!(o.into_inner() == m, "bytes_vs_model", "WriterDataOutput<Vec> bytes differ from model"); }
            else { c.tag("inner_short_writes"); let f = c.rng.fork(); let mx = *c.rng.pick(&[4096usize, 65535, 65536, 65537]); let mut o = zipora::io::to_writer(ShortWriter::new(mx, f)); write_items(c, &mut o, &items, 0)?; ensure!(o.into_inner().out == m, "bytes_vs_model", "WriterDataOutput<short writer> bytes differ from model"); } c.ev(1); Ok(()) });
        ctx.case("dout/file", "huge_lp", idx, |c| { let items = huge_items(&mut c.rng, huge_size_set(idx)); let (m, _) = record_items(c, &items); let dir = tmpd()?; let p = dir.path().join("f.bin"); let cut = c.rng.usize_below(items.len() + 1);
            { let mut o = zok!("FileDataOutput::create", FileDataOutput::create(&p)); write_items(c, &mut o, &items[..cut], 0)?; } let base = model_bytes(&items[..cut]).0.len() as u64;
            { let mut o = zok!("FileDataOutput::append", FileDataOutput::append(&p)); write_items(c, &mut o, &items[cut..], base)?; } let got = std::fs::read(&p).map_err(inconc)?; ensure!(got == m, "bytes_vs_model", "file content ({} bytes) differs from model ({} bytes)", got.len(), m.len()); c.ev(1); Ok(()) });
        ctx.case("dout/mmap", "huge_lp", idx, |c| { let items = huge_items(&mut c.rng, huge_size_set(idx)); let (m, _) = record_items(c, &items); let dir = tmpd()?; let p = dir.path().join("m.bin"); let init = *c.rng.pick(&[1usize, 4096, 65535, 65536, 65537, 131073, 196609, 262145]); c.input_str("initial_size", &init.to_string());
            let mut o = zok!("MemoryMappedOutput::create", MemoryMappedOutput::create(&p, init)); write_items(c, &mut o, &items, 0)?; ensure!(o.position() == m.len() && o.capacity() >= m.len(), "writer_position", "position()={} want {}", o.position(), m.len()); zok!("truncate", o.truncate()); drop(o);
            let got = std::fs::read(&p).map_err(inconc)?; ensure!(got == m, "bytes_vs_model", "truncated mmap file ({} bytes) differs from model ({} bytes)", got.len(), m.len()); c.ev(1); Ok(()) });
        ctx.case("din/slice", "huge_lp", idx, |c| { let items = huge_items(&mut c.rng, huge_size_set(idx)); let (m, ends) = record_items(c, &items); let mut i = SliceDataInput::new(&m); read_items(c, &mut i, &items, &ends, true, true)?; ensure!(i.remaining() == 0, "consumed_len", "slice input not at end"); Ok(()) });
        ctx.case("din/reader", "huge_lp", idx, |c| { let items = huge_items(&mut c.rng, huge_size_set(idx)); let (m, ends) = record_items(c, &items);
            if c.rng.bool() { let mut i = ReaderDataInput::new(Cursor::new(m.clone())); read_items(c, &mut i, &items, &ends, true, true)?; ensure!(i.pos() == m.len() as u64, "consumed_len", "pos()"); }
            else { c.tag("inner_short_reads"); let f = c.rng.fork(); let mx = *c.rng.pick(&[4096usize, 65535, 65536, 65537]); let mut i = zipora::io::from_reader(Chunked::new(&m, mx, f)); read_items(c, &mut i, &items, &ends, true, true)?; } Ok(()) });
        ctx.case("din/range", "huge_lp", idx, |c| { let items = huge_items(&mut c.rng, huge_size_set(idx)); let (m, ends) = record_items(c, &items); let pre = 65530 + c.rng.usize_below(12); let post = c.rng.usize_below(70000); let mut all = huge_bytes(&mut c.rng, pre, 0); all.extend_from_slice(&m); all.extend(vec![0x5a; post]); c.input_str("pre_post", &format!("{pre},{post}"));
            let mut i = zok!("RangeReader::new_and_seek", RangeReader::new_and_seek(Cursor::new(all), pre as u64, m.len() as u64)); read_items(c, &mut i, &items, &ends, true, true)?; ensure!(i.remaining() == 0 && i.is_at_end(), "consumed_len", "range reader not at end"); Ok(()) });
        ctx.case("din/range", "huge_sparse_offset", idx, |c| { // range beyond 2^32 inside a sparse file
            let items = huge_items(&mut c.rng, &HUGE_SIZES[(idx as usize % 3) * 2..(idx as usize % 3) * 2 + 2]); let (m, ends) = record_items(c, &items); let off = (1u64 << 32) + *c.rng.pick(&[0u64, 1, 65535, 70001]); c.input_str("offset", &off.to_string());
            let dir = tmpd()?; let p = dir.path().join("sparse.bin"); { let mut f = std::fs::File::create(&p).map_err(inconc)?; f.seek(SeekFrom::Start(off)).map_err(inconc)?; f.write_all(&m).map_err(inconc)?; f.write_all(&[0x77; 100]).map_err(inconc)?; }
            let f = std::fs::File::open(&p).map_err(inconc)?; let mut i = zok!("RangeReader::new_and_seek", RangeReader::new_and_seek(f, off, m.len() as u64)); read_items(c, &mut i, &items, &ends, true, true)?; ensure!(i.remaining() == 0 && i.current_position() == off + m.len() as u64, "consumed_len", "range reader at {} want {}", i.current_position(), off + m.len() as u64); Ok(()) });
        ctx.case("din/mmap", "huge_lp", idx, |c| { let items = huge_items(&mut c.rng, huge_size_set(idx)); let (m, ends) = record_items(c, &items); let dir = tmpd()?; let p = dir.path().join("i.bin"); std::fs::write(&p, &m).map_err(inconc)?;
            let mut i = zok!("MmapDataInput::open", MmapDataInput::open(&p)); ensure!(i.len() == m.len(), "len", "len()"); read_items(c, &mut i, &items, &ends, true, true)?; ensure!(i.remaining() == 0, "consumed_len", "remaining"); Ok(()) });
        ctx.case("din/mmapped_input", "huge_lp", idx, |c| { let items = huge_items(&mut c.rng, huge_size_set(idx)); let (m, ends) = record_items(c, &items); let dir = tmpd()?; let p = dir.path().join("i.bin"); std::fs::write(&p, &m).map_err(inconc)?;
            let mut i = zok!("MemoryMappedInput::from_path", MemoryMappedInput::from_path(&p)); c.note(&format!("strategy:{:?}", i.strategy()), 1); read_items(c, &mut i, &items, &ends, true, true)?; ensure!(i.remaining() == 0 && i.position() == m.len(), "consumed_len", "position {} want {}", i.position(), m.len());
            let k = c.rng.usize_below(items.len()); let start = if k == 0 { 0 } else { ends[k - 1] }; zok!("seek", i.seek(start)); let raw = zok!("read_slice", i.read_slice(m.len() - start)); ensure!(raw[..] == m[start..], "reread_mismatch", "after seek({start}) the tail differs"); c.ev(1); Ok(()) });
    }
    // ---- collections with > 65536 / > 10^5 elements, strings and arrays of the boundary sizes
    for idx in 0..ctx.n(8, 48) as u64 {
        let pick_n = |r: &mut Rng| HUGE_COUNTS[(idx as usize * 2 + r.usize_below(2)) % HUGE_COUNTS.len()];
        ctx.case("ser/vec", "huge_vec_u8", idx, |c| { let n = HUGE_SIZES[(idx as usize * 3 + c.rng.usize_below(3)) % HUGE_SIZES.len()]; let sh = c.rng.below(5) as u32; let a = huge_bytes(&mut c.rng, n, sh); let b: Vec<u8> = Arb::arb(&mut c.rng, 2); c.input("a", &a); c.set_nontrivial(true); rt_ser(c, &a, &b) });
        ctx.case("ser/vec", "huge_vec_u32", idx, |c| { let n = pick_n(&mut c.rng); let a: Vec<u32> = (0..n).map(|_| c.rng.next() as u32).collect(); let b: Vec<u32> = vec![1, 2, 3]; c.input_str("n", &n.to_string()); c.hash_more(&(a[0] as u64).to_le_bytes()); c.set_nontrivial(true); rt_ser(c, &a, &b) });
        ctx.case("ser/vec", "huge_vec_string", idx, |c| { let n = pick_n(&mut c.rng); let a: Vec<String> = (0..n).map(|i| if i % 9 == 0 { String::new() } else { format!("k{}é", c.rng.below(1000)) }).collect(); let b: Vec<String> = vec!["x".into()]; c.input_str("n", &n.to_string()); c.hash_more(a[1].as_bytes()); c.set_nontrivial(true); rt_ser(c, &a, &b) });
        ctx.case("ser/string", "huge_string", idx, |c| { let n = HUGE_SIZES[(idx as usize * 3 + c.rng.usize_below(3)) % HUGE_SIZES.len()]; let sh = c.rng.below(5) as u32; let a = huge_string(&mut c.rng, n, sh); let b = arb_string(&mut c.rng); c.input("a", a.as_bytes()); c.set_nontrivial(true); rt_ser(c, &a, &b) });
        ctx.case("ser/nested", "huge_nested", idx, |c| { let n = pick_n(&mut c.rng); let a: Vec<Option<u16>> = (0..n).map(|i| if i % 3 == 0 { None } else { Some(c.rng.next() as u16) }).collect(); let big = huge_string(&mut c.rng, 65537, 4); let m: BTreeMap<String, Vec<Option<u16>>> = [("k".to_string(), a), (big, vec![Some(1)])].into_iter().collect(); let b: BTreeMap<String, Vec<Option<u16>>> = BTreeMap::new(); c.input_str("n", &n.to_string()); c.hash_more(&c.rng.clone().next().to_le_bytes()); c.set_nontrivial(true); rt_ser(c, &m, &b) });
        ctx.case("complex/btreemap", "huge_entries", idx, |c| { let n = pick_n(&mut c.rng); let a: BTreeMap<u32, u16> = (0..n as u32).map(|i| (i.wrapping_mul(2654435761), c.rng.next() as u16)).collect(); let b: BTreeMap<u32, u16> = [(1, 2)].into_iter().collect(); c.input_str("n", &format!("{n} {}", a.len())); c.hash_more(&c.rng.clone().next().to_le_bytes()); rt_complex_unordered(c, &a, &b) });
        ctx.case("complex/btreeset", "huge_entries", idx, |c| { let n = pick_n(&mut c.rng); let a: BTreeSet<u64> = (0..n as u64).map(|i| i << (i % 40)).collect(); let b: BTreeSet<u64> = BTreeSet::new(); c.input_str("n", &format!("{n} {}", a.len())); rt_complex_unordered(c, &a, &b) });
        ctx.case("complex/hashmap", "huge_entries", idx, |c| { let n = pick_n(&mut c.rng); let a: HashMap<u32, u8> = (0..n as u32).map(|i| (i ^ 0x5555_0000, c.rng.next() as u8)).collect(); let b: HashMap<u32, u8> = HashMap::new(); c.input_str("n", &format!("{n}")); c.hash_more(&c.rng.clone().next().to_le_bytes()); rt_complex_unordered(c, &a, &b) });
        ctx.case("complex/hashset", "huge_full_u16", idx, |c| { let a: HashSet<u16> = (0..=u16::MAX).collect(); let b: HashSet<u16> = (0..c.rng.below(70000)).map(|x| x as u16).collect(); c.input_str("n", &format!("65536 {}", b.len())); rt_complex_unordered(c, &a, &b) });
        ctx.case("complex/tuple", "huge_members", idx, |c| { let n = HUGE_SIZES[(idx as usize * 3 + c.rng.usize_below(3)) % HUGE_SIZES.len()]; let sh = c.rng.below(5) as u32; let a = (7u8, huge_string(&mut c.rng, n, sh), huge_bytes(&mut c.rng, 65537, sh + 1), Some(-1i64)); let b = (0u8, String::new(), vec![], None); c.input("a1", a.1.as_bytes()); c.input("a2", &a.2); rt_complex_unordered(c, &a, &b) });
        ctx.case("complex/array", "huge_u8x65537", idx, |c| { let sh = c.rng.below(5) as u32; let v = huge_bytes(&mut c.rng, 65537, sh); let a: Box<[u8; 65537]> = v.clone().into_boxed_slice().try_into().map_err(|_| bad("__inconclusive", "boxed array".into()))?; let b: Box<[u8; 65537]> = vec![3u8; 65537].into_boxed_slice().try_into().map_err(|_| bad("__inconclusive", "boxed array".into()))?; c.input("a", &v); rt_complex_unordered::<[u8; 65537]>(c, &a, &b) });
        ctx.case("complex/option", "huge_payload", idx, |c| { let n = HUGE_SIZES[(idx as usize * 3 + c.rng.usize_below(3)) % HUGE_SIZES.len()]; let sh = c.rng.below(5) as u32; let a = Some(huge_bytes(&mut c.rng, n, sh)); let b: Option<Vec<u8>> = None; c.input("a", a.as_ref().unwrap()); rt_complex_unordered(c, &a, &b) });
        ctx.case("complex/serializer", "huge_batch", idx, |c| { type T = (u32, String, Option<Vec<i16>>); let n = pick_n(&mut c.rng); let vals: Vec<T> = (0..n).map(|i| (i as u32, if i % 5 == 0 { "é".to_string() } else { String::new() }, if i % 7 == 0 { Some(vec![i as i16]) } else { None })).collect(); c.input_str("n", &n.to_string()); c.set_nontrivial(true);
            for (nm, cfg) in [("new", ComplexTypeConfig::new()), ("compact", ComplexTypeConfig::compact())] { let s = ComplexTypeSerializer::new(cfg); let e = zok!("serialize_batch", s.serialize_batch(&vals)); let d: Vec<T> = match s.deserialize_batch(&e) { Ok(d) => d, Err(er) => return Err(bad("decode_err", format!("preset {nm} batch of {n}: {er}"))) }; ensure!(d == vals, "roundtrip_mismatch", "preset {nm} batch of {n}"); c.ev(n as u64); } Ok(()) });
        ctx.case("sptr/box", "huge_payload", idx, |c| { let n = HUGE_SIZES[(idx as usize * 3 + c.rng.usize_below(3)) % HUGE_SIZES.len()]; let sh = c.rng.below(5) as u32; let a = Box::new(huge_string(&mut c.rng, n, sh)); let b = Box::new(String::from("b")); c.input("a", a.as_bytes()); c.set_nontrivial(true); rt_sp::<String, Box<String>>(c, &a, &b, &|p, q| p == q, "Box<String>") });
        ctx.case("sptr/arc", "huge_payload", idx, |c| { let n = pick_n(&mut c.rng); let a: Arc<Vec<Option<String>>> = Arc::new((0..n).map(|i| if i % 4 == 0 { None } else { Some("ab".to_string()) }).collect()); let b: Arc<Vec<Option<String>>> = Arc::new(vec![]); c.input_str("n", &n.to_string()); c.set_nontrivial(true); rt_sp::<Vec<Option<String>>, Arc<Vec<Option<String>>>>(c, &a, &b, &|p, q| p == q, "Arc<Vec<..>>") });
        ctx.case("sptr/shared_ctx", "huge_handles", idx, |c| { // object ids beyond 16 bits: > 65536 distinct objects, > 70000 handles with aliasing
            let n = 65537 + c.rng.usize_below(600); let objs: Vec<Rc<u32>> = (0..n).map(|i| Rc::new(i as u32 ^ 0xABCD_0000)).collect(); let m = n + 5000; let detect = idx % 2 == 0; let picks: Vec<usize> = (0..m).map(|k| if k < n { k } else { c.rng.usize_below(n) }).collect(); c.input_str("handles", &format!("{n} objects {m} handles detect={detect}")); c.hash_more(&(picks[n] as u64).to_le_bytes()); c.set_nontrivial(true);
            let mut sc = if detect { SerializationContext::new() } else { SerializationContext::without_cycle_detection() }; let mut o = VecDataOutput::new(); let mut lens = Vec::with_capacity(m); for &p in &picks { zok!("serialize_with_context", objs[p].serialize_with_context(&mut o, &mut sc)); lens.push(o.len()); }
            zok!("write_bytes", o.write_bytes(&SENT)); let buf = o.into_vec(); let mut i = SliceDataInput::new(&buf); let mut dc: DeserializationContext<Rc<u32>> = DeserializationContext::new();
            for (k, &p) in picks.iter().enumerate() { let d = match <Rc<u32> as SmartPtrSerialize<u32>>::deserialize_with_context(&mut i, &mut dc) { Ok(d) => d, Err(e) => return Err(bad("decode_err", format!("handle {k} (object {p}): {e}"))) }; ensure!(*d == *objs[p], "roundtrip_mismatch", "handle {k} (object {p}) decoded {} want {}", *d, *objs[p]); ensure!(i.pos() == lens[k], "consumed_len", "after handle {k} reader at {} want {}", i.pos(), lens[k]); }
            c.ev(2 * m as u64); Ok(()) });
        ctx.case("ver/fields", "huge_skipped_field", idx, |c| { // a large field the reader must skip / decode with exact consumption
            let n = HUGE_SIZES[(idx as usize * 3 + c.rng.usize_below(3)) % HUGE_SIZES.len()]; let sh = c.rng.below(5) as u32; let big = huge_string(&mut c.rng, n, sh); let bigv: Vec<u32> = (0..70001).map(|_| c.rng.next() as u32).collect(); let visible = c.rng.bool(); c.input("big", big.as_bytes()); c.input_str("visible", &visible.to_string()); c.set_nontrivial(true);
            let wv = Version::new(1, 3, 0); let rv = if visible { wv } else { Version::new(1, 0, 0) }; let mut wm = VersionManager::new(wv); let mut rm = VersionManager::new(Version::new(9, 9, 9)); rm.set_reading_version(rv); for m in [&mut wm, &mut rm] { m.register_field("big", Version::new(1, 1, 0)); m.register_field("bigv", Version::new(1, 2, 0)); }
            let mut o = VecDataOutput::new(); zok!("serialize_field", wm.serialize_field("big", &big, &mut o)); let l1 = o.len(); zok!("serialize_field", wm.serialize_field("bigv", &bigv, &mut o)); let l2 = o.len(); zok!("serialize_field", wm.serialize_field("tail", &0xFEEDu16, &mut o)); zok!("write_bytes", o.write_bytes(&SENT)); let buf = o.into_vec(); let mut inp = SliceDataInput::new(&buf);
            let d: Option<String> = zok!("deserialize_field", rm.deserialize_field("big", &mut inp)); ensure!(d == if visible { Some(big.clone()) } else { None }, "field_value", "big field visible={visible}"); ensure!(inp.pos() == l1, "consumed_len", "after big field reader at {} want {l1}", inp.pos());
            let d: Option<Vec<u32>> = zok!("deserialize_field", rm.deserialize_field("bigv", &mut inp)); ensure!(d == if visible { Some(bigv.clone()) } else { None }, "field_value", "bigv field visible={visible}"); ensure!(inp.pos() == l2, "consumed_len", "after bigv field reader at {} want {l2}", inp.pos());
            let t: Option<u16> = zok!("deserialize_field", rm.deserialize_field("tail", &mut inp)); ensure!(t == Some(0xFEED), "field_value", "tail after huge fields = {t:?}"); c.ev(5); Ok(()) });
        ctx.case("ver/serializer", "huge_string_field", idx, |c| { let n = HUGE_SIZES[(idx as usize * 3 + c.rng.usize_below(3)) % HUGE_SIZES.len()]; let sh = c.rng.below(5) as u32; let vals = (c.rng.next() as u32, huge_string(&mut c.rng, n, sh), bnd_u64(&mut c.rng), 0xC0DEu16); c.input("b", vals.1.as_bytes()); c.set_nontrivial(true); let cfgs = ver_cfgs(); let (nm, cfg) = cfgs[c.rng.usize_below(cfgs.len())].clone(); skew(c, &vals, nm, cfg, 2, 2) });
        ctx.case("ver/trait_pair", "huge_string_field", idx, |c| { let n = HUGE_SIZES[(idx as usize * 3 + c.rng.usize_below(3)) % HUGE_SIZES.len()]; let sh = c.rng.below(5) as u32; let w = VRec::<1, 3> { a: c.rng.next() as u32, b: huge_string(&mut c.rng, n, sh), c: bnd_u64(&mut c.rng), tail: 9 }; c.input("b", w.b.as_bytes()); c.set_nontrivial(true); c.tag("versioned_trait_pair_asymmetric");
            let mut o = VecDataOutput::new(); zok!("serialize_versioned", w.serialize_versioned(&mut o)); zok!("write_bytes", o.write_bytes(&SENT)); let e = o.into_vec(); let mut i = SliceDataInput::new(&e); let d = zok!("deserialize_versioned", VRec::<1, 3>::deserialize_versioned(&mut i)); ensure!(d == w, "roundtrip_mismatch", "record with a {n}-byte string differs"); ensure!(i.pos() + SENT.len() == e.len(), "consumed_len", "consumed {} of {}", i.pos(), e.len() - SENT.len()); c.ev(2); Ok(()) });
        ctx.case("endian/convert_io", "huge_slice", idx, |c| { let n = HUGE_SIZES[(idx as usize * 3 + c.rng.usize_below(3)) % HUGE_SIZES.len()]; c.input_str("n", &n.to_string()); c.set_nontrivial(true);
            macro_rules! big_slice { ($t:ty) => {{ let orig: Vec<$t> = (0..n).map(|_| c.rng.next() as $t).collect(); for e in [Endianness::Little, Endianness::Big] { let io = EndianIO::<$t>::new(e); let mut v = orig.clone(); np!("convert_slice_to_endian", io.convert_slice_to_endian(&mut v));
                if let Some(i) = (0..n).find(|&i| v[i].to_ne_bytes() != match e { Endianness::Big => orig[i].to_be_bytes(), _ => orig[i].to_le_bytes() }) { return Err(bad("slice_to_endian", format!("{}[{i}] of {n} {e:?}", stringify!($t)))); } np!("convert_slice_from_endian", io.convert_slice_from_endian(&mut v)); ensure!(v == orig, "endian_roundtrip", "slice {} {e:?} n={n}", stringify!($t)); c.ev(2 * n as u64); } }} }
            big_slice!(u16); big_slice!(u32); big_slice!(u64); Ok(()) });
        ctx.case("endian/simd_slice", "huge_slice", idx, |c| { c.tag("simd_slice_flag_inverted"); let n = HUGE_SIZES[(idx as usize * 3 + c.rng.usize_below(3)) % HUGE_SIZES.len()]; let from_little = c.rng.bool(); c.input_str("n_from_little", &format!("{n},{from_little}")); c.set_nontrivial(true);
            let a: Vec<u16> = (0..n).map(|_| c.rng.next() as u16).collect(); let mut x = a.clone(); np!("convert_u16_slice_simd", endian::simd::convert_u16_slice_simd(&mut x, from_little)); if let Some(i) = (0..n).find(|&i| x[i] != if from_little { u16::from_le(a[i]) } else { u16::from_be(a[i]) }) { return Err(bad("simd_slice_vs_from_bytes", format!("convert_u16_slice_simd(from_little={from_little})[{i}] of {n}"))); }
            let b: Vec<u32> = (0..n).map(|_| c.rng.next() as u32).collect(); let mut y = b.clone(); np!("convert_u32_slice_simd", endian::simd::convert_u32_slice_simd(&mut y, from_little)); if let Some(i) = (0..n).find(|&i| y[i] != if from_little { u32::from_le(b[i]) } else { u32::from_be(b[i]) }) { return Err(bad("simd_slice_vs_from_bytes", format!("convert_u32_slice_simd(from_little={from_little})[{i}] of {n}"))); } c.ev(2 * n as u64); Ok(()) });
    }
    run_huge_streams(ctx);
}

fn huge_stream_data(c: &mut Case, len: usize) -> Vec<u8> { let sh = c.rng.below(5) as u32; let d = huge_bytes(&mut c.rng, len, sh); c.input_str("shape", huge_shape_name(sh)); c.input("data", &d); c.set_nontrivial(true); d }
fn run_huge_streams(ctx: &mut Ctx) {
    for idx in 0..ctx.n(4, 32) as u64 {
        // ---- buffered writer: small unflushed writes, then a write at / around the bulk threshold and far above the capacity
        for inner_kind in ["vec", "short"] {
            ctx.case("sbuf/writer", &format!("huge_bulk_after_small_{inner_kind}"), idx, |c| {
                let presets: [(&str, StreamBufferConfig); 6] = [("default", StreamBufferConfig::default()), ("performance_optimized", StreamBufferConfig::performance_optimized()), ("memory_efficient", StreamBufferConfig::memory_efficient()), ("low_latency", StreamBufferConfig::low_latency()),
                    ("cap65537", StreamBufferConfig { initial_capacity: 65537, page_alignment: 1, bulk_read_threshold: 65536, use_secure_pool: false, ..StreamBufferConfig::default() }), ("cap131073_nothr", StreamBufferConfig { initial_capacity: 131073, page_alignment: 1, bulk_read_threshold: usize::MAX / 2, use_secure_pool: false, ..StreamBufferConfig::default() })];
                c.set_nontrivial(true); let mut total_ev = 0u64;
                for (nm, cfg) in presets.iter() {
                    let thr = cfg.bulk_read_threshold; let cap = (cfg.initial_capacity + cfg.page_alignment - 1) & !(cfg.page_alignment - 1);
                    let mut bigs: Vec<usize> = vec![thr.wrapping_sub(1), thr, thr.wrapping_add(1), cap - 1, cap, cap + 1, 65535, 65536, 65537, 131073]; if idx % 2 == 1 { bigs.push((1 << 20) + 17); bigs.push((2 << 20) + 3); } bigs.retain(|&b| b >= 1 && b <= (4 << 20));
                    for &big in &bigs {
                        let small_total = 1 + c.rng.usize_below(thr.min(cap).min(5000).max(2) - 1); let mut model: Vec<u8> = Vec::with_capacity(big + small_total + 64);
                        macro_rules! go { ($w:expr, $bytes:expr) => {{
                            let mut left = small_total; while left > 0 { let k = (1 + c.rng.usize_below(97)).min(left); let chunk = c.rng.bytes(k); let mut off = 0; while off < k { let n = $w.write(&chunk[off..]).map_err(|e| io_fail("write_err", "small write", e))?; ensure!(n > 0 && n <= k - off, "write_count", "small write returned {n}"); off += n; } model.extend_from_slice(&chunk); left -= k; }
                            ensure!($w.buffer_usage() > 0 || small_total >= cap, "buffer_usage", "{nm}: small writes were not buffered");
                            let sh = c.rng.below(5) as u32; let chunk = huge_bytes(&mut c.rng, big, sh); let mut off = 0; let mut spins = 0; while off < big { let n = match catch(|| $w.write(&chunk[off..])) { Ok(Ok(n)) => n, Ok(Err(e)) => return Err(io_fail("write_err", &format!("{nm}: write({}) after {small_total} buffered bytes", big - off), e)), Err(p) => return Err(bad(&p.class(), format!("write panicked at {}: {}", p.loc, p.msg))) }; ensure!(n <= big - off && (n > 0 || { spins += 1; spins < 3 }), "write_count", "{nm}: write({}) returned {n}", big - off); off += n; } model.extend_from_slice(&chunk);
                            let tl = 1 + c.rng.usize_below(9); let tail = c.rng.bytes(tl); for &b in &tail { zok!("write_byte_fast", $w.write_byte_fast(b)); } model.extend_from_slice(&tail);
                            let inner = $w.into_inner().map_err(|e| io_fail("write_err", "into_inner", e))?; let got: Vec<u8> = $bytes(inner);
                            ensure!(got == model, "stream_bytes", "{nm}: {small_total} small bytes then write({big}) (threshold {thr}, capacity {cap}): inner received {} bytes, wrote {}; first diff {:?}", got.len(), model.len(), got.iter().zip(&model).position(|(a, b)| a != b)); total_ev += 1;
                        }} }
                        if inner_kind == "vec" { let mut w = zok!("with_config", StreamBufferedWriter::with_config(Vec::new(), cfg.clone())); go!(w, |v: Vec<u8>| v); }
                        else { let f = c.rng.fork(); let mx = *c.rng.pick(&[4095usize, 65535, 65536, 65537, 200000]); let mut w = zok!("with_config", StreamBufferedWriter::with_config(ShortWriter::new(mx, f), cfg.clone())); go!(w, |s: ShortWriter| s.out); }
                    }
                }
                if inner_kind == "short" { c.tag("inner_short_writes"); } c.input_str("idx", &idx.to_string()); c.ev(total_ev); Ok(()) });
            ctx.case("zc/writer", &format!("huge_bulk_after_small_{inner_kind}"), idx, |c| { c.set_nontrivial(true); if inner_kind == "short" { c.tag("inner_short_writes"); } c.input_str("idx", &idx.to_string()); let mut total_ev = 0u64;
                for &cap in &[65536usize, 65537, 131073, 196609, 262145] { let half = cap / 2;
                    let mut bigs = vec![half - 1, half, half + 1, cap - 1, cap, cap + 1, 65535, 131073]; if idx % 2 == 1 { bigs.push((1 << 20) + 17); }
                    for &big in &bigs { let small_total = 1 + c.rng.usize_below(3000); let mut model: Vec<u8> = Vec::with_capacity(big + small_total + 64);
                        macro_rules! go { ($w:expr, $bytes:expr) => {{
                            let mut left = small_total; while left > 0 { let k = (1 + c.rng.usize_below(97)).min(left); let chunk = c.rng.bytes(k); let mut off = 0; while off < k { let n = $w.write(&chunk[off..]).map_err(|e| io_fail("write_err", "small write", e))?; ensure!(n > 0 && n <= k - off, "write_count", "small write returned {n}"); off += n; } model.extend_from_slice(&chunk); left -= k; }
                            if c.rng.bool() { let k = 1 + c.rng.usize_below(200); let fill = c.rng.bytes(k); let some = zok!("zc_write", $w.zc_write(k).map(|o| o.map(|s| s.copy_from_slice(&fill)))); ensure!(some.is_some(), "zc_write_none", "zc_write({k}) = None with capacity {cap}"); zok!("zc_commit", $w.zc_commit(k)); model.extend_from_slice(&fill); }
                            let sh = c.rng.below(5) as u32; let chunk = huge_bytes(&mut c.rng, big, sh); let mut off = 0; let mut spins = 0; while off < big { let n = match catch(|| $w.write(&chunk[off..])) { Ok(Ok(n)) => n, Ok(Err(e)) => return Err(io_fail("write_err", &format!("write({}) capacity {cap}", big - off), e)), Err(p) => return Err(bad(&p.class(), format!("write panicked at {}: {}", p.loc, p.msg))) }; ensure!(n <= big - off && (n > 0 || { spins += 1; spins < 3 }), "write_count", "write({}) returned {n}", big - off); off += n; } model.extend_from_slice(&chunk);
                            let tl = 1 + c.rng.usize_below(9); let tail = c.rng.bytes(tl); let mut off = 0; while off < tail.len() { off += $w.write(&tail[off..]).map_err(|e| io_fail("write_err", "tail write", e))?; } model.extend_from_slice(&tail);
                            let inner = $w.into_inner().map_err(|e| io_fail("write_err", "into_inner", e))?; let got: Vec<u8> = $bytes(inner);
                            ensure!(got == model, "stream_bytes", "capacity {cap}: {small_total}+ small bytes then write({big}): inner received {} bytes, wrote {}; first diff {:?}", got.len(), model.len(), got.iter().zip(&model).position(|(a, b)| a != b)); total_ev += 1;
                        }} }
                        if inner_kind == "vec" { let mut w = zok!("with_capacity", ZeroCopyWriter::with_capacity(Vec::new(), cap)); go!(w, |v: Vec<u8>| v); }
                        else { let f = c.rng.fork(); let mx = *c.rng.pick(&[4095usize, 65535, 65536, 65537, 200000]); let mut w = zok!("with_capacity", ZeroCopyWriter::with_capacity(ShortWriter::new(mx, f), cap)); go!(w, |s: ShortWriter| s.out); }
                    } }
                c.ev(total_ev); Ok(()) });
        }
        // ---- buffered / zero-copy readers over > 1 MiB streams with requests around 2^16 / 2^17 and buffer growth over several steps
        for inner_kind in ["cursor", "chunked"] {
            ctx.case("sbuf/reader", &format!("huge_stream_{inner_kind}"), idx, |c| { let len = if idx % 2 == 0 { (1 << 20) + 17 } else { (2 << 20) + 3 }; let data = huge_stream_data(c, len); let which = c.rng.below(6);
                let cfg = match which { 0 => StreamBufferConfig::default(), 1 => StreamBufferConfig::performance_optimized(), 2 => StreamBufferConfig::memory_efficient(), 3 => StreamBufferConfig::low_latency(),
                    4 => StreamBufferConfig { initial_capacity: 65537, max_capacity: 262145, page_alignment: 1, use_secure_pool: false, bulk_read_threshold: 131073, ..StreamBufferConfig::default() }, _ => StreamBufferConfig { initial_capacity: 4096, max_capacity: 4 << 20, growth_factor: 1.5, page_alignment: 1, use_secure_pool: false, bulk_read_threshold: usize::MAX / 2, ..StreamBufferConfig::default() } };
                let cap = (cfg.initial_capacity + cfg.page_alignment - 1) & !(cfg.page_alignment - 1); c.input_str("cfg", &format!("{cfg:?}"));
                let mut ops: Vec<ROp> = vec![ROp::Read(65535), ROp::Byte, ROp::Slice(65536), ROp::Read(65537), ROp::Ensure(70001), ROp::Simd(70001), ROp::Fill(65537), ROp::Slice(131071), ROp::Read(131072), ROp::Ensure(131073), ROp::Slice(131073), ROp::Simd(131073), ROp::Ensure(262145), ROp::Read(3), ROp::Slice(262145), ROp::Ensure(600000), ROp::Fill(10)];
                c.rng.shuffle(&mut ops); for _ in 0..24 { ops.push(ROp::Read(150000 + c.rng.usize_below(9))); } c.input_str("ops", &format!("{:?}", &ops[..17]));
                let biggest_read = 150008usize.max(1 + cap % 7); if biggest_read > cfg.max_capacity.max(cap) { c.tag("read_req_gt_max_capacity"); }
                let mut p = 0;
                if inner_kind == "cursor" { let mut rd = zok!("with_config", StreamBufferedReader::with_config(Cursor::new(data.clone()), cfg.clone())); let mut ns = |_: &mut StreamBufferedReader<Cursor<Vec<u8>>>, _: SeekFrom| -> std::io::Result<u64> { Ok(0) }; drive_sbuf(c, &mut rd, &data, &ops, cap, &mut p, &mut ns)?; ensure!(rd.total_read() == data.len() as u64, "total_read", "total_read {} want {}", rd.total_read(), data.len()); }
                else { c.tag("inner_short_reads"); let f = c.rng.fork(); let mx = *c.rng.pick(&[4095usize, 65535, 65536, 65537, 200000]); let mut rd = zok!("with_config", StreamBufferedReader::with_config(Chunked::new(&data, mx, f), cfg.clone())); let mut ns = |_: &mut StreamBufferedReader<Chunked>, _: SeekFrom| -> std::io::Result<u64> { Ok(0) }; drive_sbuf(c, &mut rd, &data, &ops, cap, &mut p, &mut ns)?; }
                Ok(()) });
            ctx.case("zc/reader", &format!("huge_stream_{inner_kind}"), idx, |c| { let len = if idx % 2 == 0 { (1 << 20) + 17 } else { (2 << 20) + 3 }; let data = huge_stream_data(c, len); let cap = *c.rng.pick(&[65536usize, 65537, 131073, 196609, 262145]); let bounded = c.rng.bool(); c.input_str("cap", &cap.to_string());
                let cl = |s: usize| if bounded { s.min(cap) } else { s };
                let mut ops: Vec<ZOp> = vec![ZOp::Read(65535), ZOp::Opt(cl(65537)), ZOp::Peek(65535), ZOp::Zc(65536, 65536), ZOp::Zc(cap, 1), ZOp::Skip(70001), ZOp::Ensure(cap), ZOp::Zc(cap - 1, cap - 1), ZOp::Peek(cl(131073)), ZOp::Read(cap / 2 - 1), ZOp::Read(cap / 2), ZOp::Read(cap / 2 + 1), ZOp::Opt(cap), ZOp::Zc(cl(cap + 1), 0), ZOp::Skip(131073), ZOp::Read(3), ZOp::Zc(32768, 32767)];
                c.rng.shuffle(&mut ops); for _ in 0..24 { ops.push(ZOp::Read(150000 + c.rng.usize_below(9))); } c.input_str("ops", &format!("{:?}", &ops[..17]));
                if ops.iter().any(|o| match o { ZOp::Opt(s) | ZOp::Peek(s) | ZOp::Ensure(s) | ZOp::Zc(s, _) => *s > cap, _ => false }) { c.tag("zc_request_gt_capacity"); }
                if inner_kind == "cursor" { let mut rd = zok!("with_capacity", ZeroCopyReader::with_capacity(Cursor::new(data.clone()), cap)); drive_zc(c, &mut rd, &data, &ops, cap) }
                else { c.tag("inner_short_reads"); let f = c.rng.fork(); let mx = *c.rng.pick(&[4095usize, 65535, 65536, 65537, 200000]); let mut rd = zok!("with_capacity", ZeroCopyReader::with_capacity(Chunked::new(&data, mx, f), cap)); drive_zc(c, &mut rd, &data, &ops, cap) } });
        }
        // ---- positions beyond 2^16 and 2^32 (sparse file) through the buffered reader's Seek
        ctx.case("sbuf/reader_seek", "huge_sparse_positions", idx, |c| { let plen = 70001 + c.rng.usize_below(70000); let payload = huge_stream_data(c, plen); let off = (1u64 << 32) + *c.rng.pick(&[0u64, 1, 65535, 65537]); c.input_str("offset", &off.to_string()); c.tag("seek_current_after_read");
            let dir = tmpd()?; let p = dir.path().join("sparse.bin"); { let mut f = std::fs::File::create(&p).map_err(inconc)?; f.seek(SeekFrom::Start(off)).map_err(inconc)?; f.write_all(&payload).map_err(inconc)?; }
            let total = off + plen as u64; let at = |pos: u64, i: usize| -> u8 { let q = pos + i as u64; if q >= off && q < total { payload[(q - off) as usize] } else { 0 } };
            let f = std::fs::File::open(&p).map_err(inconc)?; let mut rd = zok!("new", if c.rng.bool() { StreamBufferedReader::new(f) } else { StreamBufferedReader::low_latency(f) }); let mut pos: u64 = 0;
            for oi in 0..40 { let (sf, want): (SeekFrom, u64) = match c.rng.below(5) { 0 => { let x = off + c.rng.below(plen as u64); (SeekFrom::Start(x), x) } 1 => { let k = c.rng.below(plen as u64 + 1); (SeekFrom::End(-(k as i64)), total - k) } 2 => { let x = off - c.rng.below(70000); (SeekFrom::Start(x), x) }
                    3 => { let d = c.rng.below(140000) as i64 - 70000; let d = d.max(-(pos as i64)); (SeekFrom::Current(d), (pos as i64 + d) as u64) } _ => { let x = *c.rng.pick(&[65535u64, 65536, 65537, (1 << 32) - 1]); (SeekFrom::Start(x), x) } };
                let g = rd.seek(sf).map_err(|e| io_fail("seek_err", &format!("op {oi} seek({sf:?})"), e))?; ensure!(g == want, if matches!(sf, SeekFrom::Current(_)) { "seek_current_result" } else { "seek_result" }, "op {oi} seek({sf:?}) at logical offset {pos} returned {g} want {want}"); pos = want;
                for _ in 0..(1 + c.rng.usize_below(3)) { let s = *c.rng.pick(&[1usize, 7, 4096, 65535, 65536, 65537, 70001]); let mut buf = vec![0u8; s]; let n = rd.read(&mut buf).map_err(|e| io_fail("read_err", &format!("op {oi} read({s}) at {pos}"), e))?; let avail = total.saturating_sub(pos);
                    ensure!(n as u64 <= avail && (n > 0 || avail == 0), "premature_eof", "op {oi} read({s}) at offset {pos} of {total} returned {n}"); if let Some(i) = (0..n).find(|&i| buf[i] != at(pos, i)) { return Err(bad("stream_bytes", format!("op {oi} read({s}) at file offset {pos}: byte {i} differs"))); } pos += n as u64; c.ev(1); } }
            Ok(()) });
        // ---- ranges: starts / lengths above 2^16, sparse offsets above 2^32, multi-range with long ranges
        ctx.case("range/reader", "huge_range", idx, |c| { let data = huge_stream_data(c, (1 << 20) + 17); let l = data.len(); let start = *c.rng.pick(&[65535usize, 65536, 65537, 131073]); let len = *c.rng.pick(&[65535usize, 65536, 65537, 131073, 700001]); c.input_str("range", &format!("start={start} len={len}")); let model = &data[start..(start + len).min(l)];
            let mut rd = zok!("new_and_seek", RangeReader::new_and_seek(Cursor::new(data.clone()), start as u64, len as u64)); let mut q = 0usize;
            for oi in 0..60 { if c.rng.chance(1, 4) { let x = c.rng.usize_below(len + 3); let g = rd.seek(SeekFrom::Start(x as u64)).map_err(|e| io_fail("seek_err", "seek", e))?; ensure!(g == x.min(len) as u64, "seek_result", "op {oi} seek(Start({x})) = {g}"); q = x.min(len); }
                let s = *c.rng.pick(&[1usize, 4096, 65535, 65536, 65537, 70001]); let mut buf = vec![0u8; s]; let n = rd.read(&mut buf).map_err(|e| io_fail("read_err", "read", e))?; ensure!(n <= s.min(len - q), "read_overrun", "op {oi} read({s}) at {q} returned {n}");
                if n == 0 { ensure!(q >= model.len(), "premature_eof", "op {oi} read({s}) returned 0 at range offset {q} of {}", model.len()); } else { ensure!(buf[..n] == model[q..q + n], "stream_bytes", "op {oi} read({s}) at range offset {q}: bytes differ"); } q += n; ensure!(rd.current_position() == (start + q) as u64 && rd.remaining() == (len - q) as u64, "range_position", "op {oi} accounting"); c.ev(1); }
            Ok(()) });
        ctx.case("range/reader", "huge_sparse_offset", idx, |c| { let plen = 131073 + c.rng.usize_below(1000); let payload = huge_stream_data(c, plen); let off = (1u64 << 32) + *c.rng.pick(&[0u64, 65535, 65537]); let pre = c.rng.usize_below(2000); let len = plen - pre - c.rng.usize_below(2000); c.input_str("range", &format!("off={off} pre={pre} len={len}"));
            let dir = tmpd()?; let p = dir.path().join("sparse.bin"); { let mut f = std::fs::File::create(&p).map_err(inconc)?; f.seek(SeekFrom::Start(off)).map_err(inconc)?; f.write_all(&payload).map_err(inconc)?; }
            let f = std::fs::File::open(&p).map_err(inconc)?; let start = off + pre as u64; let mut rd = zok!("range::reader", zipora::io::range::reader(f, start, len as u64)); let model = &payload[pre..pre + len]; let mut q = 0usize;
            for oi in 0..40 { if c.rng.chance(1, 3) { let x = c.rng.usize_below(len + 3); let g = rd.seek(SeekFrom::Start(x as u64)).map_err(|e| io_fail("seek_err", "seek", e))?; ensure!(g == x.min(len) as u64, "seek_result", "op {oi} seek(Start({x})) = {g}"); q = x.min(len); }
                let s = *c.rng.pick(&[1usize, 4096, 65535, 65537]); let mut buf = vec![0u8; s]; let n = rd.read(&mut buf).map_err(|e| io_fail("read_err", "read", e))?; ensure!(n <= s.min(len - q), "read_overrun", "op {oi} read({s}) at {q} returned {n}");
                if n == 0 { ensure!(q >= len, "premature_eof", "op {oi} read({s}) returned 0 at range offset {q} of {len}"); } else { ensure!(buf[..n] == model[q..q + n], "stream_bytes", "op {oi} read({s}) at range offset {q} (file offset {}): bytes differ", start + q as u64); } q += n; ensure!(rd.current_position() == start + q as u64, "range_position", "op {oi}: current_position {} want {}", rd.current_position(), start + q as u64); c.ev(1); }
            Ok(()) });
        ctx.case("range/writer", "huge_range", idx, |c| { let bl = 262145 + c.rng.usize_below(100); let bg = huge_stream_data(c, bl); let l = bg.len(); let start = *c.rng.pick(&[65535usize, 65536, 65537]); let len = *c.rng.pick(&[65535usize, 65536, 65537, 131073, 250000]); c.input_str("range", &format!("start={start} len={len}")); let mut model = bg.clone(); let _ = l;
            let mut w = zok!("RangeWriter::new_and_seek", RangeWriter::new_and_seek(Cursor::new(bg.clone()), start as u64, len as u64)); let mut q = 0usize; let mut total = 0usize;
            for oi in 0..12 { if c.rng.chance(1, 5) { let x = c.rng.usize_below(len + 3); let g = w.seek(SeekFrom::Start(x as u64)).map_err(|e| io_fail("seek_err", "seek", e))?; ensure!(g == x.min(len) as u64, "seek_result", "op {oi} seek(Start({x})) = {g}"); q = x.min(len); }
                let s = *c.rng.pick(&[1usize, 4096, 65535, 65536, 65537, 70001]); let chunk = c.rng.bytes(s); let n = w.write(&chunk).map_err(|e| io_fail("write_err", "write", e))?; ensure!(n == s.min(len - q), "write_count", "op {oi} write({s}) at range offset {q} of {len} accepted {n}");
                if n > 0 { if model.len() < start + q + n { model.resize(start + q + n, 0); } model[start + q..start + q + n].copy_from_slice(&chunk[..n]); } q += n; total += n; ensure!(w.bytes_written() == total as u64 && w.remaining() == (len - q) as u64, "range_position", "op {oi} accounting"); c.ev(1); }
            let got = w.into_inner().into_inner(); ensure!(got == model, "stream_bytes", "inner content after ranged writes differs from model"); Ok(()) });
        ctx.case("range/multi", "huge_ranges", idx, |c| { let data = huge_stream_data(c, (1 << 20) + 17); let l = data.len(); let k = 2 + c.rng.usize_below(4); let ranges: Vec<(u64, u64)> = (0..k).map(|_| { let a = c.rng.usize_below(l - 140000); let b = a + *c.rng.pick(&[0usize, 65535, 65536, 65537, 131073]); (a as u64, b as u64) }).collect(); c.input_str("ranges", &format!("{ranges:?}"));
            let want: Vec<u8> = ranges.iter().flat_map(|&(a, b)| data[a as usize..b as usize].to_vec()).collect(); let mut rd = MultiRangeReader::new(Cursor::new(data.clone()), ranges.clone()); ensure!(rd.total_length() == want.len() as u64, "range_meta", "total_length"); let mut got = Vec::with_capacity(want.len());
            loop { let s = *c.rng.pick(&[4096usize, 65535, 65536, 65537, 70001]); let mut buf = vec![0u8; s]; let n = rd.read(&mut buf).map_err(|e| io_fail("read_err", "MultiRangeReader::read", e))?; if n == 0 { break; } got.extend_from_slice(&buf[..n]); c.ev(1); ensure!(got.len() <= want.len(), "read_overrun", "produced more than the ranges contain"); }
            ensure!(got == want, "stream_bytes", "multi-range stream ({} bytes) differs from concatenated ranges ({} bytes)", got.len(), want.len()); Ok(()) });
        // ---- zero-copy buffer with capacities just above powers of two, vectored I/O with > 64 KiB buffers, mmap reader over > 1 MiB
        ctx.case("zc/buffer", "huge_capacity", idx, |c| { let cap = *c.rng.pick(&[65537usize, 131073, 196609, 262145]); c.input_str("cap", &cap.to_string()); c.set_nontrivial(true); let mut b = zok!("ZeroCopyBuffer::new", ZeroCopyBuffer::new(cap)); let mut q: VecDeque<u8> = VecDeque::new(); let (mut rp, mut wp) = (0usize, 0usize); let mut sink: Vec<u8> = Vec::new(); let mut sink_model: Vec<u8> = Vec::new();
            for oi in 0..40 { let big = *c.rng.pick(&[1usize, 4096, 65535, 65536, 65537, 70001]);
                match c.rng.below(6) { 0 | 1 => { let len = big.min(cap - wp + c.rng.usize_below(2)); let fill = c.rng.bytes(len); let got = zok!("zc_write", b.zc_write(len).map(|o| o.map(|s| s.copy_from_slice(&fill)))); ensure!(got.is_some() == (cap - wp >= len), "zc_write_some", "op {oi} zc_write({len})"); if got.is_some() { zok!("zc_commit", b.zc_commit(len)); wp += len; q.extend(&fill); } }
                    2 => { let len = big.min(q.len() + c.rng.usize_below(2)); let got = zok!("zc_read", b.zc_read(len).map(|o| o.map(|s| s.to_vec()))); ensure!(got.is_some() == (q.len() >= len), "zc_read_some", "op {oi} zc_read({len})"); if let Some(v) = got { ensure!(v.iter().copied().eq(q.iter().take(len).copied()), "stream_bytes", "op {oi} zc_read({len}) differs from FIFO model"); zok!("zc_advance", b.zc_advance(len)); rp += len; q.drain(..len); } }
                    3 => { np!("compact", b.compact()); if rp > 0 { wp -= rp; rp = 0; } }
                    4 => { let src = c.rng.bytes(big); let mut cur = Cursor::new(src.clone()); if wp == cap && rp > 0 { wp -= rp; rp = 0; } let want = big.min(cap - wp); let got = zok!("fill_from", b.fill_from(&mut cur)); ensure!(got == want, "fill_from", "op {oi} fill_from returned {got} want {want}"); wp += got; q.extend(&src[..got]); }
                    _ => { let got = zok!("drain_to", b.drain_to(&mut sink)); ensure!(got == q.len(), "drain_to", "op {oi} drain_to returned {got} want {}", q.len()); sink_model.extend(q.drain(..)); rp = wp; ensure!(sink == sink_model, "stream_bytes", "drained bytes differ from FIFO model"); } }
                ensure!(b.readable_slice().iter().copied().eq(q.iter().copied()), "stream_bytes", "op {oi}: readable_slice differs from FIFO model"); ensure!(b.available() == wp - rp && b.write_available() == cap - wp && b.read_position() == rp && b.write_position() == wp, "buffer_accounting", "op {oi}: positions ({},{}) want ({rp},{wp})", b.read_position(), b.write_position()); c.ev(2); }
            Ok(()) });
        for inner_kind in ["cursor", "chunked"] {
            ctx.case("zc/vectored", &format!("huge_buffers_{inner_kind}"), idx, |c| { let dl = 300000 + c.rng.usize_below(100); let data = huge_stream_data(c, dl); let chunked = inner_kind == "chunked"; if chunked { c.tag("inner_short_transfers"); } let mx = *c.rng.pick(&[4095usize, 65535, 65536, 65537]); let sizes: Vec<usize> = vec![65535, 1, 65536, 0, 65537, 70001]; c.input_str("max_transfer", &mx.to_string());
                let mut bufs: Vec<Vec<u8>> = sizes.iter().map(|&s| vec![0xEEu8; s]).collect(); let total = { let mut sl: Vec<IoSliceMut> = bufs.iter_mut().map(|b| IoSliceMut::new(b)).collect(); let f = c.rng.fork();
                    let r = if chunked { let mut rd = Chunked::new(&data, mx, f); VectoredIO::read_vectored(&mut rd, &mut sl) } else { let mut rd = Cursor::new(data.clone()); VectoredIO::read_vectored(&mut rd, &mut sl) }; r.map_err(|e| io_fail("read_err", "read_vectored", e))? };
                let flat: Vec<u8> = bufs.concat(); ensure!(total <= flat.len() && total > 0, "premature_eof", "read_vectored returned {total}"); ensure!(flat[..total] == data[..total], "vectored_read_layout", "read_vectored returned {total}: buffers are not a prefix of the stream"); if !chunked { ensure!(total == flat.len(), "vectored_read_layout", "full reads available but only {total} of {} filled", flat.len()); } c.ev(1);
                let src: Vec<Vec<u8>> = sizes.iter().map(|&s| c.rng.bytes(s)).collect(); let sl: Vec<IoSlice> = src.iter().map(|b| IoSlice::new(b)).collect(); let flat: Vec<u8> = src.concat(); let f = c.rng.fork();
                let (n, out) = if chunked { let mut w = ShortWriter::new(mx, f); let n = VectoredIO::write_vectored(&mut w, &sl).map_err(|e| io_fail("write_err", "write_vectored", e))?; (n, w.out) } else { let mut w: Vec<u8> = Vec::new(); let n = VectoredIO::write_vectored(&mut w, &sl).map_err(|e| io_fail("write_err", "write_vectored", e))?; (n, w) };
                ensure!(n == out.len() && n <= flat.len(), "write_count", "write_vectored returned {n}, inner received {}", out.len()); ensure!(out[..] == flat[..n], "vectored_write_layout", "write_vectored returned {n}: inner did not receive a prefix of the buffers"); c.ev(1); Ok(()) });
        }
        ctx.case("zc/mmap_reader", "huge_file", idx, |c| { let data = huge_stream_data(c, (1 << 20) + 17); let l = data.len(); let dir = tmpd()?; let p = dir.path().join("z.bin"); std::fs::write(&p, &data).map_err(inconc)?; let f = std::fs::File::open(&p).map_err(inconc)?; let mut rd = zok!("MmapZeroCopyReader::new", MmapZeroCopyReader::new(f)); ensure!(rd.len() == l && rd.as_slice() == &data[..], "stream_bytes", "mapped slice differs"); let mut pos = 0usize;
            for oi in 0..40 { let avail = l - pos; let s = *c.rng.pick(&[1usize, 65535, 65536, 65537, 131073]); match c.rng.below(3) { 0 => { let mut buf = vec![0u8; s]; let n = rd.read(&mut buf).map_err(|e| io_fail("read_err", "read", e))?; ensure!(n == s.min(avail) && buf[..n] == data[pos..pos + n], "stream_bytes", "op {oi} read({s}) at {pos} returned {n}"); pos += n; }
                    1 => { let got = zok!("zc_read", rd.zc_read(s).map(|o| o.map(|x| x.to_vec()))); ensure!(got.is_some() == (s <= avail), "zc_read_some", "op {oi} zc_read({s}) with {avail} left"); if let Some(v) = got { ensure!(v[..] == data[pos..pos + s], "stream_bytes", "op {oi} zc_read differs"); zok!("zc_advance", rd.zc_advance(s)); pos += s; } }
                    _ => { let x = c.rng.usize_below(l + 1); zok!("set_position", rd.set_position(x)); pos = x; } } c.ev(1); }
            Ok(()) });
    }
}

pub fn run(ctx: &mut Ctx) {
    if cfg!(miri) { run_zero_copy(ctx); return; } // Miri sample: the unsafe buffer code of zero_copy.rs only (no files, no cpuid)
    run_varint(ctx);
    run_dataio(ctx);
    run_endian(ctx);
    run_complex(ctx);
    run_smart_ptr(ctx);
    run_versioning(ctx);
    run_range(ctx);
    run_sbuf(ctx);
    run_zero_copy(ctx);
    run_huge(ctx);
    run_gaps(ctx);
}

// ---------------------------------------------------------------------------------------------
// gap_* families: shortcut constructors, accessors, access to the inner reader / writer, peek / zero-copy reads of the
// adaptive mmap input, MemoryMappedOutput::open + seek, incremental multi-range construction, buffered-data validators,
// migrations. Oracles: the byte models above, or equivalence with an API the families above already check.
// ---------------------------------------------------------------------------------------------
use zipora::io::{AccessPattern, InputStrategy, MigrationRegistry};

fn crc32c_model(data: &[u8]) -> u32 { let mut crc = !0u32; for &b in data { crc ^= b as u32; for _ in 0..8 { crc = if crc & 1 != 0 { (crc >> 1) ^ 0x82F6_3B78 } else { crc >> 1 }; } } !crc }
/// text-like stream: valid UTF-8 with multi-byte characters (buffer boundaries split characters), sometimes one bad byte, sometimes random
fn utf8ish_data(c: &mut Case, max: usize) -> Vec<u8> {
    let kind = c.rng.below(4); let target = c.rng.usize_below(max + 1);
    let mut d: Vec<u8> = if kind == 0 { c.rng.bytes(target) } else { let mut s = String::new(); while s.len() < target { s.push_str(&arb_string(&mut c.rng)); s.push('é'); } s.into_bytes() };
    if kind == 1 && !d.is_empty() { let k = c.rng.usize_below(d.len()); d[k] = 0xFF; }
    c.input("data", &d); c.set_nontrivial(d.len() >= 2); d
}
fn same_out<T: PartialEq>(a: &Result<ZR<T>, crate::ctx::PanicInfo>, b: &Result<ZR<T>, crate::ctx::PanicInfo>) -> bool { match (a, b) { (Ok(Ok(x)), Ok(Ok(y))) => x == y, (Ok(Err(_)), Ok(Err(_))) => true, (Err(_), Err(_)) => true, _ => false } }
fn out_kind<T>(a: &Result<ZR<T>, crate::ctx::PanicInfo>) -> &'static str { match a { Ok(Ok(_)) => "Ok", Ok(Err(_)) => "Err", Err(_) => "panic" } }
fn read_one<I: DataInput>(inp: &mut I, it: &Item) -> Result<Item, Fail> {
    Ok(match it { Item::U8(_) => Item::U8(zok!("read_u8", inp.read_u8())), Item::U16(_) => Item::U16(zok!("read_u16", inp.read_u16())), Item::U32(_) => Item::U32(zok!("read_u32", inp.read_u32())), Item::U64(_) => Item::U64(zok!("read_u64", inp.read_u64())),
        Item::Var(_) => Item::Var(zok!("read_var_int", inp.read_var_int())), Item::Bytes(b) => Item::Bytes(zok!("read_vec", inp.read_vec(b.len()))), Item::LpBytes(_) => Item::LpBytes(zok!("read_length_prefixed_bytes", inp.read_length_prefixed_bytes())),
        Item::Str(s) => Item::Str(zok!("read_string", inp.read_string(s.len()))), Item::LpStr(_) => Item::LpStr(zok!("read_length_prefixed_string", inp.read_length_prefixed_string())) })
}
macro_rules! endian_ctor { ($c:expr, $t:ty, $raw:expr) => {{ let v: $t = $raw as $t; const N: usize = std::mem::size_of::<$t>();
    for (io, e, want) in [(EndianIO::<$t>::little_endian(), Endianness::Little, v.to_le_bytes()), (EndianIO::<$t>::big_endian(), Endianness::Big, v.to_be_bytes()), (EndianIO::<$t>::native_endian(), Endianness::Native, v.to_ne_bytes())] {
        ensure!(io.endianness() == e, "endianness", "EndianIO<{}> shortcut constructor for {e:?} reports {:?}", stringify!($t), io.endianness());
        let mut b = [0x55u8; N]; zok!("write_to_bytes", io.write_to_bytes(v, &mut b)); ensure!(b == want, "endian_io_bytes", "EndianIO<{}> {e:?} shortcut wrote {} want {}", stringify!($t), gen::hex(&b), gen::hex(&want));
        let full = EndianIO::<$t>::new(e); let mut b2 = [0x55u8; N]; zok!("write_to_bytes", full.write_to_bytes(v, &mut b2)); ensure!(b2 == b, "shortcut_vs_new", "EndianIO<{}> {e:?}: shortcut and new() write different bytes", stringify!($t));
        ensure!(zok!("read_from_bytes", io.read_from_bytes(&b)) == v, "endian_roundtrip", "EndianIO<{}> {e:?} shortcut read(write({v}))", stringify!($t)); $c.ev(4);
    } }} }

fn run_gaps(ctx: &mut Ctx) {
    // ---- shortcut constructors: byte-identical to new(strategy) --------------------------------------------------
    for idx in 0..ctx.n(150, 5000) as u64 {
        ctx.case("vs/ctor_shortcuts", "gap_equiv", idx, |c| {
            let fam = c.rng.below(SEQ_FAMS as u64) as u32; let v = seq_u64(&mut c.rng, fam); let w = seq_i64(&mut c.rng, fam); c.input("u64s", &u64s_bytes(&v)); c.input("i64s", &i64s_bytes(&w)); c.set_nontrivial(!v.is_empty() || !w.is_empty());
            let pairs: Vec<(&str, VarIntEncoder, VarIntStrategy)> = vec![("leb128", VarIntEncoder::leb128(), VarIntStrategy::Leb128), ("zigzag", VarIntEncoder::zigzag(), VarIntStrategy::Zigzag), ("delta", VarIntEncoder::delta(), VarIntStrategy::Delta),
                ("group_varint", VarIntEncoder::group_varint(), VarIntStrategy::GroupVarint), ("prefix_free", VarIntEncoder::prefix_free(), VarIntStrategy::PrefixFree), ("compact", VarIntEncoder::compact(), VarIntStrategy::Compact), ("simd", VarIntEncoder::simd(), VarIntStrategy::Simd)];
            for (nm, sc, st) in &pairs {
                ensure!(sc.strategy() == *st, "strategy", "VarIntEncoder::{nm}().strategy() = {:?}", sc.strategy());
                let full = VarIntEncoder::new(*st);
                macro_rules! eqv { ($what:expr, $a:expr, $b:expr) => {{ let (a, b) = (catch(|| $a), catch(|| $b)); ensure!(same_out(&a, &b), "shortcut_vs_new", "VarIntEncoder::{nm}() and new({st:?}) disagree on {}: {} vs {}", $what, out_kind(&a), out_kind(&b)); c.ev(1); a }} }
                if let Ok(Ok(bytes)) = eqv!("encode_u64_sequence", sc.encode_u64_sequence(&v), full.encode_u64_sequence(&v)) { eqv!("decode_u64_sequence", sc.decode_u64_sequence(&bytes), full.decode_u64_sequence(&bytes)); }
                if let Ok(Ok(bytes)) = eqv!("encode_i64_sequence", sc.encode_i64_sequence(&w), full.encode_i64_sequence(&w)) { eqv!("decode_i64_sequence", sc.decode_i64_sequence(&bytes), full.decode_i64_sequence(&bytes)); }
                for &x in v.iter().take(4) { if let Ok(Ok(bytes)) = eqv!("encode_u64", sc.encode_u64(x), full.encode_u64(x)) { eqv!("decode_u64", sc.decode_u64(&bytes), full.decode_u64(&bytes)); } }
                for &x in w.iter().take(4) { if let Ok(Ok(bytes)) = eqv!("encode_i64", sc.encode_i64(x), full.encode_i64(x)) { eqv!("decode_i64", sc.decode_i64(&bytes), full.decode_i64(&bytes)); } }
            }
            Ok(()) });
        ctx.case("endian/convert_io", "gap_ctor_shortcuts", idx, |c| { let raw = bnd_u64(&mut c.rng); let raw2 = c.rng.next(); c.input("raw", &[raw.to_le_bytes(), raw2.to_le_bytes()].concat()); c.set_nontrivial(true);
            endian_ctor!(c, u8, raw); endian_ctor!(c, u16, raw); endian_ctor!(c, i16, raw2); endian_ctor!(c, u32, raw); endian_ctor!(c, i32, raw2); endian_ctor!(c, u64, raw); endian_ctor!(c, i64, raw2); endian_ctor!(c, usize, raw); endian_ctor!(c, u128, ((raw as u128) << 64) | raw2 as u128);
            Ok(()) });
    }
    // ---- DataInput / DataOutput accessors -------------------------------------------------------------------------
    for idx in 0..ctx.n(250, 8000) as u64 {
        ctx.case("din/slice", "gap_remaining_slice", idx, |c| { let items = gen_items(&mut c.rng); let (m, ends) = record_items(c, &items);
            let mut i = SliceDataInput::new(&m); ensure!(i.remaining_slice() == &m[..], "remaining_slice", "before the first read");
            for (k, it) in items.iter().enumerate() { let got = read_one(&mut i, it)?; ensure!(got == *it, "roundtrip_mismatch", "item {k}: read {} want {}", abbrev_item(&got), abbrev_item(it));
                ensure!(i.remaining_slice() == &m[ends[k]..], "remaining_slice", "after item {k} ({}) remaining_slice() has {} bytes, the rest of the stream has {}", abbrev_item(it), i.remaining_slice().len(), m.len() - ends[k]); c.ev(2); }
            Ok(()) });
        ctx.case("din/reader", "gap_into_inner", idx, |c| { let items = gen_items(&mut c.rng); let (m, ends) = record_items(c, &items); let cut = c.rng.usize_below(items.len() + 1); let used = if cut == 0 { 0 } else { ends[cut - 1] }; c.input_str("cut", &cut.to_string());
            // the reader hands back the inner stream positioned exactly after the decoded values: a second reader continues with the next value
            if c.rng.bool() { let mut i = ReaderDataInput::new(Cursor::new(m.clone())); for (k, it) in items[..cut].iter().enumerate() { let got = read_one(&mut i, it)?; ensure!(got == *it, "roundtrip_mismatch", "item {k}"); }
                ensure!(i.pos() == used as u64, "consumed_len", "pos() {} want {used}", i.pos()); let cur = i.into_inner(); ensure!(cur.position() == used as u64, "consumed_len", "into_inner(): inner reader at {} after {cut} items ending at {used}", cur.position());
                let mut j = ReaderDataInput::new(cur); for (k, it) in items[cut..].iter().enumerate() { let got = read_one(&mut j, it)?; ensure!(got == *it, "concat_mismatch", "item {} read through a second reader over into_inner(): {} want {}", cut + k, abbrev_item(&got), abbrev_item(it)); c.ev(1); }
                ensure!(j.pos() as usize == m.len() - used, "consumed_len", "second reader pos()"); }
            else { c.tag("inner_short_reads"); let mx = 1 + c.rng.usize_below(6); let f = c.rng.fork(); let mut i = zipora::io::from_reader(Chunked::new(&m, mx, f)); for (k, it) in items[..cut].iter().enumerate() { let got = read_one(&mut i, it)?; ensure!(got == *it, "roundtrip_mismatch", "item {k}"); }
                let ch = i.into_inner(); ensure!(ch.pos == used, "consumed_len", "into_inner(): inner reader consumed {} bytes for {cut} items ending at {used}", ch.pos);
                let mut j = ReaderDataInput::new(ch); for (k, it) in items[cut..].iter().enumerate() { let got = read_one(&mut j, it)?; ensure!(got == *it, "concat_mismatch", "item {} through a second reader: {} want {}", cut + k, abbrev_item(&got), abbrev_item(it)); c.ev(1); } }
            c.ev(1); Ok(()) });
        ctx.case("dout/vec", "gap_clear_reserve", idx, |c| { let items = gen_items(&mut c.rng); let (_, _) = record_items(c, &items); let cut = c.rng.usize_below(items.len() + 1); let res = *c.rng.pick(&[0usize, 1, 7, 64, 5000]); c.input_str("cut_reserve", &format!("{cut},{res}"));
            let (a, b) = items.split_at(cut); let (ma, mb) = (model_bytes(a).0, model_bytes(b).0);
            let mut o = zipora::io::to_vec(); ensure!(o.is_empty() && o.len() == 0, "is_empty", "new output not empty"); write_items(c, &mut o, a, 0)?; ensure!(o.is_empty() == ma.is_empty() && o.as_slice() == &ma[..], "bytes_vs_model", "first part: is_empty()={} len {} want {}", o.is_empty(), o.len(), ma.len());
            o.clear(); ensure!(o.is_empty() && o.len() == 0 && o.as_slice().is_empty(), "clear", "after clear(): len {}", o.len()); o.reserve(res); ensure!(o.is_empty(), "reserve", "reserve({res}) changed the content");
            write_items(c, &mut o, b, 0)?; ensure!(o.as_slice() == &mb[..] && o.is_empty() == mb.is_empty(), "bytes_vs_model", "after clear() the output holds {} bytes, the second part encodes to {}", o.len(), mb.len());
            o.reserve(res); ensure!(o.as_slice() == &mb[..], "reserve", "reserve({res}) changed the content"); let v = o.into_vec(); ensure!(v == mb, "bytes_vs_model", "into_vec"); c.ev(5); Ok(()) });
        ctx.case("dout/writer", "gap_bytes_written", idx, |c| { let items = gen_items(&mut c.rng); let (m, ends) = record_items(c, &items);
            let mut o = WriterDataOutput::new(Vec::new()); ensure!(o.bytes_written() == 0u64, "writer_bytes_written", "fresh writer");
            for k in 0..items.len() { let base = if k == 0 { 0 } else { ends[k - 1] }; write_items(c, &mut o, &items[k..k + 1], base as u64)?; let bw: u64 = WriterDataOutput::bytes_written(&o); ensure!(bw == ends[k] as u64, "writer_bytes_written", "after item {k} bytes_written()={bw} want {}", ends[k]); c.ev(1); }
            let v = o.into_inner(); ensure!(v == m, "bytes_vs_model", "WriterDataOutput<Vec> bytes differ from model"); Ok(()) });
    }
    for idx in 0..ctx.n(100, 2500) as u64 {
        ctx.case("dout/file", "gap_to_file_sync_all", idx, |c| { let items = gen_items(&mut c.rng); let (m, _) = record_items(c, &items); let dir = tmpd()?; let p = dir.path().join("f.bin");
            if c.rng.bool() { let pl = 1 + c.rng.usize_below(5000); std::fs::write(&p, c.rng.bytes(pl)).map_err(inconc)?; c.note("precreated_longer_file", 1); } // create truncates
            let mut o = zok!("to_file", zipora::io::to_file(&p)); ensure!(FileDataOutput::bytes_written(&o) == 0, "writer_bytes_written", "fresh file output reports {}", FileDataOutput::bytes_written(&o));
            write_items(c, &mut o, &items, 0)?; zok!("sync_all", o.sync_all()); ensure!(FileDataOutput::bytes_written(&o) == m.len() as u64, "writer_bytes_written", "bytes_written() {} want {}", FileDataOutput::bytes_written(&o), m.len());
            let got = std::fs::read(&p).map_err(inconc)?; ensure!(got == m, "bytes_vs_model", "file content ({} bytes) differs from model ({} bytes)", got.len(), m.len()); drop(o); c.ev(2); Ok(()) });
        ctx.case("din/mmap", "gap_accessors", idx, |c| { let items = gen_items(&mut c.rng); let (m, ends) = record_items(c, &items); let dir = tmpd()?; let p = dir.path().join("i.bin"); std::fs::write(&p, &m).map_err(inconc)?;
            let mut i = match catch(|| MmapDataInput::open(&p)) { Ok(Ok(i)) => i, Ok(Err(e)) => { if m.is_empty() { c.note("ctor_refused_empty", 1); c.set_nontrivial(false); return Ok(()); } return Err(bad("MmapDataInput::open_err", format!("{e}"))); } Err(pn) => return Err(bad(&pn.class(), format!("open panicked at {}: {}", pn.loc, pn.msg))) };
            ensure!(i.is_empty() == m.is_empty() && i.len() == m.len() && i.pos() == 0, "len", "is_empty()/len()/pos() of a fresh input"); ensure!(i.as_slice() == &m[..] && i.remaining_slice() == &m[..], "stream_bytes", "as_slice()/remaining_slice() of a fresh input differ from the file");
            for (k, it) in items.iter().enumerate() { let got = read_one(&mut i, it)?; ensure!(got == *it, "roundtrip_mismatch", "item {k}: read {} want {}", abbrev_item(&got), abbrev_item(it));
                ensure!(i.pos() == ends[k], "consumed_len", "after item {k} pos()={} want {}", i.pos(), ends[k]); ensure!(i.remaining_slice() == &m[ends[k]..] && i.as_slice() == &m[..], "remaining_slice", "after item {k}: remaining_slice() has {} bytes want {}", i.remaining_slice().len(), m.len() - ends[k]); c.ev(3); }
            Ok(()) });
        // ---- adaptive mmap input: peek / zero-copy reads, pattern constructor --------------------------------------
        ctx.case("din/mmapped_input", "gap_peek_zero_copy", idx, |c| {
            let l = if idx % 20 == 7 { (1 << 20) - 2 + c.rng.usize_below(5000) } else { match c.rng.below(8) { 0 => 0, 1 => c.rng.usize_below(64), 2 => 4096 - c.rng.usize_below(3), 3 => 4097 + c.rng.usize_below(3), 4 | 5 => 4097 + c.rng.usize_below(12000), 6 => 5000 + c.rng.usize_below(5000), _ => c.rng.usize_below(4097) } };
            let k = c.rng.below(gen::BYTE_KINDS as u64) as u32; let data = gen::bytes_kind(&mut c.rng, k, l); c.input("data", &data); c.set_nontrivial(l >= 2);
            let pat = *c.rng.pick(&[AccessPattern::Sequential, AccessPattern::Random, AccessPattern::Mixed, AccessPattern::Unknown]); c.input_str("pattern", &format!("{pat:?}"));
            let dir = tmpd()?; let p = dir.path().join("i.bin"); std::fs::write(&p, &data).map_err(inconc)?;
            let mut i = zok!("from_path_with_pattern", MemoryMappedInput::from_path_with_pattern(&p, pat)); let st = i.strategy(); c.note(&format!("strategy:{st:?}"), 1); let buffered = st == InputStrategy::BufferedIO;
            ensure!(i.len() == l && i.is_empty() == (l == 0) && i.remaining() == l && i.position() == 0, "len", "len()/is_empty()/remaining() of a fresh input over {l} bytes");
            let mut pos = 0usize; let nops = 4 + c.rng.usize_below(30); let ops: Vec<(u64, u64)> = (0..nops).map(|_| (c.rng.below(7), c.rng.next())).collect(); c.input_str("ops", &format!("{:?}", ops.iter().map(|o| o.0).collect::<Vec<_>>()));
            for (oi, &(op, r)) in ops.iter().enumerate() { let avail = l - pos; let len = if r % 5 == 0 { avail } else { ((r >> 8) as usize % (avail + 1)).min(1 + (r >> 40) as usize % 300) };
                match op {
                    0 | 1 => { let zc = op == 1; let got = match catch(|| if zc { i.peek_slice_zero_copy(len).map(|s| s.to_vec()) } else { i.peek_slice(len) }) { Ok(g) => g, Err(pn) => return Err(bad(&pn.class(), format!("peek panicked at {}: {}", pn.loc, pn.msg))) };
                        match got { Ok(v) => { ensure!(v[..] == data[pos..pos + len], "stream_bytes", "op {oi} peek_slice{}({len}) at {pos}: bytes differ from the file", if zc { "_zero_copy" } else { "" }); c.note("peek_ok", 1); }
                            Err(e) => { ensure!(buffered, "peek_err", "op {oi} peek of {len} in-bounds bytes at {pos} of {l} failed under {st:?}: {e}"); c.note("peek_refused_buffered_io", 1); } }
                        ensure!(i.position() == pos, "peek_moved_position", "op {oi}: peek moved the position from {pos} to {}", i.position()); }
                    2 | 3 => { let got = match catch(|| i.read_slice_zero_copy(len).map(|s| s.to_vec())) { Ok(g) => g, Err(pn) => return Err(bad(&pn.class(), format!("read_slice_zero_copy panicked at {}: {}", pn.loc, pn.msg))) };
                        match got { Ok(v) => { ensure!(v[..] == data[pos..pos + len], "stream_bytes", "op {oi} read_slice_zero_copy({len}) at {pos}: bytes differ from the file"); pos += len; c.note("zero_copy_ok", 1); }
                            Err(e) => { ensure!(buffered, "read_err", "op {oi} read_slice_zero_copy({len}) in bounds at {pos} of {l} failed under {st:?}: {e}"); c.note("zero_copy_refused_buffered_io", 1); } } }
                    4 => { let v = zok!("read_slice", i.read_slice(len)); ensure!(v[..] == data[pos..pos + len], "stream_bytes", "op {oi} read_slice({len}) at {pos} differs"); pos += len; }
                    5 => { if avail > 0 { let b = zok!("read_u8", i.read_u8()); ensure!(b == data[pos], "stream_bytes", "op {oi} read_u8 at {pos}"); pos += 1; } }
                    _ => { let x = (r >> 8) as usize % (l + 1); zok!("seek", i.seek(x)); pos = x; }
                }
                ensure!(i.position() == pos && i.remaining() == l - pos, "consumed_len", "op {oi} (kind {op}): position {} want {pos}, remaining {} want {}", i.position(), i.remaining(), l - pos); c.ev(2);
            }
            Ok(()) });
        // ---- MemoryMappedOutput::open: patch an existing file in place -----------------------------------------------
        ctx.case("dout/mmap", "gap_open_seek", idx, |c| { let items = gen_items(&mut c.rng); let (m, _) = record_items(c, &items);
            let bl = match c.rng.below(4) { 0 => *c.rng.pick(&[1usize, 2, 16, 100, 4096]), 1 => m.len() + 1 + c.rng.usize_below(200), 2 => (m.len() / 2).max(1), _ => 1 + c.rng.usize_below(6000) }; let bg = c.rng.bytes(bl); let pos = if c.rng.chance(1, 4) { bl } else { c.rng.usize_below(bl + 1) }; c.input_str("bg_len_pos", &format!("{bl},{pos}"));
            let dir = tmpd()?; let p = dir.path().join("m.bin"); std::fs::write(&p, &bg).map_err(inconc)?;
            let mut o = match catch(|| MemoryMappedOutput::open(&p)) { Ok(Ok(o)) => o, Ok(Err(e)) => { c.note("ctor_refused", 1); c.log(format!("open refused: {e}")); c.set_nontrivial(false); return Ok(()); } Err(pn) => return Err(bad(&pn.class(), format!("open panicked at {}: {}", pn.loc, pn.msg))) };
            ensure!(o.capacity() == bl && o.position() == 0 && o.remaining() == bl, "open_meta", "open() of a {bl}-byte file: capacity {} position {} remaining {}", o.capacity(), o.position(), o.remaining());
            zok!("seek", o.seek(pos)); ensure!(o.position() == pos && o.remaining() == bl - pos, "writer_position", "after seek({pos}): position {} remaining {}", o.position(), o.remaining());
            write_items(c, &mut o, &items, pos as u64)?; let endp = pos + m.len();
            ensure!(o.position() == endp && o.capacity() >= endp.max(bl) && o.remaining() == o.capacity() - endp, "writer_position", "after the script: position {} want {endp}, capacity {}, remaining {}", o.position(), o.capacity(), o.remaining());
            let mut model = bg.clone(); if model.len() < endp { model.resize(endp, 0); } model[pos..endp].copy_from_slice(&m);
            let p2 = c.rng.usize_below(endp + 1); let pl = c.rng.usize_below(9); let patch = c.rng.bytes(pl); zok!("seek", o.seek(p2)); zok!("write_bytes", o.write_bytes(&patch)); let e2 = p2 + patch.len(); if model.len() < e2 { model.resize(e2, 0); } model[p2..e2].copy_from_slice(&patch);
            ensure!(o.position() == e2, "writer_position", "after seek({p2}) + {} bytes: position {}", patch.len(), o.position()); zok!("flush", DataOutput::flush(&mut o));
            let trunc = c.rng.bool() && e2 > 0; if trunc { zok!("truncate", o.truncate()); ensure!(o.capacity() == e2 && o.remaining() == 0, "capacity", "after truncate at {e2}: capacity {}", o.capacity()); } drop(o);
            let got = std::fs::read(&p).map_err(inconc)?;
            if trunc { ensure!(got[..] == model[..e2], "bytes_vs_model", "truncated file ({} bytes) differs from the patched model prefix ({e2} bytes)", got.len()); }
            else { ensure!(got.len() >= model.len() && got[..model.len()] == model[..], "bytes_vs_model", "file ({} bytes) differs from background patched at {pos} (+{}) and {p2} (+{}); first diff {:?}", got.len(), m.len(), patch.len(), got.iter().zip(&model).position(|(a, b)| a != b)); }
            c.ev(3); Ok(()) });
    }
    // ---- range wrappers: inner access, end-position constructor, incremental multi-range -----------------------------
    for idx in 0..ctx.n(300, 10000) as u64 {
        ctx.case("range/reader", "gap_inner_access", idx, |c| { let data = stream_data(c, 3000); let l = data.len(); let start = c.rng.usize_below(l + 1); let len = c.rng.usize_below(l - start + 1); c.input_str("range", &format!("start={start} len={len}"));
            let mut rd = zok!("new_and_seek", RangeReader::new_and_seek(Cursor::new(data.clone()), start as u64, len as u64));
            ensure!(rd.end_position() == (start + len) as u64 && rd.start_position() == start as u64, "range_meta", "end_position {} want {}", rd.end_position(), start + len); let mut q = 0usize;
            for _ in 0..(1 + c.rng.usize_below(12)) { let s = req_size(&mut c.rng, 16); let mut buf = vec![0u8; s]; let n = match catch(|| rd.read(&mut buf)) { Ok(Ok(n)) => n, Ok(Err(e)) => return Err(io_fail("read_err", "RangeReader::read", e)), Err(p) => return Err(bad(&p.class(), format!("read panicked at {}: {}", p.loc, p.msg))) };
                ensure!(n <= s && n <= len - q, "read_overrun", "read({s}) at range offset {q} returned {n}"); if n == 0 { ensure!(q >= len, "premature_eof", "read({s}) returned 0 at range offset {q} of {len}"); } ensure!(buf[..n] == data[start + q..start + q + n], "stream_bytes", "read({s}) at range offset {q}: bytes differ"); q += n;
                // an unbuffered range view consumes exactly the bytes it returns from the inner reader
                ensure!(rd.get_ref().position() == (start + q) as u64 && rd.get_mut().position() == (start + q) as u64, "inner_position", "inner reader at {} after {q} range bytes from {start}", rd.get_ref().position());
                let pr = rd.progress(); let want = if len == 0 { 1.0 } else { q as f64 / len as f64 }; ensure!((pr - want).abs() < 1e-9, "progress", "progress() {pr} want {want}"); c.ev(3); }
            let mut inner = rd.into_inner(); ensure!(inner.position() == (start + q) as u64, "inner_position", "into_inner(): inner at {} want {}", inner.position(), start + q);
            let mut rest = Vec::new(); inner.read_to_end(&mut rest).map_err(|e| io_fail("read_err", "inner read_to_end", e))?; ensure!(rest[..] == data[start + q..], "stream_bytes", "bytes left in the inner reader after into_inner() are not the rest of the stream"); c.ev(1); Ok(()) });
        ctx.case("range/writer", "gap_with_range", idx, |c| { let bg = stream_data(c, 1500); let l = bg.len(); let start = c.rng.usize_below(l + 1); let len = c.rng.usize_below(l + 10); c.input_str("range", &format!("start={start} len={len}"));
            let mut cur = Cursor::new(bg.clone()); cur.set_position(start as u64); let mut w = RangeWriter::with_range(cur, start as u64, (start + len) as u64); let mut model = bg.clone(); let mut q = 0usize;
            ensure!(w.start_position() == start as u64 && w.end_position() == (start + len) as u64 && w.range_length() == len as u64 && w.remaining() == len as u64 && w.current_position() == start as u64, "range_meta", "with_range({start},{}): start {} end {} length {}", start + len, w.start_position(), w.end_position(), w.range_length());
            for _ in 0..(1 + c.rng.usize_below(15)) { let s = req_size(&mut c.rng, 16); let chunk = c.rng.bytes(s);
                let n = match catch(|| w.write(&chunk)) { Ok(Ok(n)) => n, Ok(Err(e)) => return Err(io_fail("write_err", "RangeWriter::write", e)), Err(p) => return Err(bad(&p.class(), format!("write panicked at {}: {}", p.loc, p.msg))) };
                ensure!(n == s.min(len - q), "write_count", "write({s}) at range offset {q} of {len} accepted {n}"); if n > 0 { if model.len() < start + q + n { model.resize(start + q + n, 0); } model[start + q..start + q + n].copy_from_slice(&chunk[..n]); } q += n;
                ensure!(w.get_ref().get_ref()[..] == model[..], "stream_bytes", "inner content (get_ref) after {q} range bytes differs from model"); ensure!(w.get_mut().position() == (start + q) as u64, "inner_position", "inner writer at {} want {}", w.get_mut().position(), start + q);
                ensure!(w.end_position() == (start + len) as u64 && w.range_length() == len as u64 && w.start_position() == start as u64, "range_meta", "range bounds changed by a write"); c.ev(3); }
            let got = w.into_inner().into_inner(); ensure!(got == model, "stream_bytes", "inner content after ranged writes differs from model (len {} vs {})", got.len(), model.len()); Ok(()) });
        ctx.case("range/multi", "gap_add_range", idx, |c| { let data = stream_data(c, 2000); let l = data.len(); let k = c.rng.usize_below(8);
            let ranges: Vec<(u64, u64)> = (0..k).map(|_| { let a = c.rng.usize_below(l + 1); let b = if c.rng.chance(1, 6) { a } else { a + c.rng.usize_below(l - a + 1) }; (a as u64, b as u64) }).collect(); let k1 = c.rng.usize_below(k + 1); let k2 = k1 + c.rng.usize_below(k - k1 + 1); c.input_str("ranges", &format!("{ranges:?} ctor {k1} before_read {k2}"));
            // ranges given to new(), added before the first read, and added while reading: one stream == the concatenation in order
            let want: Vec<u8> = ranges.iter().flat_map(|&(a, b)| data[a as usize..b as usize].to_vec()).collect();
            let mut rd = MultiRangeReader::new(Cursor::new(data.clone()), ranges[..k1].to_vec()); for &(a, b) in &ranges[k1..k2] { rd.add_range(a, b); }
            ensure!(rd.current_range() == ranges[..k2].first().copied(), "range_meta", "current_range() before the first read = {:?}", rd.current_range());
            ensure!(rd.total_length() == ranges[..k2].iter().map(|r| r.1 - r.0).sum::<u64>(), "range_meta", "total_length after add_range");
            let mut got = Vec::new(); let first_phase = c.rng.usize_below(6); let mut hit_eof = false;
            for _ in 0..first_phase { let s = req_size(&mut c.rng, 8); let mut buf = vec![0u8; s]; let n = match catch(|| rd.read(&mut buf)) { Ok(Ok(n)) => n, Ok(Err(e)) => return Err(io_fail("read_err", "MultiRangeReader::read", e)), Err(p) => return Err(bad(&p.class(), format!("read panicked at {}: {}", p.loc, p.msg))) }; if n == 0 { hit_eof = true; break; } got.extend_from_slice(&buf[..n]); }
            if hit_eof && k2 < k { c.note("ranges_added_after_eof", 1); } for &(a, b) in &ranges[k2..] { rd.add_range(a, b); } ensure!(rd.total_length() == want.len() as u64, "range_meta", "total_length {} want {}", rd.total_length(), want.len());
            if let Some(cr) = rd.current_range() { ensure!(ranges.contains(&cr), "range_meta", "current_range() {cr:?} is not one of the ranges"); }
            let mut guard = 0; loop { let s = req_size(&mut c.rng, 8); let mut buf = vec![0u8; s]; let n = match catch(|| rd.read(&mut buf)) { Ok(Ok(n)) => n, Ok(Err(e)) => return Err(io_fail("read_err", "MultiRangeReader::read", e)), Err(p) => return Err(bad(&p.class(), format!("read panicked at {}: {}", p.loc, p.msg))) };
                if n == 0 { break; } got.extend_from_slice(&buf[..n]); guard += 1; c.ev(1); ensure!(got.len() <= want.len() && guard < 100000, "read_overrun", "produced more than the ranges contain"); }
            ensure!(got == want, "stream_bytes", "stream over incrementally added ranges ({} bytes) differs from the concatenated ranges ({} bytes) {ranges:?} (ctor {k1}, before first read {k2})", got.len(), want.len()); Ok(()) });
    }
    // ---- buffered / zero-copy wrappers: default constructors, inner access, validators over the buffered bytes -------
    for idx in 0..ctx.n(400, 12000) as u64 {
        ctx.case("sbuf/reader", "gap_inner_access", idx, |c| { let data = utf8ish_data(c, 5000); let l = data.len();
            let b = *c.rng.pick(&[4usize, 8, 16, 17, 64, 255, 256, 1000, 1024, 4096]); let dflt = c.rng.chance(1, 5); c.input_str("cap", &if dflt { "default".to_string() } else { b.to_string() });
            let cfg = StreamBufferConfig { initial_capacity: b, max_capacity: 2 << 20, growth_factor: 2.0, page_alignment: 1, use_secure_pool: false, bulk_read_threshold: *c.rng.pick(&[8192usize, b, 1]), enable_readahead: c.rng.bool(), readahead_multiplier: 2 };
            let mut rd = zok!("StreamBufferedReader ctor", if dflt { StreamBufferedReader::new(Cursor::new(data.clone())) } else { StreamBufferedReader::with_config(Cursor::new(data.clone()), cfg) }); let cap = rd.capacity(); let mut p = 0usize;
            for oi in 0..(1 + c.rng.usize_below(14)) { let s = req_size(&mut c.rng, cap.min(600)).min(2 * cap + 8); let mut buf = vec![0u8; s]; let n = match catch(|| rd.read(&mut buf)) { Ok(Ok(n)) => n, Ok(Err(e)) => return Err(io_fail("read_err", &format!("op {oi} read({s}) at {p}"), e)), Err(pn) => return Err(bad(&pn.class(), format!("read panicked at {}: {}", pn.loc, pn.msg))) };
                ensure!(n <= s && n <= l - p && buf[..n] == data[p..p + n], "stream_bytes", "op {oi} read({s}) at {p} returned {n}: bytes differ"); if n == 0 { ensure!(p == l, "premature_eof", "op {oi} read({s}) returned 0 at {p} of {l}"); } p += n;
                let bu = rd.buffer_usage(); ensure!(rd.has_data_in_buffer() == (bu > 0), "has_data_in_buffer", "has_data_in_buffer()={} buffer_usage()={bu}", rd.has_data_in_buffer());
                // bytes handed out + bytes still buffered == bytes taken from the inner reader
                ensure!(rd.get_ref().position() == (p + bu) as u64 && rd.get_mut().position() == (p + bu) as u64 && rd.total_read() == (p + bu) as u64, "inner_position", "op {oi}: inner reader at {}, delivered {p} + buffered {bu}, total_read {}", rd.get_ref().position(), rd.total_read());
                let v = zok!("validate_utf8_buffered", rd.validate_utf8_buffered()); let buffered: Vec<u8> = if bu > 0 { rd.fill_buf().map_err(|e| io_fail("read_err", "fill_buf", e))?.to_vec() } else { Vec::new() };
                ensure!(buffered.len() == bu && buffered[..] == data[p..p + bu], "stream_bytes", "op {oi}: buffered bytes are not the next {bu} bytes of the stream"); let want = std::str::from_utf8(&buffered).is_ok(); if !want { c.note("buffered_invalid_utf8", 1); }
                ensure!(v == want, "validate_utf8_buffered", "op {oi}: validate_utf8_buffered()={v} but the {bu} buffered bytes at {p} are{} valid UTF-8", if want { "" } else { " not" }); c.ev(4); }
            let bu = rd.buffer_usage(); let mut inner = rd.into_inner(); ensure!(inner.position() == (p + bu) as u64, "inner_position", "into_inner(): inner at {} want {}", inner.position(), p + bu);
            let mut rest = Vec::new(); inner.read_to_end(&mut rest).map_err(|e| io_fail("read_err", "inner read_to_end", e))?; ensure!(rest[..] == data[p + bu..], "stream_bytes", "bytes left in the inner reader after into_inner() are not the rest of the stream"); Ok(()) });
        ctx.case("sbuf/writer", "gap_inner_access", idx, |c| { c.set_nontrivial(true); let dflt = c.rng.chance(1, 3); let b = *c.rng.pick(&[4usize, 8, 16, 17, 64, 255, 256, 1000, 4096]); let nops = 2 + c.rng.usize_below(30); c.input_str("cap_nops", &format!("{},{nops}", if dflt { "default".to_string() } else { b.to_string() }));
            let cfg = StreamBufferConfig { initial_capacity: b, max_capacity: 2 << 20, growth_factor: 2.0, page_alignment: 1, use_secure_pool: false, bulk_read_threshold: 8192, enable_readahead: false, readahead_multiplier: 2 };
            let mut w = zok!("StreamBufferedWriter ctor", if dflt { StreamBufferedWriter::new(Vec::new()) } else { StreamBufferedWriter::with_config(Vec::new(), cfg) }); let cap = w.capacity(); let mut model: Vec<u8> = Vec::new();
            for oi in 0..nops { match c.rng.below(8) {
                    0 => { let x = c.rng.next() as u8; zok!("write_byte_fast", w.write_byte_fast(x)); model.push(x); }
                    1 => { if let Err(e) = w.flush() { return Err(io_fail("write_err", "flush", e)); } ensure!(w.get_ref()[..] == model[..], "flush_accounting", "op {oi}: after flush the inner writer holds {} of {} bytes", w.get_ref().len(), model.len()); }
                    _ => { let s = req_size(&mut c.rng, cap.min(600)); let chunk = c.rng.bytes(s); if let Err(e) = w.write_all(&chunk) { return Err(io_fail("write_err", &format!("op {oi} write_all({s})"), e)); } model.extend_from_slice(&chunk); } }
                // bytes that reached the inner writer + bytes still buffered == bytes written, in order
                let il = w.get_ref().len(); ensure!(il <= model.len() && w.get_ref()[..] == model[..il], "stream_bytes", "op {oi}: the {il} bytes in the inner writer (get_ref) are not a prefix of the {} bytes written", model.len());
                ensure!(il + w.buffer_usage() == model.len() && w.get_mut().len() == il && w.total_written() == il as u64, "inner_position", "op {oi}: inner {il} + buffered {} != written {} (total_written {})", w.buffer_usage(), model.len(), w.total_written()); c.ev(2); }
            let got = match w.into_inner() { Ok(v) => v, Err(e) => return Err(io_fail("write_err", "into_inner", e)) }; ensure!(got == model, "stream_bytes", "bytes reaching the inner writer ({}) differ from the bytes written ({})", got.len(), model.len()); Ok(()) });
        ctx.case("zc/reader", "gap_inner_access", idx, |c| { let data = utf8ish_data(c, 5000); let l = data.len(); let dflt = c.rng.chance(1, 5); let cap = if dflt { 65536 } else { *c.rng.pick(&[4usize, 8, 16, 17, 64, 255, 256, 1000, 4096]) }; c.input_str("cap", &if dflt { "default".to_string() } else { cap.to_string() });
            let mut rd = zok!("ZeroCopyReader ctor", if dflt { ZeroCopyReader::new(Cursor::new(data.clone())) } else { ZeroCopyReader::with_capacity(Cursor::new(data.clone()), cap) }); let mut p = 0usize;
            for oi in 0..(1 + c.rng.usize_below(14)) { let avail = l - p;
                match c.rng.below(4) {
                    0 | 1 => { let s = req_size(&mut c.rng, cap.min(600)); let mut buf = vec![0u8; s]; let n = match catch(|| rd.read(&mut buf)) { Ok(Ok(n)) => n, Ok(Err(e)) => return Err(io_fail("read_err", &format!("op {oi} read({s}) at {p}"), e)), Err(pn) => return Err(bad(&pn.class(), format!("read panicked at {}: {}", pn.loc, pn.msg))) };
                        ensure!(n <= s && n <= avail && buf[..n] == data[p..p + n], "stream_bytes", "op {oi} read({s}) at {p} returned {n}: bytes differ"); if n == 0 { ensure!(avail == 0, "premature_eof", "op {oi} read({s}) returned 0 at {p} of {l}"); } p += n; }
                    2 => { let s = req_size(&mut c.rng, cap.min(600)).min(cap); let v = zok!("peek", rd.peek(s).map(|x| x.to_vec())); ensure!(v.len() == s.min(avail) && v[..] == data[p..p + v.len()], "stream_bytes", "op {oi} peek({s}) at {p} with {avail} left returned {} bytes", v.len()); }
                    _ => { let k = c.rng.usize_below(avail.min(2 * cap + 20) + 1); zok!("skip_bytes", rd.skip_bytes(k)); p += k; } }
                let za = rd.zc_available(); ensure!(rd.get_ref().position() == (p + za) as u64 && rd.get_mut().position() == (p + za) as u64, "inner_position", "op {oi}: inner reader at {}, delivered {p} + buffered {za}", rd.get_ref().position());
                let buffered = zok!("peek", rd.peek(za).map(|x| x.to_vec())); ensure!(buffered.len() == za && buffered[..] == data[p..p + za], "stream_bytes", "op {oi}: the {za} buffered bytes are not the next bytes of the stream"); ensure!(rd.zc_available() == za, "zc_available", "peek(zc_available()) refilled the buffer");
                let want = std::str::from_utf8(&buffered).is_ok(); if !want { c.note("buffered_invalid_utf8", 1); } let v = zok!("validate_utf8_buffer", rd.validate_utf8_buffer()); ensure!(v == want, "validate_utf8_buffer", "op {oi}: validate_utf8_buffer()={v} but the {za} buffered bytes at {p} are{} valid UTF-8", if want { "" } else { " not" });
                let crc = zok!("checksum_buffer_crc32c", rd.checksum_buffer_crc32c()); let both = zok!("validate_and_checksum", rd.validate_and_checksum()); ensure!(both == (v, crc), "validate_and_checksum", "op {oi}: validate_and_checksum()={both:?} but the separate calls give ({v}, {crc:#x})");
                // which CRC-32C convention (and the value for an empty buffer) is not pinned down by the docs: recorded only
                if za > 0 { c.note(if crc == crc32c_model(&buffered) { "crc32c_is_castagnoli" } else { "crc32c_other_convention" }, 1); } c.ev(5); }
            let za = rd.zc_available(); let mut inner = rd.into_inner(); ensure!(inner.position() == (p + za) as u64, "inner_position", "into_inner(): inner at {} want {}", inner.position(), p + za);
            let mut rest = Vec::new(); inner.read_to_end(&mut rest).map_err(|e| io_fail("read_err", "inner read_to_end", e))?; ensure!(rest[..] == data[p + za..], "stream_bytes", "bytes left in the inner reader after into_inner() are not the rest of the stream"); Ok(()) });
        ctx.case("zc/writer", "gap_inner_access", idx, |c| { c.set_nontrivial(true); let dflt = c.rng.chance(1, 3); let cap = if dflt { 65536 } else { *c.rng.pick(&[4usize, 8, 16, 17, 64, 255, 256, 1000, 4096]) }; let nops = 2 + c.rng.usize_below(30); c.input_str("cap_nops", &format!("{},{nops}", if dflt { "default".to_string() } else { cap.to_string() }));
            let mut w = zok!("ZeroCopyWriter ctor", if dflt { ZeroCopyWriter::new(Vec::new()) } else { ZeroCopyWriter::with_capacity(Vec::new(), cap) }); let mut model: Vec<u8> = Vec::new();
            for oi in 0..nops { match c.rng.below(8) {
                    0 => { if let Err(e) = w.flush() { return Err(io_fail("write_err", "flush", e)); } ensure!(w.get_ref()[..] == model[..], "flush_accounting", "op {oi}: after flush the inner writer holds {} of {} bytes", w.get_ref().len(), model.len()); }
                    1 | 2 => { let len = req_size(&mut c.rng, cap.min(600)).min(cap); let k = c.rng.usize_below(len + 1); let fill = c.rng.bytes(len); let some = zok!("zc_write", w.zc_write(len).map(|o| o.map(|s| { s.copy_from_slice(&fill); s.len() })));
                        match some { Some(n) => { ensure!(n == len, "zc_write_len", "zc_write({len}) slice of {n}"); zok!("zc_commit", w.zc_commit(k)); model.extend_from_slice(&fill[..k]); } None => { ensure!(len > cap, "zc_write_none", "op {oi} zc_write({len}) = None with capacity {cap}"); } } }
                    _ => { let s = req_size(&mut c.rng, cap.min(600)); let chunk = c.rng.bytes(s); if let Err(e) = w.write_all(&chunk) { return Err(io_fail("write_err", &format!("op {oi} write_all({s})"), e)); } model.extend_from_slice(&chunk); } }
                let il = w.get_ref().len(); ensure!(il <= model.len() && w.get_ref()[..] == model[..il] && w.get_mut().len() == il, "stream_bytes", "op {oi}: the {il} bytes in the inner writer (get_ref) are not a prefix of the {} bytes written", model.len()); c.ev(1); }
            let got = match w.into_inner() { Ok(v) => v, Err(e) => return Err(io_fail("write_err", "into_inner", e)) }; ensure!(got == model, "stream_bytes", "bytes reaching the inner writer ({}) differ from the bytes written ({})", got.len(), model.len()); Ok(()) });
    }
    for idx in 0..ctx.n(20, 500) as u64 {
        ctx.case("zc/reader", "gap_new_default", idx, |c| { let dl = 1000 + c.rng.usize_below(200000); let data = c.rng.bytes(dl); c.input("data", &data); c.set_nontrivial(true); let cap = 64 * 1024; let ops = gen_zops(&mut c.rng, cap, true); c.input_str("ops", &format!("{ops:?}"));
            let mut rd = zok!("ZeroCopyReader::new", ZeroCopyReader::new(Cursor::new(data.clone()))); drive_zc(c, &mut rd, &data, &ops, cap) });
    }
    // ---- serializer default constructors, Version::patch, VersionProxy::data_mut, migrations ------------------------
    for idx in 0..ctx.n(150, 5000) as u64 {
        ctx.case("complex/serializer", "gap_default_ctor", idx, |c| { type T = (u32, String, Option<Vec<i16>>); let n = 1 + c.rng.usize_below(4); let vals: Vec<T> = (0..n).map(|_| Arb::arb(&mut c.rng, 3)).collect(); c.input_str("values", &show(&vals)); c.set_nontrivial(true);
            let s = ComplexTypeSerializer::default(); let r = ComplexTypeSerializer::new(ComplexTypeConfig::new());
            let e = zok!("serialize_to_bytes", s.serialize_to_bytes(&vals[0])); ensure!(e == zok!("serialize_to_bytes", r.serialize_to_bytes(&vals[0])), "shortcut_vs_new", "default() and new(ComplexTypeConfig::new()) encode differently");
            let d: T = match s.deserialize_from_bytes(&e) { Ok(d) => d, Err(er) => return Err(bad("decode_err", format!("default serializer: {er}"))) }; ensure!(d == vals[0], "roundtrip_mismatch", "default serializer: {}", show(&d));
            let eb = zok!("serialize_batch", s.serialize_batch(&vals)); ensure!(eb == zok!("serialize_batch", r.serialize_batch(&vals)), "shortcut_vs_new", "batch encodings differ"); let db: Vec<T> = match s.deserialize_batch(&eb) { Ok(d) => d, Err(er) => return Err(bad("decode_err", format!("default serializer batch: {er}"))) }; ensure!(db == vals, "roundtrip_mismatch", "default serializer batch"); c.ev(4); Ok(()) });
        ctx.case("sptr/serializer", "gap_default_ctor", idx, |c| { let a: Box<String> = Arb::arb(&mut c.rng, 2); let b: Rc<u64> = Arb::arb(&mut c.rng, 2); let av: Arc<Vec<u32>> = Arb::arb(&mut c.rng, 3); c.input_str("values", &show(&(&a, &b, &av))); c.set_nontrivial(true);
            let s = SmartPtrSerializer::default(); let r = SmartPtrSerializer::new(SmartPtrConfig::new());
            let e = zok!("serialize_to_bytes", s.serialize_to_bytes::<String, Box<String>>(&a)); ensure!(e == zok!("serialize_to_bytes", r.serialize_to_bytes::<String, Box<String>>(&a)), "shortcut_vs_new", "Box<String>: default() and new(SmartPtrConfig::new()) encode differently"); let d: Box<String> = zok!("deserialize_from_bytes", s.deserialize_from_bytes::<String, Box<String>>(&e)); ensure!(d == a, "roundtrip_mismatch", "Box<String>");
            let e = zok!("serialize_to_bytes", s.serialize_to_bytes::<u64, Rc<u64>>(&b)); ensure!(e == zok!("serialize_to_bytes", r.serialize_to_bytes::<u64, Rc<u64>>(&b)), "shortcut_vs_new", "Rc<u64>"); let d: Rc<u64> = zok!("deserialize_from_bytes", s.deserialize_from_bytes::<u64, Rc<u64>>(&e)); ensure!(*d == *b, "roundtrip_mismatch", "Rc<u64>");
            let e = zok!("serialize_to_bytes", s.serialize_to_bytes::<Vec<u32>, Arc<Vec<u32>>>(&av)); ensure!(e == zok!("serialize_to_bytes", r.serialize_to_bytes::<Vec<u32>, Arc<Vec<u32>>>(&av)), "shortcut_vs_new", "Arc<Vec<u32>>"); let d: Arc<Vec<u32>> = zok!("deserialize_from_bytes", s.deserialize_from_bytes::<Vec<u32>, Arc<Vec<u32>>>(&e)); ensure!(*d == *av, "roundtrip_mismatch", "Arc<Vec<u32>>"); c.ev(6); Ok(()) });
        ctx.case("ver/version", "gap_patch_accessor", idx, |c| { let (ma, mi, pa) = (c.rng.below(256) as u16, c.rng.below(256) as u16, bnd_u64(&mut c.rng) as u16); let v = Version::new(ma, mi, pa); c.input_str("version", &format!("{v:?}")); c.set_nontrivial(true);
            ensure!(v.patch() == pa && v.major() == ma && v.minor() == mi, "version_accessors", "Version::new({ma},{mi},{pa}) reports {}.{}.{}", v.major(), v.minor(), v.patch());
            let back = Version::from_u32(v.to_u32()); ensure!(back.patch() == pa && back.major() == ma && back.minor() == mi, "roundtrip_mismatch", "from_u32(to_u32({v})) = {back}");
            let mut o = VecDataOutput::new(); zok!("serialize", v.serialize(&mut o)); zok!("write_bytes", o.write_bytes(&SENT)); let e = o.into_vec(); let mut i = SliceDataInput::new(&e); let d = zok!("deserialize", Version::deserialize(&mut i));
            ensure!(d.patch() == pa && d.major() == ma && d.minor() == mi, "roundtrip_mismatch", "deserialize(serialize({v})) = {d}"); ensure!(i.remaining() == SENT.len(), "consumed_len", "remaining {}", i.remaining()); c.ev(4); Ok(()) });
        ctx.case("ver/proxy", "gap_data_mut", idx, |c| { let vs = [Version::new(1, 0, 0), Version::new(1, 1, 0), Version::new(1, 3, 0), Version::new(2, 0, 0)]; let cur = *c.rng.pick(&vs); let minv = *c.rng.pick(&vs);
            let v0 = arb_string(&mut c.rng); let v1 = arb_string(&mut c.rng); let w0: Vec<u32> = Arb::arb(&mut c.rng, 2); let extra: u32 = Arb::arb(&mut c.rng, 0); c.input_str("setup", &format!("cur {cur} min {minv} {v0:?} -> {v1:?}; {w0:?} push {extra}")); c.set_nontrivial(true);
            // the proxy serialises the data it holds now: replace / edit through data_mut(), then round-trip
            let mut p = VersionProxy::new(v0.clone(), minv); *p.data_mut() = v1.clone(); ensure!(p.data() == &v1, "data_mut", "data() after assignment through data_mut()"); let mut p2 = VersionProxy::new(w0.clone(), minv); p2.data_mut().push(extra); let mut w1 = w0.clone(); w1.push(extra);
            let m = VersionManager::new(cur); let present = cur >= minv; let mut o = VecDataOutput::new(); zok!("serialize_proxy", m.serialize_proxy(&p, &mut o)); let l1 = o.len(); zok!("serialize_proxy", m.serialize_proxy(&p2, &mut o)); let l2 = o.len(); zok!("write_bytes", o.write_bytes(&SENT)); let buf = o.into_vec(); let mut i = SliceDataInput::new(&buf);
            let d: Option<VersionProxy<String>> = zok!("deserialize_proxy", m.deserialize_proxy(minv, &mut i)); ensure!(d.as_ref().map(|x| x.data().clone()) == if present { Some(v1.clone()) } else { None }, "roundtrip_mismatch", "proxy edited through data_mut(): got {:?} present={present}", d.as_ref().map(|x| show(x.data()))); ensure!(i.pos() == l1, "consumed_len", "proxy 1: reader at {} want {l1}", i.pos());
            let d2: Option<VersionProxy<Vec<u32>>> = zok!("deserialize_proxy", m.deserialize_proxy(minv, &mut i)); ensure!(d2.map(|x| x.into_data()) == if present { Some(w1.clone()) } else { None }, "roundtrip_mismatch", "proxy 2 edited through data_mut()"); ensure!(i.pos() == l2, "consumed_len", "proxy 2: reader at {} want {l2}", i.pos());
            let mut o = VecDataOutput::new(); zok!("serialize", <VersionProxy<String> as SerializableType>::serialize(&p, &mut o)); let e = o.into_vec(); let mut i = SliceDataInput::new(&e); let mut d = zok!("deserialize", <VersionProxy<String> as SerializableType>::deserialize(&mut i)); ensure!(d.data_mut() == &v1 && i.pos() == e.len(), "roundtrip_mismatch", "VersionProxy as SerializableType after data_mut()"); c.ev(5); Ok(()) });
        ctx.case("ver/serializer", "gap_default_ctor", idx, |c| { let vals = vrec_vals(&mut c.rng); c.input_str("rec", &show(&vals)); c.set_nontrivial(true);
            let w = VRec::<1, 3> { a: vals.0, b: vals.1.clone(), c: vals.2, tail: vals.3 }; let s = VersionedSerializer::default(); let r = VersionedSerializer::new(VersionConfig::new());
            let e = zok!("serialize_to_bytes", s.serialize_to_bytes(&w)); ensure!(e == zok!("serialize_to_bytes", r.serialize_to_bytes(&w)), "shortcut_vs_new", "default() and new(VersionConfig::new()) encode differently");
            let d: VRec<1, 3> = match catch(|| s.deserialize_from_bytes::<VRec<1, 3>>(&e)) { Ok(Ok(d)) => d, Ok(Err(er)) => return Err(bad("decode_err", format!("default serializer refused its own encoding: {er}"))), Err(p) => return Err(bad(&p.class(), format!("deserialize_from_bytes panicked at {}: {}", p.loc, p.msg))) }; ensure!(d == w, "roundtrip_mismatch", "default serializer: {}", show(&d)); c.ev(2); Ok(()) });
        ctx.case("ver/migration", "gap_registry", idx, |c| { let data = arb_bytes(&mut c.rng); c.input("data", &data); c.set_nontrivial(true); let (v10, v11, v13, v20) = (Version::new(1, 0, 0), Version::new(1, 1, 0), Version::new(1, 3, 0), Version::new(2, 0, 0));
            let f1 = |d: &[u8]| -> ZR<Vec<u8>> { let mut v = d.to_vec(); v.push(0xA1); Ok(v) }; let f2 = |d: &[u8]| -> ZR<Vec<u8>> { let mut v = vec![0xB2]; v.extend(d.iter().map(|b| b ^ 0x5A)); Ok(v) };
            let mut reg = if c.rng.bool() { MigrationRegistry::new() } else { MigrationRegistry::default() }; reg.register_migration(v10, v11, f1); reg.register_migration(v11, v13, f2);
            let same = zok!("migrate_data", reg.migrate_data(&data, v11, v11)); ensure!(same == data, "migration_identity", "migrate_data(from == to) changed the data");
            let a = zok!("migrate_data", reg.migrate_data(&data, v10, v11)); ensure!(a == f1(&data).unwrap(), "migration_result", "registered 1.0.0 -> 1.1.0 migration: result differs from the registered function");
            let b = zok!("migrate_data", reg.migrate_data(&data, v11, v13)); ensure!(b == f2(&data).unwrap(), "migration_result", "registered 1.1.0 -> 1.3.0 migration: result differs from the registered function");
            let ab = zok!("migrate_data", reg.migrate_data(&data, v10, v13)); ensure!(ab == f2(&f1(&data).unwrap()).unwrap(), "migration_path", "1.0.0 -> 1.3.0 through 1.1.0: result differs from the composition of the registered functions");
            let none = np!("migrate_data", reg.migrate_data(&data, v13, v20)); c.note(if none.is_err() { "no_path_refused" } else { "no_path_accepted" }, 1); c.ev(4); Ok(()) });
        ctx.case("ver/migration", "gap_serializer", idx, |c| { let vals = vrec_vals(&mut c.rng); let newc = bnd_u64(&mut c.rng); c.input_str("rec", &show(&vals)); c.input_str("new_c", &newc.to_string()); c.set_nontrivial(true);
            // a 1.1.0 writer leaves field c (since 1.3.0) absent; the registered 1.1.0 -> 1.3.0 migration rewrites the payload into what a 1.3.0 writer emits
            // (absent marker of c replaced by a present c); the 1.3.0 reader must then decode a, b, the migrated c and the tail
            let w = VRec::<1, 1> { a: vals.0, b: vals.1.clone(), c: vals.2, tail: vals.3 }; let mut s = VersionedSerializer::new(VersionConfig::flexible());
            let mut fm = VersionManager::new(F_C); fm.register_field("c", F_C); let mut fo = VecDataOutput::new(); zok!("serialize_field", fm.serialize_field("c", &newc, &mut fo)); let enc_c = fo.into_vec();
            let e = zok!("serialize_to_bytes", s.serialize_to_bytes(&w)); let ec = enc_c.clone();
            s.register_migration(Version::new(1, 1, 0), F_C, move |d: &[u8]| -> ZR<Vec<u8>> { if d.len() < 3 || d[d.len() - 3] != 0 { return Err(zipora::error::ZiporaError::invalid_data("payload does not end with [absent c][tail]")); } let mut v = d[..d.len() - 3].to_vec(); v.extend_from_slice(&ec); v.extend_from_slice(&d[d.len() - 2..]); Ok(v) });
            let got = match catch(|| s.deserialize_from_bytes::<VRec<1, 3>>(&e)) { Ok(Ok(g)) => g, Ok(Err(er)) => return Err(bad("decode_err", format!("1.3.0 reader with a registered 1.1.0 -> 1.3.0 migration refused the 1.1.0 stream: {er}"))), Err(p) => return Err(bad(&p.class(), format!("deserialize_from_bytes panicked at {}: {}", p.loc, p.msg))) };
            let want = VRec::<1, 3> { a: vals.0, b: vals.1.clone(), c: newc, tail: vals.3 }; ensure!(got == want, "roundtrip_mismatch", "migrated record: got {} want {}", show(&got), show(&want)); c.ev(1);
            // the same serializer still reads a same-version stream untouched by the migration
            let w3 = VRec::<1, 3> { a: vals.0, b: vals.1.clone(), c: vals.2, tail: vals.3 }; let e3 = zok!("serialize_to_bytes", s.serialize_to_bytes(&w3)); let d3: VRec<1, 3> = zok!("deserialize_from_bytes", s.deserialize_from_bytes::<VRec<1, 3>>(&e3)); ensure!(d3 == w3, "roundtrip_mismatch", "same-version record through a serializer with migrations: {}", show(&d3)); c.ev(1); Ok(()) });
    }
}
