//! C08 — concurrent pool users never share a block and no block is lost.
//!
//! Per execution: a fresh pool, 2-3 client threads with short alloc/free op lists, run under the controlled scheduler
//! (hook sites inside the lock-free pop/push paths) or free-running. Monitors (client boundary):
//!   ownership  — address/offset -> owner map: registered after allocate returns, removed before free is called;
//!                an insertion that overlaps a registered block means two live owners (sound: both provably live)
//!   content    — each owner writes its id over the block and re-reads it before freeing (pointer-returning pools)
//!   quiescence — after join: free structures walk without cycle/duplicate (H2 hooks), every parked block was once handed
//!                out or created, nothing both parked and (formerly) lost, reported counters add up
use crate::ctx::{fail, Case, Ctx, Res};
use crate::sched::{self, Stall, Strategy};
use std::collections::{BTreeMap, BTreeSet};
use std::ptr::NonNull;
use std::sync::atomic::{AtomicU64, Ordering};
use std::sync::{Arc, Mutex};
use zipora::memory::five_level_pool::{FiveLevelPoolConfig, LockFreePool as FlLockFreePool, MemOffset, MutexBasedPool};
use zipora::memory::fixed_capacity_pool::{FixedCapacityAllocation, FixedCapacityMemoryPool, FixedCapacityPoolConfig};
use zipora::memory::lockfree_pool::{LockFreeMemoryPool, LockFreePoolConfig};
use zipora::memory::{SecureMemoryPool, SecurePoolConfig, SecurePooledPtr};
use zipora::verif_hooks::site;

#[derive(Clone, Copy, Debug)]
enum Op { Alloc(u8), FreeOldest, FreeNewest }

#[derive(Default)]
struct Mon {
    owned: Mutex<BTreeMap<usize, (usize, usize)>>, // key -> (size, owner tid)
    ever: Mutex<BTreeSet<usize>>,
    viol: Mutex<Vec<(String, String)>>,
    allocs: AtomicU64, frees: AtomicU64, alloc_errs: AtomicU64,
}
impl Mon {
    fn viol(&self, o: &str, d: String) { let mut v = self.viol.lock().unwrap(); if v.len() < 4 { v.push((o.into(), d)); } }
    fn acquire(&self, key: usize, size: usize, tid: usize) {
        self.allocs.fetch_add(1, Ordering::SeqCst);
        let mut m = self.owned.lock().unwrap();
        let size = size.max(1);
        if let Some((&a, &(s, o))) = m.range(..=key).next_back() { if a + s > key { self.viol("double_ownership", format!("thread {tid} was handed block [{key:#x},+{size}) while thread {o} still owns [{a:#x},+{s})")); } }
        if let Some((&a, &(s, o))) = m.range(key + 1..).next() { if key + size > a { self.viol("double_ownership", format!("thread {tid} was handed block [{key:#x},+{size}) overlapping [{a:#x},+{s}) owned by thread {o}")); } }
        m.insert(key, (size, tid));
        self.ever.lock().unwrap().insert(key);
    }
    fn release(&self, key: usize) { self.frees.fetch_add(1, Ordering::SeqCst); self.owned.lock().unwrap().remove(&key); }
}

/// One live allocation held by a client thread.
struct Blk { key: usize, size: usize, ptr: Option<*mut u8>, guard: Guard, stamp: u8 }
enum Guard { Secure(SecurePooledPtr), LockFree(NonNull<u8>), Fl(MemOffset), FixedCap(FixedCapacityAllocation) }

#[derive(Clone)]
enum Pool { Secure(Arc<SecureMemoryPool>), LockFree(Arc<LockFreeMemoryPool>), FlLf(Arc<FlLockFreePool>), FlMx(Arc<MutexBasedPool>), FixedCap(Arc<FixedCapacityMemoryPool>) }
// SAFETY: the pools are Sync; FixedCapacityAllocation guards never leave their thread.
unsafe impl Send for Pool {}

fn memoffset_value(o: &MemOffset) -> usize { let s = format!("{o:?}"); s.chars().filter(|c| c.is_ascii_digit()).collect::<String>().parse().unwrap_or(usize::MAX) }

const SIZES: [usize; 3] = [16, 64, 256];

impl Pool {
    fn alloc(&self, sz_idx: u8) -> Option<Blk> {
        let size = SIZES[sz_idx as usize % 3];
        match self {
            Pool::Secure(p) => p.allocate().ok().map(|g| Blk { key: g.as_ptr() as usize, size: g.size(), ptr: Some(g.as_ptr()), guard: Guard::Secure(g), stamp: 0 }),
            Pool::LockFree(p) => p.allocate(size).ok().map(|n| Blk { key: n.as_ptr() as usize, size, ptr: Some(n.as_ptr()), guard: Guard::LockFree(n), stamp: 0 }),
            Pool::FlLf(p) => p.alloc(size).ok().map(|o| Blk { key: memoffset_value(&o), size, ptr: None, guard: Guard::Fl(o), stamp: 0 }),
            Pool::FlMx(p) => p.alloc(size).ok().map(|o| Blk { key: memoffset_value(&o), size, ptr: None, guard: Guard::Fl(o), stamp: 0 }),
            Pool::FixedCap(p) => p.allocate(size).ok().map(|g| Blk { key: g.as_ptr() as usize, size: g.size(), ptr: Some(g.as_ptr()), guard: Guard::FixedCap(g), stamp: 0 }),
        }
    }
    fn free(&self, b: Blk) -> Result<(), String> {
        match (self, b.guard) {
            (Pool::Secure(_), Guard::Secure(g)) => { drop(g); Ok(()) }
            (Pool::LockFree(p), Guard::LockFree(n)) => p.deallocate(n, b.size).map_err(|e| e.to_string()),
            (Pool::FlLf(p), Guard::Fl(o)) => p.free(o, b.size).map_err(|e| e.to_string()),
            (Pool::FlMx(p), Guard::Fl(o)) => p.free(o, b.size).map_err(|e| e.to_string()),
            (Pool::FixedCap(_), Guard::FixedCap(g)) => { drop(g); Ok(()) }
            _ => Err("guard/pool mismatch".into()),
        }
    }
}

fn client(tid: usize, ops: Vec<Op>, pool: Pool, mon: Arc<Mon>, controlled: bool) {
    let mut held: Vec<Blk> = Vec::new();
    let mut counter = 0u8;
    let pt = |s: u32| { if controlled { sched::point(s); } };
    let do_free = |b: Blk, mon: &Mon, pool: &Pool| {
        if let Some(p) = b.ptr { let ok = unsafe { std::slice::from_raw_parts(p, b.size).iter().all(|&x| x == b.stamp) }; if !ok { mon.viol("content_corrupted", format!("thread {tid}: block {:#x}+{} no longer holds the bytes its owner wrote", b.key, b.size)); } }
        mon.release(b.key);
        if let Err(e) = pool.free(b) { mon.viol("free_error", format!("thread {tid}: free of a live block failed: {e}")); }
    };
    for op in ops {
        pt(sched::SITE_CLIENT);
        match op {
            Op::Alloc(s) => match pool.alloc(s) {
                Some(mut b) => { mon.acquire(b.key, b.size, tid); counter = counter.wrapping_add(1); b.stamp = ((tid as u8) << 5) | (counter & 31) | 0x80;
                    if let Some(p) = b.ptr { unsafe { std::ptr::write_bytes(p, b.stamp, b.size); } }
                    held.push(b); }
                None => { mon.alloc_errs.fetch_add(1, Ordering::SeqCst); }
            },
            Op::FreeOldest => { if !held.is_empty() { let b = held.remove(0); do_free(b, &mon, &pool); } }
            Op::FreeNewest => { if let Some(b) = held.pop() { do_free(b, &mon, &pool); } }
        }
    }
    pt(sched::SITE_CLIENT);
    for b in held.drain(..) { do_free(b, &mon, &pool); }
}

fn make_pool(c: &mut Case, kind: &str) -> Result<Pool, crate::ctx::Fail> {
    let e = |x: zipora::error::ZiporaError| crate::ctx::Fail { oracle: "ctor_err".into(), detail: x.to_string() };
    Ok(match kind {
        "secure" => { let lc = *c.rng.pick(&[1usize, 1, 2, 4]); c.input_str("local_cache", &lc.to_string());
            Pool::Secure(SecureMemoryPool::new(SecurePoolConfig::new(64, 16, 8).with_local_cache_size(lc).with_zero_on_free(c.rng.bool()).with_zero_on_alloc(false).with_simd_ops(false)).map_err(e)?) }
        "lockfree" => Pool::LockFree(Arc::new(LockFreeMemoryPool::new(LockFreePoolConfig { memory_size: 1 << 16, enable_stats: true, ..Default::default() }).map_err(e)?)),
        "fl_lockfree" => Pool::FlLf(Arc::new(FlLockFreePool::new(FiveLevelPoolConfig { initial_capacity: 1 << 16, max_fast_block_size: 1024, ..FiveLevelPoolConfig::memory_optimized() }).map_err(e)?)),
        "fl_mutex" => Pool::FlMx(Arc::new(MutexBasedPool::new(FiveLevelPoolConfig { initial_capacity: 1 << 16, max_fast_block_size: 1024, ..FiveLevelPoolConfig::memory_optimized() }).map_err(e)?)),
        "fixedcap" => Pool::FixedCap(Arc::new(FixedCapacityMemoryPool::new(FixedCapacityPoolConfig { max_block_size: 256, total_blocks: 64, alignment: 8, enable_stats: true, eager_allocation: true, secure_clear: c.rng.bool() }).map_err(e)?)),
        _ => unreachable!(),
    })
}

fn sites_for(kind: &str) -> (u32, u32) { // (pop window site, a site the other thread passes when done popping)
    match kind { "secure" => (site::SP_POP_AFTER_HEAD_LOAD, site::SP_POP_AFTER_NEXT_READ), "lockfree" => (site::LF_ALLOC_AFTER_NEXT_READ, site::LF_FREE_AFTER_LINK), "fl_lockfree" => (site::FL_ALLOC_AFTER_NEXT_READ, site::FL_FREE_AFTER_LINK), "fixedcap" => (site::FC_ALLOC_AFTER_NEXT_READ, site::FC_FREE_AFTER_LINK), _ => (0, 0) }
}

/// Quiescent-state checks once all clients are joined and hold nothing.
fn quiescence(c: &mut Case, pool: Pool, mon: &Mon, prefill: usize) -> Res {
    let ever = mon.ever.lock().unwrap().clone();
    let total_allocs = mon.allocs.load(Ordering::SeqCst); let total_frees = mon.frees.load(Ordering::SeqCst);
    ensure!(total_allocs == total_frees, "harness", "harness bookkeeping: {total_allocs} allocs vs {total_frees} frees");
    match pool {
        Pool::Secure(p) => {
            let st = p.stats();
            ensure!(st.alloc_count == total_allocs + mon.alloc_errs.load(Ordering::SeqCst), "counter_mismatch", "alloc_count={} but {} allocate calls were made", st.alloc_count, total_allocs);
            ensure!(st.dealloc_count == total_frees, "counter_mismatch", "dealloc_count={} but {} blocks were released", st.dealloc_count, total_frees);
            ensure!(st.double_free_detected == 0 && st.corruption_detected == 0, "pool_reported_corruption", "double_free_detected={} corruption_detected={} in a history without double frees", st.double_free_detected, st.corruption_detected);
            let created = st.pool_misses as usize;
            let mut p = p;
            let inner = match Arc::get_mut(&mut p) { Some(x) => x, None => return crate::ctx::inconclusive("pool still shared at quiescence") };
            let free = inner.verif_free_chunks().map_err(|e| crate::ctx::Fail { oracle: "free_structure_malformed".into(), detail: e })?;
            let set: BTreeSet<usize> = free.iter().copied().collect();
            ensure!(set.len() == free.len(), "block_parked_twice", "{} parked chunks but only {} distinct addresses", free.len(), set.len());
            for a in &set { ensure!(ever.contains(a), "unknown_block_parked", "chunk {a:#x} is parked in the pool but was never handed out"); }
            ensure!(free.len() == created, "block_lost", "pool created {created} chunks, all were released, but only {} are parked in the global stack / local caches", free.len());
            c.ev(free.len() as u64 + 4);
        }
        Pool::LockFree(p) => {
            let lists = p.verif_walk_free_lists().map_err(|e| crate::ctx::Fail { oracle: "free_structure_malformed".into(), detail: e })?;
            let (base, _) = p.verif_arena();
            let mut all = BTreeSet::new(); let mut n = 0usize;
            for (bs, offs) in &lists { for &o in offs { n += 1; ensure!(all.insert(o), "block_parked_twice", "offset {o} appears twice in the free lists"); ensure!(ever.contains(&(base + o as usize)), "unknown_block_parked", "offset {o} (bin {bs}) is in a free list but was never handed out"); } }
            ensure!(n == ever.len(), "block_lost", "{} distinct blocks were handed out and all released, but the free lists hold {n}", ever.len());
            if let Some(st) = p.stats() { let fd = st.fast_deallocs.load(Ordering::SeqCst); ensure!(fd == total_frees, "counter_mismatch", "fast_deallocs={fd} but {total_frees} blocks were released"); }
            c.ev(n as u64 + 2);
        }
        Pool::FlLf(p) => {
            let lists = p.verif_walk_free_lists().map_err(|e| crate::ctx::Fail { oracle: "free_structure_malformed".into(), detail: e })?;
            let mut all = BTreeSet::new(); let mut n = 0usize;
            for (bs, offs) in &lists { for &o in offs { n += 1; ensure!(all.insert(o), "block_parked_twice", "offset {o} appears twice in the free lists"); ensure!(ever.contains(&(o as usize)), "unknown_block_parked", "offset {o} (bin {bs}) is in a free list but was never handed out"); } }
            ensure!(n == ever.len(), "block_lost", "{} distinct blocks were handed out and all released, but the free lists hold {n}", ever.len());
            let st = p.stats(); let bytes: usize = lists.iter().map(|(bs, o)| bs * o.len()).sum();
            ensure!(st.fragment_size == bytes, "counter_mismatch", "stats().fragment_size={} but the free lists hold {} bytes", st.fragment_size, bytes);
            c.ev(n as u64 + 2);
        }
        Pool::FlMx(p) => { let st = p.stats(); c.note("flmx_used", st.used_memory as u64); c.ev(1); }
        Pool::FixedCap(p) => {
            let lists = p.verif_walk_free_lists().map_err(|e| crate::ctx::Fail { oracle: "free_structure_malformed".into(), detail: e })?;
            let mut all = BTreeSet::new(); let mut n = 0usize;
            for (_, offs) in &lists { for &o in offs { n += 1; ensure!(all.insert(o), "block_parked_twice", "offset {o} appears twice in the free lists"); } }
            ensure!(n == 64, "block_lost", "pool of 64 blocks, all released, but the free lists hold {n}");
            if let Some(st) = p.stats() { let (a, d, act) = (st.allocations.load(Ordering::SeqCst), st.deallocations.load(Ordering::SeqCst), st.active_blocks.load(Ordering::SeqCst));
                ensure!(a == total_allocs && d == total_frees && act == 0, "counter_mismatch", "stats: allocations={a} deallocations={d} active_blocks={act}; observed {total_allocs} allocs / {total_frees} frees, nothing live"); }
            c.ev(n as u64 + 3);
        }
    }
    let _ = prefill;
    Ok(())
}

fn exec_case(c: &mut Case, kind: &str, mode: u32) -> Res {
    // mode 0 = random ops controlled, 1 = ABA / stale-head stall script, 2 = free-running
    let pool = make_pool(c, kind)?;
    let mon = Arc::new(Mon::default());
    // prefill: put a few blocks into the shared free structure from the main thread
    let prefill = c.rng.urange(2, 5);
    { let mut v = Vec::new(); for _ in 0..prefill { if let Some(mut b) = pool.alloc(1) { mon.acquire(b.key, b.size, 9); b.stamp = 0xEE; if let Some(p) = b.ptr { unsafe { std::ptr::write_bytes(p, 0xEE, b.size); } } v.push(b); } }
      for b in v { mon.release(b.key); if let Err(e) = pool.free(b) { return fail("free_error", e); } } }
    let nthreads = if mode == 1 { 2 } else { c.rng.urange(2, 3) };
    let mut all_ops: Vec<Vec<Op>> = Vec::new();
    for t in 0..nthreads {
        let ops = if mode == 1 { if t == 0 { vec![Op::Alloc(1), Op::Alloc(1)] } else { vec![Op::Alloc(1), Op::Alloc(1), Op::FreeOldest] } }
            else { let n = if mode == 2 { c.rng.urange(20, 60) } else { c.rng.urange(2, 8) }; (0..n).map(|_| match c.rng.below(10) { 0..=5 => Op::Alloc(if kind == "secure" { 1 } else { c.rng.below(3) as u8 }), 6..=8 => Op::FreeOldest, _ => Op::FreeNewest }).collect() };
        all_ops.push(ops);
    }
    c.input_str("pool", kind); c.input_str("ops", &format!("{all_ops:?}")); c.input_str("prefill", &prefill.to_string());
    let mut stalls = vec![];
    if mode == 1 { let (w, _) = sites_for(kind); if w != 0 { stalls.push(Stall { thread: 0, site: w, nth: 1, until_thread: 1, until_site: sched::SITE_END, until_count: 1 }); } }
    let res = if mode == 2 {
        sched::free_visits_reset(); sched::free_running_on(c.rng.next(), 25);
        let hs: Vec<_> = all_ops.iter().cloned().enumerate().map(|(t, ops)| { let (pool, mon) = (pool.clone(), mon.clone()); std::thread::spawn(move || client(t, ops, pool, mon, false)) }).collect();
        let mut panicked = vec![]; for h in hs { if h.join().is_err() { panicked.push(crate::ctx::take_panic().map(|p| format!("{}: {}", p.0, p.1)).unwrap_or_default()); } }
        sched::free_running_off();
        let v = sched::free_visits_snapshot(); for (s, n) in &v { c.note(&format!("site{s}"), *n); }
        sched::ExecResult { steps: v.values().sum(), panics: panicked, ..Default::default() }
    } else {
        let strat = match c.rng.below(3) { 0 => Strategy::Random { switch_pct: 30 + c.rng.below(60) as u32 }, 1 => Strategy::Pct { depth: 2 + c.rng.below(3) as u32, horizon: 40 }, _ => Strategy::Random { switch_pct: 50 } };
        c.input_str("strategy", &format!("{strat:?} mode={mode}"));
        let bodies: Vec<Box<dyn FnOnce() + Send>> = all_ops.iter().cloned().enumerate().map(|(t, ops)| { let (pool, mon) = (pool.clone(), mon.clone()); Box::new(move || client(t, ops, pool, mon, true)) as Box<dyn FnOnce() + Send> }).collect();
        let r = sched::run_controlled(c.rng.next(), strat, stalls, bodies, None);
        for (s, n) in &r.site_visits { c.note(&format!("site{s}"), *n); }
        c.note(&format!("ilv:{:016x}", r.trace_hash), 1); c.hash_more(&r.trace_hash.to_le_bytes());
        r
    };
    c.ev(res.steps); c.note("sched_steps", res.steps); c.note("allocs", mon.allocs.load(Ordering::SeqCst)); c.note("alloc_errs", mon.alloc_errs.load(Ordering::SeqCst));
    c.set_nontrivial(mon.allocs.load(Ordering::SeqCst) >= 3);
    if res.aborted { return crate::ctx::inconclusive("scheduler watchdog/step limit fired"); }
    if let Some(p) = res.panics.first() { return fail("panic_in_client", format!("{p}; schedule={:?}", &res.trace[..res.trace.len().min(60)])); }
    if let Some((o, d)) = mon.viol.lock().unwrap().first().cloned() { return fail(&o, format!("{d}; schedule={:?}", &res.trace[..res.trace.len().min(60)])); }
    quiescence(c, pool, &mon, prefill)
}

pub fn run(ctx: &mut Ctx) {
    let micro = ctx.variant == "miri";
    for kind in ["secure", "lockfree", "fl_lockfree", "fl_mutex", "fixedcap"] {
        for idx in 0..ctx.n(if micro { 3 } else { 4000 }, 80000) as u64 { ctx.case(kind, "random", idx, |c| exec_case(c, kind, 0)); }
        if kind != "fl_mutex" { for idx in 0..ctx.n(if micro { 2 } else { 300 }, 3000) as u64 { ctx.case(kind, "script_stale_head", idx, |c| exec_case(c, kind, 1)); } }
        if !micro { for idx in 0..ctx.n(40, 600) as u64 { ctx.case(kind, "free_running", idx, |c| exec_case(c, kind, 2)); } }
    }
    // global size-class pools (shared process-wide: ownership + content only)
    if !micro { for idx in 0..ctx.n(20, 300) as u64 { ctx.case("global_secure", "free_running", idx, |c| {
        let mon = Arc::new(Mon::default()); let seed = c.rng.next(); c.input_str("seed", &seed.to_string());
        let hs: Vec<_> = (0..3usize).map(|t| { let mon = mon.clone(); std::thread::spawn(move || { let mut r = crate::rng::Rng::new(seed ^ t as u64); let mut held: Vec<(SecurePooledPtr, u8)> = vec![];
            for i in 0..60u32 { if r.below(3) != 0 || held.is_empty() { let sz = *r.pick(&[16usize, 100, 1000, 5000]); if let Ok(g) = zipora::memory::get_global_pool_for_size(sz).allocate() { mon.acquire(g.as_ptr() as usize, g.size(), t); let st = (t as u8) << 6 | (i as u8 & 63); unsafe { std::ptr::write_bytes(g.as_ptr(), st, g.size()); } held.push((g, st)); } }
                else { let (g, st) = held.remove(0); if !g.as_slice().iter().all(|&b| b == st) { mon.viol("content_corrupted", format!("global pool block {:#x}", g.as_ptr() as usize)); } mon.release(g.as_ptr() as usize); drop(g); } }
            for (g, _) in held { mon.release(g.as_ptr() as usize); drop(g); } }) }).collect();
        for h in hs { let _ = h.join(); }
        c.ev(mon.allocs.load(Ordering::SeqCst)); c.set_nontrivial(true);
        if let Some((o, d)) = mon.viol.lock().unwrap().first().cloned() { return fail(&o, d); }
        Ok(()) }); } }
}
