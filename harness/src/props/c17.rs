//! C17 — caches stay within capacity, evict least-recently-used, never serve stale data.
//!
//! Targets
//!   lrumap/<preset>|ctor_cb        sequential histories on LruMap<u64,Tracked,Rec>; oracle = exact ordered-list LRU model
//!   clru/s<N>|preset_*|ctor_cb     ConcurrentLruMap, sequential histories; per-shard exact LRU model (shard of a key is learnt
//!                                  black-box from shard_sizes() on a probe map with ample capacity)
//!   clru/rr, clru/affinity[_mt]    the non-hash load-balancing strategies, ample capacity (no eviction possible): plain map model
//!   lrumap/conc, clru/conc/s<N>    free-running threads (puts serialised by a harness mutex because put||put can deadlock, see REPORT),
//!                                  per-key history check with unique values that encode their key
//!   lrumap/get_evict_window        scripted 2-thread interleaving of get() vs an evicting put() (window between the two locks of get)
//!   pagecache/{lru,single}/<preset> histories of reads / prefetch / invalidate / rewrite / close over real files; oracle = file bytes
//!   cachedblob/<strategy>          CachedBlobStore vs the store it wraps (and an independent twin)
//!   fsacache/<strategy>            FsaCache: size bound, get_state returns what was cached under that id, no stale zero-path
use crate::ctx::{fail, inconclusive, nopanic, take_panic, Case, Ctx, Fail, Res};
use crate::gen;
use crate::mon::{self, Tracked};
use std::collections::{HashMap, HashSet};
use std::sync::atomic::{AtomicU64, AtomicUsize, Ordering};
use std::sync::{Arc, Barrier, Mutex};
use zipora::blob_store::cached_store::CacheWriteStrategy;
use zipora::blob_store::{BlobStore, CachedBlobStore, MemoryBlobStore};
use zipora::cache::{CacheBuffer, FileId, LruPageCache, PageCacheConfig, SingleLruPageCache, PAGE_SIZE};
use zipora::containers::specialized::{ConcurrentLruMap, ConcurrentLruMapConfig, EvictionCallback, LoadBalancingStrategy, LruMap, LruMapConfig};
use zipora::fsa::cache::{CacheStrategy, FsaCache, FsaCacheConfig, ZeroPathData};

type ZR<T> = zipora::error::Result<T>;
fn bad(oracle: &str, d: String) -> Fail { Fail { oracle: oracle.to_string(), detail: d } }

// =============================================================================================
// Part 1: sequential LRU maps
// =============================================================================================

/// Recording eviction callback: (key, value id, value intact)
#[derive(Clone, Default)]
struct Rec(Arc<Mutex<Vec<(u64, u64, bool)>>>);
impl EvictionCallback<u64, Tracked> for Rec { fn on_evict(&self, k: &u64, v: &Tracked) { self.0.lock().unwrap().push((*k, v.id, v.intact())); } }
impl Rec { fn take(&self) -> Vec<(u64, u64, bool)> { std::mem::take(&mut *self.0.lock().unwrap()) } }

trait SeqMap {
    fn get(&self, k: u64) -> Option<Tracked>;
    fn put(&self, k: u64, v: Tracked) -> ZR<Option<Tracked>>;
    fn remove(&self, k: u64) -> Option<Tracked>;
    fn contains(&self, k: u64) -> bool;
    fn len(&self) -> usize;
    fn is_empty(&self) -> bool;
    fn capacity(&self) -> usize;
    fn clear(&self) -> ZR<()>;
    fn shard_sizes(&self) -> Option<Vec<usize>>;
}
impl SeqMap for LruMap<u64, Tracked, Rec> {
    fn get(&self, k: u64) -> Option<Tracked> { LruMap::get(self, &k) }
    fn put(&self, k: u64, v: Tracked) -> ZR<Option<Tracked>> { LruMap::put(self, k, v) }
    fn remove(&self, k: u64) -> Option<Tracked> { LruMap::remove(self, &k) }
    fn contains(&self, k: u64) -> bool { LruMap::contains_key(self, &k) }
    fn len(&self) -> usize { LruMap::len(self) }
    fn is_empty(&self) -> bool { LruMap::is_empty(self) }
    fn capacity(&self) -> usize { LruMap::capacity(self) }
    fn clear(&self) -> ZR<()> { LruMap::clear(self) }
    fn shard_sizes(&self) -> Option<Vec<usize>> { None }
}
impl SeqMap for ConcurrentLruMap<u64, Tracked, Rec> {
    fn get(&self, k: u64) -> Option<Tracked> { ConcurrentLruMap::get(self, &k) }
    fn put(&self, k: u64, v: Tracked) -> ZR<Option<Tracked>> { ConcurrentLruMap::put(self, k, v) }
    fn remove(&self, k: u64) -> Option<Tracked> { ConcurrentLruMap::remove(self, &k) }
    fn contains(&self, k: u64) -> bool { ConcurrentLruMap::contains_key(self, &k) }
    fn len(&self) -> usize { ConcurrentLruMap::len(self) }
    fn is_empty(&self) -> bool { ConcurrentLruMap::is_empty(self) }
    fn capacity(&self) -> usize { ConcurrentLruMap::capacity(self) }
    fn clear(&self) -> ZR<()> { ConcurrentLruMap::clear(self) }
    fn shard_sizes(&self) -> Option<Vec<usize>> { Some(ConcurrentLruMap::shard_sizes(self)) }
}

/// The oracle: one ordered list (most recently used first) of (key, value id) per shard, `cap` entries each.
struct Model { cap: usize, shards: Vec<Vec<(u64, u64)>>, assign: HashMap<u64, usize> }
impl Model {
    fn new(cap: usize, nshards: usize, assign: HashMap<u64, usize>) -> Model { Model { cap, shards: vec![Vec::new(); nshards], assign } }
    fn sh(&self, k: u64) -> usize { *self.assign.get(&k).unwrap_or(&0) }
    fn get(&mut self, k: u64) -> Option<u64> { let s = self.sh(k); let l = &mut self.shards[s]; let p = l.iter().position(|e| e.0 == k)?; let e = l.remove(p); l.insert(0, e); Some(e.1) }
    /// returns (old value, evicted entry)
    fn put(&mut self, k: u64, v: u64) -> (Option<u64>, Option<(u64, u64)>) {
        let s = self.sh(k); let cap = self.cap; let l = &mut self.shards[s];
        if let Some(p) = l.iter().position(|e| e.0 == k) { let e = l.remove(p); l.insert(0, (k, v)); return (Some(e.1), None); }
        let ev = if l.len() >= cap { l.pop() } else { None };
        l.insert(0, (k, v)); (None, ev)
    }
    fn remove(&mut self, k: u64) -> Option<u64> { let s = self.sh(k); let l = &mut self.shards[s]; let p = l.iter().position(|e| e.0 == k)?; Some(l.remove(p).1) }
    fn peek(&self, k: u64) -> Option<u64> { self.shards[self.sh(k)].iter().find(|e| e.0 == k).map(|e| e.1) }
    fn clear(&mut self) -> Vec<(u64, u64)> { let mut all = vec![]; for l in &mut self.shards { all.append(l); } all }
    fn len(&self) -> usize { self.shards.iter().map(|l| l.len()).sum() }
    fn any_shard_nonfull(&self) -> bool { self.shards.iter().any(|l| l.len() < self.cap) }
}

#[derive(Clone, Copy, Debug, PartialEq)]
enum Op { Get(u64), Put(u64), Remove(u64), Contains(u64), Clear, Len }
fn enc_ops(ops: &[Op]) -> Vec<u8> {
    let mut b = Vec::with_capacity(ops.len() * 2);
    for o in ops { match o { Op::Get(k) => { b.push(b'g'); b.push(*k as u8) } Op::Put(k) => { b.push(b'p'); b.push(*k as u8) } Op::Remove(k) => { b.push(b'r'); b.push(*k as u8) } Op::Contains(k) => { b.push(b'c'); b.push(*k as u8) } Op::Clear => b.push(b'X'), Op::Len => b.push(b'l') } }
    b
}
fn show_ops(ops: &[Op], upto: usize) -> String { let from = upto.saturating_sub(24); let mut s = String::new(); if from > 0 { s.push_str(".. "); } for o in &ops[from..=upto.min(ops.len() - 1)] { s.push_str(&match o { Op::Get(k) => format!("g{k} "), Op::Put(k) => format!("p{k} "), Op::Remove(k) => format!("r{k} "), Op::Contains(k) => format!("c{k} "), Op::Clear => "CLEAR ".into(), Op::Len => "len ".into() }); } s }

/// History families. `nkeys` keys 0..nkeys (key 0 = K::default(), the filler of unused nodes, is always in the key space).
fn gen_history(c: &mut Case, family: &str, nkeys: u64, total_cap: usize, nops: usize) -> Vec<Op> {
    let mut ops = Vec::with_capacity(nops);
    let skew = c.rng.chance(1, 3);
    let key = |c: &mut Case| -> u64 { if skew && c.rng.chance(3, 4) { c.rng.below((total_cap as u64).max(1).min(nkeys)) } else { c.rng.below(nkeys) } };
    match family {
        "scan" => { // directed: fill, then cyclic scan over cap+1.. keys with "rescue" gets of the current LRU entry right before a put
            let mut next = 0u64;
            while ops.len() < nops {
                match c.rng.below(10) {
                    0..=5 => { ops.push(Op::Put(next % nkeys)); next += 1; }
                    6..=7 => { let back = 1 + c.rng.below(total_cap as u64 + 1); ops.push(Op::Get(next.wrapping_sub(back) % nkeys)); }
                    8 => { let back = c.rng.below(total_cap as u64 + 1); ops.push(Op::Put(next.wrapping_sub(back) % nkeys)); } // overwrite a resident key: recency refresh by put
                    _ => { ops.push(Op::Contains(c.rng.below(nkeys))); ops.push(Op::Len); }
                }
            }
        }
        _ => {
            let (g, p, r, ct, cl) = match family { "getheavy" => (60, 27, 5, 5, 0), "clear" => (30, 42, 8, 8, 6), "churn" => (15, 45, 30, 5, 0), _ => (35, 42, 9, 9, 0) };
            while ops.len() < nops {
                let x = c.rng.below(100); let k = key(c);
                ops.push(if x < g { Op::Get(k) } else if x < g + p { Op::Put(k) } else if x < g + p + r { Op::Remove(k) } else if x < g + p + r + ct { Op::Contains(k) } else if x < g + p + r + ct + cl { Op::Clear } else { Op::Len });
            }
        }
    }
    ops.truncate(nops); ops
}

/// Run one history against the map under test and the model. Every return value, the callback events of every step,
/// len / per-shard sizes after every step, and at the end every key of the key space are compared.
fn run_history(c: &mut Case, map: &dyn SeqMap, rec: &Rec, m: &mut Model, ops: &[Op], nkeys: u64) -> Res {
    let mut next_id = 1u64; let mut evictions = 0u64;
    let total_cap = m.cap * m.shards.len();
    ensure!(map.capacity() == total_cap, "capacity", "capacity()={} want {}", map.capacity(), total_cap);
    for (i, op) in ops.iter().enumerate() {
        let _ = rec.take();
        let mut expect_ev: Vec<(u64, u64)> = vec![]; let mut optional_ev: Vec<(u64, u64)> = vec![];
        match *op {
            Op::Get(k) => { let want = m.get(k); let got = nopanic("get", || map.get(k))?;
                if let Some(t) = &got { ensure!(t.intact(), "value_corrupt", "get({k}) returned a dropped/corrupted value at step {i}"); }
                let g = got.as_ref().map(|t| t.id);
                if g != want { let cls = match (g, want) { (Some(_), None) => "get_returned_absent", (None, Some(_)) => "lost_entry", _ => "stale_value" }; return fail(cls, format!("step {i}: get({k})={g:?} want {want:?}; history: {}", show_ops(ops, i))); } }
            Op::Put(k) => { let id = next_id; next_id += 1; if m.any_shard_nonfull() { /* no tag */ }
                let r = nopanic("put", || map.put(k, Tracked::new(id)))?;
                let r = match r { Ok(r) => r, Err(e) => return fail("put_err", format!("step {i}: put({k}) returned Err({e}) with model len {} / capacity {}; history: {}", m.len(), total_cap, show_ops(ops, i))) };
                let (want, ev) = m.put(k, id);
                if let Some(t) = &r { ensure!(t.intact(), "value_corrupt", "put({k}) returned a dropped/corrupted old value at step {i}"); }
                let g = r.as_ref().map(|t| t.id);
                ensure!(g == want, "put_return", "step {i}: put({k}) returned old={g:?} want {want:?}; history: {}", show_ops(ops, i));
                if let Some(e) = ev { expect_ev.push(e); evictions += 1; } }
            Op::Remove(k) => { let want = m.remove(k); let got = nopanic("remove", || map.remove(k))?; let g = got.as_ref().map(|t| t.id);
                ensure!(g == want, "remove_return", "step {i}: remove({k})={g:?} want {want:?}; history: {}", show_ops(ops, i));
                if let Some(v) = want { optional_ev.push((k, v)); } }
            Op::Contains(k) => { let want = m.peek(k).is_some(); let got = nopanic("contains_key", || map.contains(k))?; ensure!(got == want, "contains", "step {i}: contains_key({k})={got} want {want}; history: {}", show_ops(ops, i)); }
            Op::Clear => { c.note("clears", 1); optional_ev = m.clear(); match nopanic("clear", || map.clear())? { Ok(()) => {} Err(e) => return fail("clear_err", format!("step {i}: clear() Err({e})")) } }
            Op::Len => { let e = map.is_empty(); ensure!(e == (m.len() == 0), "is_empty", "step {i}: is_empty()={e} model len {}", m.len()); }
        }
        c.ev(1);
        // callback events of this step: exactly the model's eviction (evicted to make room); removal / clear may or may not notify
        let got_ev = rec.take();
        for &(k, v, intact) in &got_ev { ensure!(intact, "evict_cb_value_corrupt", "step {i}: callback got a dropped/corrupted value for key {k} (id {v})"); }
        let mut got: Vec<(u64, u64)> = got_ev.iter().map(|e| (e.0, e.1)).collect();
        for e in &expect_ev { match got.iter().position(|g| g == e) { Some(p) => { got.remove(p); } None => return fail("evict_cb_missing", format!("step {i}: model evicts (key {}, value {}) to make room but callback events were {:?}; history: {}", e.0, e.1, got_ev, show_ops(ops, i))) } }
        for e in &optional_ev { if let Some(p) = got.iter().position(|g| g == e) { got.remove(p); } }
        if let Some(&(k, v)) = got.first() {
            let still = m.peek(k) == Some(v) && map.get(k).map(|t| t.id) == Some(v);
            return fail(if still { "evict_cb_for_retrievable" } else { "evict_cb_unexpected" }, format!("step {i}: callback invoked for (key {k}, value {v}) which the model did not evict (expected {expect_ev:?}); history: {}", show_ops(ops, i)));
        }
        c.ev(1);
        let l = map.len();
        ensure!(l <= total_cap, "len_gt_capacity", "step {i}: len()={l} > capacity {total_cap}");
        ensure!(l == m.len(), "len", "step {i}: len()={l} model {}; history: {}", m.len(), show_ops(ops, i));
        if let Some(ss) = map.shard_sizes() { for (s, &n) in ss.iter().enumerate() { ensure!(n <= m.cap, "shard_gt_capacity", "step {i}: shard {s} holds {n} > per-shard capacity {}", m.cap); ensure!(n == m.shards[s].len(), "shard_size", "step {i}: shard_sizes()[{s}]={n} model {}", m.shards[s].len()); } }
        c.ev(2);
    }
    // final sweep: contains for every key, then get from LRU to MRU (keeps the order intact), absent keys must miss
    for k in 0..nkeys { let want = m.peek(k).is_some(); ensure!(map.contains(k) == want, "final_contains", "final contains_key({k}) != {want}"); }
    for s in 0..m.shards.len() { let l: Vec<(u64, u64)> = m.shards[s].iter().rev().copied().collect(); for (k, v) in l { let g = map.get(k).map(|t| t.id); ensure!(g == Some(v), "final_get", "final get({k})={g:?} want Some({v})"); m.get(k); c.ev(1); } }
    for k in 0..nkeys { if m.peek(k).is_none() { let g = map.get(k).map(|t| t.id); ensure!(g.is_none(), "final_get_absent", "final get({k})={g:?} for a key that was evicted/removed/never put"); } }
    let extra = rec.take(); ensure!(extra.is_empty(), "evict_cb_unexpected", "callback events during the read-only final sweep: {extra:?}");
    c.note("evictions", evictions); c.note("ops", ops.len() as u64);
    Ok(())
}

fn lru_cfg(preset: &str, cap: usize) -> LruMapConfig {
    let mut cfg = match preset { "perf" => LruMapConfig::performance_optimized(), "mem" => LruMapConfig::memory_optimized(), "sec" => LruMapConfig::security_optimized(), _ => LruMapConfig::default() };
    cfg.capacity = cap; cfg
}

/// Tag predicate (input-only, computed with the model): a clear() executed while some shard is not full, followed by at least one put.
fn tag_clear_nonfull(c: &mut Case, ops: &[Op], cap: usize, nshards: usize, assign: &HashMap<u64, usize>) {
    let mut m = Model::new(cap, nshards, assign.clone()); let mut id = 1; let mut armed = false;
    for op in ops { match *op { Op::Get(k) => { m.get(k); } Op::Put(k) => { if armed { c.tag("clear_nonfull"); return; } m.put(k, id); id += 1; } Op::Remove(k) => { m.remove(k); } Op::Clear => { if m.any_shard_nonfull() { armed = true; } m.clear(); } _ => {} } }
}

/// Shared wrapper: builds the map, runs the history, then drop accounting for the Tracked values.
fn seq_case(c: &mut Case, family: &str, cap: usize, nshards: usize, nkeys: u64, assign: HashMap<u64, usize>, build: &dyn Fn(Rec) -> ZR<Box<dyn SeqMap>>) -> Res {
    let nops = if c.rng.chance(1, 5) { 20 + c.rng.usize_below(40) } else { 80 + c.rng.usize_below(220) };
    let mut ops = gen_history(c, if family == "clearfull" { "mixed" } else { family }, nkeys, cap * nshards, nops);
    if family == "clearfull" { // directed: clear() only at moments when every shard is full (the path on which clear() returns every node to the free list)
        let mut m = Model::new(cap, nshards, assign.clone()); let mut id = 1; let mut out = Vec::with_capacity(ops.len() + 16);
        for op in &ops { match *op { Op::Get(k) => { m.get(k); } Op::Put(k) => { m.put(k, id); id += 1; } Op::Remove(k) => { m.remove(k); } _ => {} } out.push(*op); if !m.any_shard_nonfull() && c.rng.chance(1, 6) { out.push(Op::Clear); m.clear(); } }
        ops = out; }
    c.input("ops", &enc_ops(&ops)); c.set_nontrivial(ops.iter().filter(|o| matches!(o, Op::Put(_))).count() > cap * nshards);
    tag_clear_nonfull(c, &ops, cap, nshards, &assign);
    let rec = Rec::default();
    let map = match nopanic("constructor", || build(rec.clone()))? { Ok(m) => m, Err(e) => { c.note("ctor_err", 1); c.log(format!("constructor refused: {e}")); c.set_nontrivial(false); return Ok(()); } };
    let mut m = Model::new(cap, nshards, assign);
    let r = run_history(c, &*map, &rec, &mut m, &ops, nkeys);
    drop(map); let _ = rec.take();
    r?;
    let errs = mon::tracked_errors(); ensure!(errs.is_empty(), "double_drop", "{}", errs.join("; "));
    ensure!(mon::tracked_live() == 0, "value_leak", "{} values still alive after the map was dropped", mon::tracked_live());
    Ok(())
}

fn pick_cap(c: &mut Case) -> usize { *c.rng.pick(&[1usize, 1, 2, 2, 3, 3, 8]) }
fn pick_nkeys(c: &mut Case, total_cap: usize) -> u64 { (total_cap + 1 + c.rng.usize_below(total_cap.max(1))) as u64 }

fn lrumap_seq(c: &mut Case, preset: &str, family: &str) -> Res {
    mon::tracked_reset();
    let cap = if family == "cap1" { 1 } else { pick_cap(c) }; let nkeys = pick_nkeys(c, cap);
    c.input_str("cfg", &format!("preset={preset} cap={cap} nkeys={nkeys} family={family}"));
    let fam = if family == "cap1" { "mixed" } else { family };
    let p = preset.to_string();
    seq_case(c, fam, cap, 1, nkeys, HashMap::new(), &move |rec| -> ZR<Box<dyn SeqMap>> {
        if p == "ctor_cb" { Ok(Box::new(LruMap::<u64, Tracked, Rec>::with_eviction_callback(cap, rec)?)) } else { Ok(Box::new(LruMap::<u64, Tracked, Rec>::with_config_and_callback(lru_cfg(&p, cap), rec)?)) }
    })
}

/// Learn key -> shard from the public API: on a probe map with ample per-shard capacity, the shard whose size grows.
fn learn_assign(cfg: &ConcurrentLruMapConfig, nkeys: u64) -> Result<HashMap<u64, usize>, Fail> {
    let mut pc = cfg.clone(); pc.base_config.capacity = nkeys as usize + 1;
    let probe = ConcurrentLruMap::<u64, Tracked, Rec>::with_config_and_callback(pc, Rec::default()).map_err(|e| bad("__inconclusive", format!("probe map: {e}")))?;
    let mut a = HashMap::new();
    for k in 0..nkeys { let before = probe.shard_sizes(); let _ = probe.put(k, Tracked::new(0)); let after = probe.shard_sizes();
        let grown: Vec<usize> = (0..after.len()).filter(|&i| after[i] == before[i] + 1).collect();
        if grown.len() != 1 || after.iter().sum::<usize>() != before.iter().sum::<usize>() + 1 { return Err(bad("shard_assign_unobservable", format!("put({k}) on an empty-enough probe map changed shard sizes {before:?} -> {after:?}"))); }
        a.insert(k, grown[0]); }
    Ok(a)
}

fn clru_seq(c: &mut Case, variant: &str, family: &str) -> Res {
    mon::tracked_reset();
    let cap = *c.rng.pick(&[1usize, 1, 2, 3]);
    let (mut cfg, via_ctor) = match variant {
        "preset_default" => (ConcurrentLruMapConfig::default(), false),
        "preset_perf" => (ConcurrentLruMapConfig::performance_optimized(), false),
        "preset_mem" => (ConcurrentLruMapConfig::memory_optimized(), false),
        "ctor_cb" => (ConcurrentLruMapConfig { shard_count: *c.rng.pick(&[1usize, 2, 4]), ..Default::default() }, true),
        v => { let n: usize = v[1..].parse().unwrap(); let base = *c.rng.pick(&["default", "perf", "mem", "sec"]); (ConcurrentLruMapConfig { base_config: lru_cfg(base, cap), shard_count: n, load_balancing: LoadBalancingStrategy::Hash }, false) }
    };
    cfg.base_config.capacity = cap; let ns = cfg.shard_count;
    let nkeys = pick_nkeys(c, cap * ns).min(250);
    c.input_str("cfg", &format!("variant={variant} shards={ns} cap_per_shard={cap} nkeys={nkeys} family={family} secure={} stats={}", cfg.base_config.use_secure_memory, cfg.base_config.enable_statistics));
    let assign = if ns > 1 { match nopanic("probe", || learn_assign(&cfg, nkeys))? { Ok(a) => a, Err(f) if f.oracle == "__inconclusive" => { c.note("ctor_err", 1); return Ok(()); } Err(f) => return Err(f) } } else { HashMap::new() };
    let used: HashSet<usize> = assign.values().copied().collect(); c.note("shards_used", used.len().max(1) as u64);
    let extra = if via_ctor { c.rng.usize_below(ns) } else { 0 }; // total_capacity not divisible by shard_count: floor per shard
    seq_case(c, family, cap, ns, nkeys, assign, &move |rec| -> ZR<Box<dyn SeqMap>> {
        if via_ctor { Ok(Box::new(ConcurrentLruMap::<u64, Tracked, Rec>::with_eviction_callback(cap * ns + extra, ns, rec)?)) } else { Ok(Box::new(ConcurrentLruMap::<u64, Tracked, Rec>::with_config_and_callback(cfg.clone(), rec)?)) }
    })
}

/// Non-hash load balancing with ample capacity (every shard can hold the whole key space): no eviction can be needed,
/// so the map must behave exactly like a plain map and the callback must stay silent.
fn clru_lb(c: &mut Case, lb: LoadBalancingStrategy, name: &str) -> Res {
    mon::tracked_reset();
    let ns = *c.rng.pick(&[1usize, 2, 4, 8]); let nkeys = 2 + c.rng.below(6); let nops = 10 + c.rng.usize_below(60);
    c.input_str("cfg", &format!("lb={name} shards={ns} nkeys={nkeys} cap_per_shard=64"));
    if name == "rr" && ns > 1 { c.tag("lb_round_robin_multi_shard"); }
    let ops = gen_history(c, "mixed", nkeys, 64, nops); c.input("ops", &enc_ops(&ops)); c.set_nontrivial(true);
    let rec = Rec::default();
    let cfg = ConcurrentLruMapConfig { base_config: lru_cfg("default", 64), shard_count: ns, load_balancing: lb };
    let map = match ConcurrentLruMap::<u64, Tracked, Rec>::with_config_and_callback(cfg, rec.clone()) { Ok(m) => m, Err(e) => return fail("ctor_err", format!("{e}")) };
    let mut model: HashMap<u64, u64> = HashMap::new(); let mut id = 1u64;
    let r = (|| -> Res { for (i, op) in ops.iter().enumerate() {
        match *op {
            Op::Get(k) => { let g = ConcurrentLruMap::get(&map, &k).map(|t| t.id); let w = model.get(&k).copied(); if g != w { let cls = match (g, w) { (None, Some(_)) => "lost_entry", (Some(_), None) => "get_returned_absent", _ => "stale_value" }; return fail(cls, format!("step {i}: get({k})={g:?} want {w:?} (no eviction possible: {} keys, 64 per shard); history: {}", nkeys, show_ops(&ops, i))); } }
            Op::Put(k) => { let r = match ConcurrentLruMap::put(&map, k, Tracked::new(id)) { Ok(r) => r.map(|t| t.id), Err(e) => return fail("put_err", format!("step {i}: {e}")) }; let w = model.insert(k, id); id += 1; ensure!(r == w, "put_return", "step {i}: put({k}) returned old={r:?} want {w:?}; history: {}", show_ops(&ops, i)); }
            Op::Remove(k) => { let g = ConcurrentLruMap::remove(&map, &k).map(|t| t.id); let w = model.remove(&k); ensure!(g == w, "remove_return", "step {i}: remove({k})={g:?} want {w:?}; history: {}", show_ops(&ops, i)); }
            Op::Contains(k) => { let g = map.contains_key(&k); ensure!(g == model.contains_key(&k), "contains", "step {i}: contains_key({k})={g}; history: {}", show_ops(&ops, i)); }
            Op::Clear => { model.clear(); let _ = ConcurrentLruMap::clear(&map); }
            Op::Len => {}
        }
        c.ev(1);
        let l = ConcurrentLruMap::len(&map); ensure!(l == model.len(), "len", "step {i}: len()={l} but {} distinct keys are live; history: {}", model.len(), show_ops(&ops, i));
        let ev = rec.take(); ensure!(ev.is_empty(), "evict_cb_unexpected", "step {i}: callback {ev:?} although no shard can be full");
    } Ok(()) })();
    drop(map); r?;
    ensure!(mon::tracked_errors().is_empty(), "double_drop", "{:?}", mon::tracked_errors()); ensure!(mon::tracked_live() == 0, "value_leak", "{} live", mon::tracked_live());
    Ok(())
}

#[derive(Clone, Default)]
struct RecU(Arc<Mutex<Vec<(u64, u64)>>>);
impl EvictionCallback<u64, u64> for RecU { fn on_evict(&self, k: &u64, v: &u64) { self.0.lock().unwrap().push((*k, *v)); } }
impl RecU { fn take(&self) -> Vec<(u64, u64)> { std::mem::take(&mut *self.0.lock().unwrap()) } }

/// ThreadAffinity across threads, strictly sequential hand-off (each thread is joined before the next starts):
/// thread i overwrites key k, afterwards every thread must read the last value.
fn clru_affinity_mt(c: &mut Case) -> Res {
    let ns = *c.rng.pick(&[2usize, 4, 16]); let nthreads = 12 + c.rng.usize_below(5); let k = c.rng.below(5);
    c.input_str("cfg", &format!("lb=affinity shards={ns} threads={nthreads} key={k} sequential hand-off")); c.set_nontrivial(true); c.tag("lb_thread_affinity_multi_thread");
    let cfg = ConcurrentLruMapConfig { base_config: lru_cfg("default", 64), shard_count: ns, load_balancing: LoadBalancingStrategy::ThreadAffinity };
    let map = Arc::new(ConcurrentLruMap::<u64, u64, RecU>::with_config_and_callback(cfg, RecU::default()).map_err(|e| bad("ctor_err", format!("{e}")))?);
    for t in 0..nthreads as u64 { let m = map.clone(); std::thread::spawn(move || { let _ = m.put(k, 1000 + t); }).join().map_err(|_| bad("panic_in_thread", "put panicked".into()))?; }
    let last = 1000 + nthreads as u64 - 1;
    for t in 0..nthreads { let m = map.clone(); let g = std::thread::spawn(move || m.get(&k)).join().map_err(|_| bad("panic_in_thread", "get panicked".into()))?; c.ev(1);
        match g { Some(v) if v == last => {} Some(v) => return fail("stale_value", format!("reader thread {t}: get({k})={v} but put({k},{last}) by another thread had completed before (ThreadAffinity sends each thread to its own shard)")), None => return fail("lost_entry", format!("reader thread {t}: get({k})=None after {nthreads} completed puts, capacity 64 per shard")) } }
    let l = map.len(); ensure!(l == 1, "len", "one distinct key was put but len()={l}");
    Ok(())
}

// =============================================================================================
// Part 2: concurrent per-key history check (values are unique and encode their key: v = key << 32 | seq)
// =============================================================================================
trait ConcMap: Send + Sync {
    fn get(&self, k: u64) -> Option<u64>;
    fn put(&self, k: u64, v: u64) -> ZR<Option<u64>>;
    fn remove(&self, k: u64) -> Option<u64>;
    fn clear(&self) -> ZR<()>;
    fn len(&self) -> usize;
    fn sizes(&self) -> Vec<usize>;
}
impl ConcMap for LruMap<u64, u64, RecU> {
    fn get(&self, k: u64) -> Option<u64> { LruMap::get(self, &k) }
    fn put(&self, k: u64, v: u64) -> ZR<Option<u64>> { LruMap::put(self, k, v) }
    fn remove(&self, k: u64) -> Option<u64> { LruMap::remove(self, &k) }
    fn clear(&self) -> ZR<()> { LruMap::clear(self) }
    fn len(&self) -> usize { LruMap::len(self) }
    fn sizes(&self) -> Vec<usize> { vec![LruMap::len(self)] }
}
impl ConcMap for ConcurrentLruMap<u64, u64, RecU> {
    fn get(&self, k: u64) -> Option<u64> { ConcurrentLruMap::get(self, &k) }
    fn put(&self, k: u64, v: u64) -> ZR<Option<u64>> { ConcurrentLruMap::put(self, k, v) }
    fn remove(&self, k: u64) -> Option<u64> { ConcurrentLruMap::remove(self, &k) }
    fn clear(&self) -> ZR<()> { ConcurrentLruMap::clear(self) }
    fn len(&self) -> usize { ConcurrentLruMap::len(self) }
    fn sizes(&self) -> Vec<usize> { ConcurrentLruMap::shard_sizes(self) }
}

#[derive(Clone, Copy, Debug)]
struct Ev { kind: u8, k: u64, v: u64, some: bool, s: u64, e: u64 } // kind: b'g' get, b'p' put (v = value put, ret in `old`), b'r' remove, b'X' clear
#[derive(Clone, Copy, Debug)]
struct PutRec { k: u64, v: u64, old: Option<u64>, ok: bool, s: u64, e: u64 }

struct ConcPlan { readers: usize, writers: usize, removers: usize, ops: usize, nkeys: u64, clear_pct: u64, ample: bool, prefill: u64 }

/// Run the free-running workload. put()/clear() are serialised by `wlock` (put||put and put||clear can deadlock inside
/// LruMap: lock-order inversion between evict_lru and the update path, see REPORT), get/remove run unserialised.
fn conc_run(c: &mut Case, map: Arc<dyn ConcMap>, rec: RecU, plan: &ConcPlan, cap_per_shard: usize) -> Res {
    let clock = Arc::new(AtomicU64::new(1)); let seq = Arc::new(AtomicU64::new(1));
    let n = plan.readers + plan.writers + plan.removers; let barrier = Arc::new(Barrier::new(n)); let finished = Arc::new(AtomicUsize::new(0));
    let wlock: Arc<Mutex<(Vec<PutRec>, Vec<(u64, u64)>, Vec<(u64, u64, u64)>, Vec<String>)>> = Arc::new(Mutex::new((vec![], vec![], vec![], vec![]))); // puts in order, clears (s,e), callbacks (k,v,stamp)
    if plan.prefill > 0 { // sequential fill by this thread, logged like any other put (huge_* workloads: start from a full map)
        let mut g = wlock.lock().unwrap();
        for k in 0..plan.prefill { let v = (k << 32) | seq.fetch_add(1, Ordering::SeqCst); let s = clock.fetch_add(1, Ordering::SeqCst); let r = map.put(k, v); let e = clock.fetch_add(1, Ordering::SeqCst);
            let (ok, old) = match r { Ok(o) => (true, o), Err(er) => { g.3.push(format!("prefill: {er}")); (false, None) } }; g.0.push(PutRec { k, v, old, ok, s, e }); for (ck, cv) in rec.take() { g.2.push((ck, cv, e)); } }
    }
    let mut handles = vec![];
    for t in 0..n {
        let (map, rec, clock, seq, barrier, finished, wlock) = (map.clone(), rec.clone(), clock.clone(), seq.clone(), barrier.clone(), finished.clone(), wlock.clone());
        let mut rng = c.rng.fork(); let (ops, nkeys, clear_pct) = (plan.ops, plan.nkeys, plan.clear_pct);
        let role = if t < plan.writers { 0 } else if t < plan.writers + plan.readers { 1 } else { 2 };
        handles.push(std::thread::spawn(move || -> Vec<Ev> {
            let r = std::panic::catch_unwind(std::panic::AssertUnwindSafe(|| {
                let mut log = Vec::with_capacity(ops); barrier.wait();
                for i in 0..ops {
                    let k = rng.below(nkeys);
                    match role {
                        0 => { let mut g = wlock.lock().unwrap();
                            if rng.below(100) < clear_pct { let s = clock.fetch_add(1, Ordering::SeqCst); let _ = map.clear(); let e = clock.fetch_add(1, Ordering::SeqCst); g.1.push((s, e)); }
                            else { let v = (k << 32) | seq.fetch_add(1, Ordering::SeqCst); let s = clock.fetch_add(1, Ordering::SeqCst); let r = map.put(k, v); let e = clock.fetch_add(1, Ordering::SeqCst);
                                let (ok, old) = match r { Ok(o) => (true, o), Err(er) => { let l = map.len(); g.3.push(format!("{er} (len()={l} right after)")); (false, None) } }; g.0.push(PutRec { k, v, old, ok, s, e });
                                for (ck, cv) in rec.take() { g.2.push((ck, cv, e)); } }
                            drop(g); if i % 7 == 0 { std::thread::yield_now(); } }
                        1 => { let s = clock.fetch_add(1, Ordering::SeqCst); let r = map.get(k); let e = clock.fetch_add(1, Ordering::SeqCst); log.push(Ev { kind: b'g', k, v: r.unwrap_or(0), some: r.is_some(), s, e }); }
                        _ => { if i % 3 == 0 { let s = clock.fetch_add(1, Ordering::SeqCst); let r = map.remove(k); let e = clock.fetch_add(1, Ordering::SeqCst); log.push(Ev { kind: b'r', k, v: r.unwrap_or(0), some: r.is_some(), s, e }); } else { std::thread::yield_now(); } }
                    }
                }
                log }));
            finished.fetch_add(1, Ordering::SeqCst);
            match r { Ok(l) => l, Err(_) => vec![Ev { kind: b'!', k: 0, v: 0, some: false, s: 0, e: 0 }] }
        }));
    }
    let t0 = std::time::Instant::now();
    while finished.load(Ordering::SeqCst) < n { if t0.elapsed().as_secs() > 40 { return inconclusive(format!("only {}/{} worker threads finished within 40 s (blocked inside the map?)", finished.load(Ordering::SeqCst), n)); } std::thread::sleep(std::time::Duration::from_micros(300)); }
    let mut evs: Vec<Ev> = vec![]; for h in handles { match h.join() { Ok(l) => evs.extend(l), Err(_) => return fail("panic_in_thread", "worker panicked outside catch_unwind") } }
    if evs.iter().any(|e| e.kind == b'!') { let (loc, msg) = take_panic().unwrap_or(("?".into(), "?".into())); return fail("panic_in_thread", format!("worker thread panicked at {loc}: {msg}")); }
    let g = wlock.lock().unwrap(); let (puts, clears, cbs) = (&g.0, &g.1, &g.2);
    // ---- index ----
    let mut by_val: HashMap<u64, usize> = HashMap::new(); let mut next_put: Vec<Option<usize>> = vec![None; puts.len()]; let mut last_on_key: HashMap<u64, usize> = HashMap::new(); let mut first_put_end: HashMap<u64, u64> = HashMap::new();
    let mut put_failed: Option<String> = None;
    for (i, p) in puts.iter().enumerate() { if !p.ok { if put_failed.is_none() { put_failed = Some(format!("put #{i} (key {}) returned Err({}) while only get/remove ran concurrently; capacity per shard {cap_per_shard}; {} of {} puts failed", p.k, g.3.first().cloned().unwrap_or_default(), g.3.len(), puts.len())); } continue; } by_val.insert(p.v, i); if let Some(&j) = last_on_key.get(&p.k) { next_put[j] = Some(i); } last_on_key.insert(p.k, i); first_put_end.entry(p.k).or_insert(p.e); }
    let mut cb_seen: HashMap<(u64, u64), u64> = HashMap::new();
    for &(k, v, stamp) in cbs {
        ensure!(v >> 32 == k, "evict_cb_key_value_mismatch", "callback got key {k} with value {v:#x} that was put for key {}", v >> 32);
        ensure!(by_val.contains_key(&v), "evict_cb_unknown_value", "callback got value {v:#x} that was never put");
        ensure!(cb_seen.insert((k, v), stamp).is_none(), "evict_cb_twice", "callback invoked twice for (key {k}, value {v:#x})");
        ensure!(!plan.ample, "evict_cb_below_capacity", "callback for key {k} although capacity per shard ({cap_per_shard}) >= number of keys ({})", plan.nkeys);
        c.ev(1);
    }
    let mut removed_by: HashMap<u64, (u64, u64)> = HashMap::new();
    for e in evs.iter().filter(|e| e.kind == b'r' && e.some) {
        ensure!(e.v >> 32 == e.k, "value_of_other_key", "remove({}) returned {:#x}, a value that was put for key {}", e.k, e.v, e.v >> 32);
        ensure!(by_val.contains_key(&e.v), "value_never_put", "remove({}) returned {:#x} which was never put", e.k, e.v);
        ensure!(removed_by.insert(e.v, (e.s, e.e)).is_none(), "removed_twice", "value {:#x} of key {} was returned by two remove() calls", e.v, e.k);
        if let Some(&st) = cb_seen.get(&(e.k, e.v)) { ensure!(!(e.s > st), "removed_after_evict_cb", "remove({}) invoked at tick {} returned value {:#x} that had been handed to the eviction callback by a put that returned at tick {st}", e.k, e.s, e.v); }
        c.ev(1);
    }
    // old values returned by put: puts are totally ordered, so only the previous put on the key can be the current value
    let mut prev_on_key: HashMap<u64, u64> = HashMap::new();
    for p in puts.iter().filter(|p| p.ok) { if let Some(o) = p.old { ensure!(o >> 32 == p.k, "value_of_other_key", "put({}) returned old value {:#x} that was put for key {}", p.k, o, o >> 32); ensure!(prev_on_key.get(&p.k) == Some(&o), "put_returned_stale_old", "put({}) returned old value {:#x} but the preceding put on that key stored {:?}", p.k, o, prev_on_key.get(&p.k)); c.ev(1); } prev_on_key.insert(p.k, p.v); }
    let (mut hits, mut misses) = (0u64, 0u64);
    for e in evs.iter().filter(|e| e.kind == b'g') {
        if !e.some { misses += 1;
            if plan.ample { if let Some(&fe) = first_put_end.get(&e.k) { ensure!(!(e.s > fe), "lost_entry", "get({}) invoked at tick {} returned None although a put on that key returned at tick {fe} and nothing is ever removed or evicted (capacity {} per shard >= {} keys)", e.k, e.s, cap_per_shard, plan.nkeys); c.ev(1); } }
            continue; }
        hits += 1; let v = e.v;
        ensure!(v >> 32 == e.k, "value_of_other_key", "get({}) returned {:#x}, a value that was only ever put for key {}", e.k, v, v >> 32);
        let pi = match by_val.get(&v) { Some(&i) => i, None => return fail("value_never_put", format!("get({}) returned {:#x} which was never put", e.k, v)) };
        let p = puts[pi]; ensure!(p.s < e.e, "value_from_future", "get({}) returned {:#x} before the put that stored it began", e.k, v);
        if let Some(ni) = next_put[pi] { let np = puts[ni]; ensure!(!(np.e < e.s), "stale_overwritten", "get({}) invoked at tick {} returned {:#x}, which had been overwritten by put(.., {:#x}) that returned at tick {}", e.k, e.s, v, np.v, np.e); }
        if let Some(&(_, re)) = removed_by.get(&v) { ensure!(!(re < e.s), "stale_removed", "get({}) invoked at tick {} returned {:#x}, which a remove() that returned at tick {re} had already taken out", e.k, e.s, v); }
        for &(cs, ce) in clears.iter() { ensure!(!(cs > p.e && ce < e.s), "stale_cleared", "get({}) returned {:#x} put before a clear() that completed before the get began", e.k, v); }
        if let Some(&st) = cb_seen.get(&(e.k, v)) { ensure!(!(e.s > st), "returned_after_evict_cb", "get({}) invoked at tick {} returned {:#x} after it was handed to the eviction callback (evicting put returned at tick {st})", e.k, e.s, v); }
        c.ev(5);
    }
    // ---- quiescent state ----
    let sizes = map.sizes(); for (s, &x) in sizes.iter().enumerate() { ensure!(x <= cap_per_shard, "shard_gt_capacity", "after the run shard {s} reports {x} entries > capacity {cap_per_shard}"); }
    let mut retrievable = 0usize;
    for k in 0..plan.nkeys { if let Some(v) = map.get(k) { retrievable += 1; ensure!(v >> 32 == k, "value_of_other_key", "quiescent get({k}) returned {v:#x}, a value put for key {}", v >> 32);
        let want = last_on_key.get(&k).map(|&i| puts[i].v); ensure!(Some(v) == want, "final_stale", "quiescent get({k})={v:#x} but the last put on that key stored {want:?}"); c.ev(1); } }
    let l = map.len(); ensure!(l == retrievable, "final_len_mismatch", "quiescent len()={l} but {retrievable} keys are retrievable");
    c.note("puts_failed", g.3.len() as u64); c.note("gets_hit", hits); c.note("gets_miss", misses); c.note("puts", puts.len() as u64); c.note("evict_cb", cbs.len() as u64); c.note("removes_hit", removed_by.len() as u64); c.note("clears", clears.len() as u64);
    if let Some(d) = put_failed { return fail("put_err", d); }
    Ok(())
}

fn conc_case(c: &mut Case, shards: usize, workload: &str) -> Res {
    let cap = *c.rng.pick(&[1usize, 1, 2, 3]); let ample = workload == "ample";
    let tot = (cap * shards.max(1)) as u64; let nkeys = if ample { 2 + c.rng.below(3) } else { tot + 1 + c.rng.below(tot + 1) };
    let cap = if ample { 8 } else { cap };
    let plan = ConcPlan { readers: 2 + c.rng.usize_below(3), writers: 1 + c.rng.usize_below(2), removers: if ample { 0 } else { c.rng.usize_below(2) }, ops: if c.tier == crate::ctx::Tier::Quick { 1500 } else { 6000 }, nkeys, clear_pct: if workload == "clear" { 2 } else { 0 }, ample, prefill: 0 };
    c.input_str("cfg", &format!("shards={shards} cap_per_shard={cap} nkeys={nkeys} readers={} writers={} removers={} ops={} workload={workload}", plan.readers, plan.writers, plan.removers, plan.ops));
    let s = c.rng.next(); c.input("rngstate", &s.to_le_bytes()); c.set_nontrivial(true); if workload == "clear" { c.tag("clear_nonfull"); } if !ample { c.tag("conc_get_vs_evicting_put"); if plan.removers > 0 { c.tag("conc_remove_vs_put"); } }
    let rec = RecU::default();
    let map: Arc<dyn ConcMap> = if shards == 0 { Arc::new(LruMap::<u64, u64, RecU>::with_config_and_callback(lru_cfg(*c.rng.pick(&["default", "perf", "mem"]), cap), rec.clone()).map_err(|e| bad("ctor_err", format!("{e}")))?) }
        else { Arc::new(ConcurrentLruMap::<u64, u64, RecU>::with_config_and_callback(ConcurrentLruMapConfig { base_config: lru_cfg("default", cap), shard_count: shards, load_balancing: LoadBalancingStrategy::Hash }, rec.clone()).map_err(|e| bad("ctor_err", format!("{e}")))?) };
    conc_run(c, map, rec, &plan, cap)
}

// ---- scripted interleaving: get(k1) between its index lookup and its node access, against an evicting put(k2) ----
static SCRIPT_PHASE: AtomicU64 = AtomicU64::new(0);
thread_local! { static ARMED: std::cell::Cell<bool> = std::cell::Cell::new(false); }
#[derive(Clone, Default, Debug, Hash)]
struct KeyS(u64);
impl PartialEq for KeyS { fn eq(&self, o: &KeyS) -> bool { let r = self.0 == o.0; if r && ARMED.with(|a| a.get()) { let _ = SCRIPT_PHASE.compare_exchange(2, 3, Ordering::SeqCst, Ordering::SeqCst); } r } }
impl Eq for KeyS {}
#[derive(Clone)]
struct CbScript;
fn wait_phase(p: u64, ms: u64) -> bool { let t0 = std::time::Instant::now(); while SCRIPT_PHASE.load(Ordering::SeqCst) != p { if t0.elapsed().as_millis() as u64 > ms { return false; } std::thread::yield_now(); } true }
impl EvictionCallback<KeyS, u64> for CbScript { fn on_evict(&self, _k: &KeyS, _v: &u64) { if SCRIPT_PHASE.compare_exchange(1, 2, Ordering::SeqCst, Ordering::SeqCst).is_ok() { if wait_phase(3, 250) { std::thread::sleep(std::time::Duration::from_micros(800)); } } } }

/// The reader has finished its index lookup for k_victim (signalled from K::eq, still holding the index read lock) while the writer is
/// inside the eviction callback for that same entry (holding the node lock). When both continue, the writer frees the node and
/// re-uses it for k_new. Allowed results of the get: the old value (linearised before the eviction) or None.
fn get_evict_window(c: &mut Case) -> Res {
    let cap = 1 + c.rng.usize_below(3); c.input_str("cfg", &format!("cap={cap} script=get_vs_evicting_put")); c.set_nontrivial(true); c.tag("get_concurrent_with_evicting_put");
    let map = Arc::new(LruMap::<KeyS, u64, CbScript>::with_eviction_callback(cap, CbScript).map_err(|e| bad("ctor_err", format!("{e}")))?);
    SCRIPT_PHASE.store(0, Ordering::SeqCst);
    for k in 0..cap as u64 { map.put(KeyS(k), 100 + k).map_err(|e| bad("put_err", format!("{e}")))?; } // key 0 is the LRU entry
    SCRIPT_PHASE.store(1, Ordering::SeqCst);
    let (m1, m2) = (map.clone(), map.clone());
    let w = std::thread::spawn(move || m1.put(KeyS(77), 7700).is_ok());
    let r = std::thread::spawn(move || { if !wait_phase(2, 3000) { return Err(()); } ARMED.with(|a| a.set(true)); let g = m2.get(&KeyS(0)); ARMED.with(|a| a.set(false)); Ok(g) });
    let wr = w.join().map_err(|_| bad("panic_in_thread", "writer panicked".into()))?; let rr = r.join().map_err(|_| bad("panic_in_thread", "reader panicked".into()))?;
    let reached = SCRIPT_PHASE.load(Ordering::SeqCst) == 3; SCRIPT_PHASE.store(0, Ordering::SeqCst);
    let g = match rr { Ok(g) => g, Err(()) => return inconclusive("eviction callback never ran") };
    // not reached = the implementation did not let the reader look the key up while the eviction was in progress; the result oracle below still applies
    c.note(if reached { "window_reached" } else { "window_not_reached" }, 1);
    ensure!(wr, "put_err", "evicting put failed"); c.ev(1);
    match g { None | Some(100) => {} Some(v) => return fail("value_of_other_key", format!("get(key 0) returned {v}, the value of key 77 (node re-used between get's index lookup and node access); capacity {cap}")) }
    let g2 = map.get(&KeyS(77)); ensure!(g2 == Some(7700), "lost_entry", "after the race get(77)={g2:?}");
    let g0 = map.get(&KeyS(0)); ensure!(g0.is_none(), "get_returned_absent", "evicted key 0 still returns {g0:?}");
    ensure!(map.len() == cap, "len", "len()={} want {cap}", map.len());
    c.note(if g.is_none() { "reader_saw_none" } else { "reader_saw_old" }, 1);
    Ok(())
}

// =============================================================================================
// Part 3: page cache over real files; oracle = the file's bytes held in memory
// =============================================================================================
/// `Single` carries one caller-owned CacheBuffer that is reused for most out-parameter reads (a buffer that still holds the
/// previous result is the realistic way `read(.., &mut buf)` is used) and a call counter choosing fresh vs reused
enum Pc { Lru(LruPageCache), Single(SingleLruPageCache, std::cell::RefCell<(CacheBuffer, u32)>) }
impl Pc {
    fn open(&self, p: &std::path::Path) -> ZR<FileId> { match self { Pc::Lru(c) => c.open_file(p), Pc::Single(c, _) => c.open_file(p) } }
    fn read(&self, f: FileId, off: u64, len: usize, alt: bool) -> ZR<CacheBuffer> { match self { Pc::Lru(c) => c.read(f, off, len), Pc::Single(c, cell) => if alt { let mut g = cell.borrow_mut(); g.1 += 1;
                if g.1 % 3 == 0 { let mut b = CacheBuffer::new(); c.read(f, off, len, &mut b)?; Ok(b) }
                else { c.read(f, off, len, &mut g.0)?; if g.0.len() != g.0.data().len() { return Err(zipora::ZiporaError::invalid_data("reused CacheBuffer: len() != data().len()")); } Ok(CacheBuffer::from_data(g.0.data().to_vec())) } }
            else { c.read_new(f, off, len) } } }
    fn prefetch(&self, f: FileId, off: u64, len: usize) -> ZR<()> { match self { Pc::Lru(c) => c.prefetch(f, off, len), Pc::Single(c, _) => c.prefetch(f, off, len) } }
    fn invalidate_page(&self, f: FileId, p: u32) -> ZR<()> { match self { Pc::Lru(c) => c.invalidate_page(f, p), Pc::Single(c, _) => c.invalidate_page(f, p) } }
    fn invalidate_range(&self, f: FileId, off: u64, len: usize) -> ZR<()> { match self { Pc::Lru(c) => c.invalidate_range(f, off, len), Pc::Single(c, _) => c.invalidate_range(f, off, len) } }
    fn close(&self, f: FileId) -> ZR<()> { match self { Pc::Lru(c) => c.close_file(f), Pc::Single(c, _) => c.close_file(f) } }
    fn file_size(&self, f: FileId) -> ZR<u64> { match self { Pc::Lru(c) => c.file_size(f), Pc::Single(c, _) => c.file_size(f) } }
    fn dirty_flush(&self, f: FileId, p: u32) -> ZR<()> { match self { Pc::Lru(c) => { c.mark_dirty(f, p)?; c.flush_file(f) } Pc::Single(c, _) => { c.mark_dirty(f, p)?; c.flush_file(f) } } }
    fn counters(&self) -> (u64, u64, u64) { let s = match self { Pc::Lru(c) => c.stats(), Pc::Single(c, _) => c.stats().snapshot() }; (s.hit_counts[0], s.total_misses, s.hit_counts[1]) }
}

fn pc_config(preset: &str, c: &mut Case) -> (PageCacheConfig, String) {
    let base = match preset { "perf" => PageCacheConfig::performance_optimized().with_huge_pages(false), "mem" => PageCacheConfig::memory_optimized(), "sec" => PageCacheConfig::security_optimized(), "perf_huge" => PageCacheConfig::performance_optimized(), _ => PageCacheConfig::balanced() };
    if preset == "perf_huge" { return (base.with_capacity(2 * 1024 * 1024), "cap=512p huge".into()); }
    let pages = *c.rng.pick(&[0usize, 1, 2, 2, 3, 4, 8]); let slack = if c.rng.chance(1, 3) { c.rng.usize_below(4096) } else { 0 };
    let cap = (pages * PAGE_SIZE + slack).max(1000); let shards = *c.rng.pick(&[1u32, 2, 4, 8, 64]);
    (base.with_capacity(cap).with_shards(shards), format!("cap={cap}B({}p) shards={shards}", cap / PAGE_SIZE))
}

/// position-dependent content: every 8-byte word is a hash of (salt, word index)
fn file_bytes(salt: u64, len: usize) -> Vec<u8> { let mut v = Vec::with_capacity(len + 8); let mut i = 0u64; while v.len() < len { let mut x = salt ^ i.wrapping_mul(0x9E3779B97F4A7C15); let w = crate::rng::splitmix64(&mut x); v.extend_from_slice(&w.to_le_bytes()); i += 1; } v.truncate(len); v }
const FILE_SIZES: &[usize] = &[1, 2, 100, 4095, 4096, 4097, 8191, 8192, 8193, 12288, 20000, 40960, 40961, 65536, 100000, 163840];

struct PFile { path: std::path::PathBuf, id: FileId, data: Vec<u8> }
/// (offset, len) fully inside the file (len may be 0, may end exactly at EOF), biased to page boundaries
fn pick_range(c: &mut Case, size: usize) -> (u64, usize) {
    let npages = (size + PAGE_SIZE - 1) / PAGE_SIZE;
    let off = match c.rng.below(6) { 0 => 0, 1 => c.rng.usize_below(size + 1), _ => { let p = c.rng.usize_below(npages.max(1)); let d = *c.rng.pick(&[0usize, 0, 1, 2, 4094, 4095, 100, 2048]); (p * PAGE_SIZE + d).min(size) } };
    let rem = size - off; let to_boundary = PAGE_SIZE - off % PAGE_SIZE;
    let len = match c.rng.below(9) { 0 => 0, 1 => 1, 2 => to_boundary, 3 => to_boundary + 1, 4 => PAGE_SIZE, 5 => PAGE_SIZE + 1, 6 => rem, 7 => c.rng.usize_below(3 * PAGE_SIZE + 2), _ => c.rng.usize_below(rem + 1) };
    (off as u64, len.min(rem))
}
fn check_buf(c: &mut Case, what: &str, buf: &CacheBuffer, want: &[u8], off: u64, step: usize) -> Res {
    let got = buf.data(); c.ev(1);
    if got != want { let first = got.iter().zip(want.iter()).position(|(a, b)| a != b).unwrap_or(got.len().min(want.len()));
        let cls = if got.len() != want.len() { "read_len" } else { "read_bytes" };
        return fail(cls, format!("step {step}: {what} at offset {off} len {}: got {} bytes, first difference at +{first} (page {}, in-page {})", want.len(), got.len(), (off as usize + first) / PAGE_SIZE, (off as usize + first) % PAGE_SIZE)); }
    ensure!(buf.len() == want.len() && buf.is_empty() == want.is_empty(), "buffer_len", "step {step}: CacheBuffer::len()={} for {} bytes", buf.len(), want.len());
    Ok(())
}

fn pagecache_case(c: &mut Case, single: bool, preset: &str, family: &str) -> Res {
    let (cfg, cfgs) = pc_config(preset, c);
    let dir = tempfile::tempdir().map_err(|e| bad("__inconclusive", format!("tempdir: {e}")))?;
    let nfiles = if c.rng.chance(1, 3) { 1 } else { 2 };
    let sizes: Vec<usize> = (0..nfiles).map(|i| if i == 0 { if c.rng.chance(3, 4) { *c.rng.pick(FILE_SIZES) } else { 1 + c.rng.usize_below(40 * PAGE_SIZE) } } else { 1 + c.rng.usize_below(5 * PAGE_SIZE) }).collect();
    let salt = c.rng.next(); let nops = 30 + c.rng.usize_below(90);
    c.input_str("cfg", &format!("{} preset={preset} {cfgs} sizes={sizes:?} family={family} nops={nops}", if single { "single" } else { "lru" })); c.input("salt", &salt.to_le_bytes());
    let cache = match nopanic("constructor", || if single { SingleLruPageCache::new(cfg.clone()).map(|x| Pc::Single(x, Default::default())) } else { LruPageCache::new(cfg.clone()).map(Pc::Lru) })? { Ok(x) => x, Err(e) => { c.note("ctor_err", 1); c.log(format!("ctor: {e}")); return Ok(()); } };
    let mut files: Vec<PFile> = vec![];
    for (i, &sz) in sizes.iter().enumerate() { let data = file_bytes(salt.wrapping_add(i as u64 * 7919), sz); let path = dir.path().join(format!("f{i}.bin")); std::fs::write(&path, &data).map_err(|e| bad("__inconclusive", format!("write: {e}")))?;
        let id = match cache.open(&path) { Ok(id) => id, Err(e) => return fail("open_err", format!("{e}")) };
        match cache.file_size(id) { Ok(s) => ensure!(s == sz as u64, "file_size", "file_size()={s} want {sz}"), Err(e) => return fail("file_size", format!("{e}")) }
        files.push(PFile { path, id, data }); }
    c.set_nontrivial(sizes[0] > cfg.capacity || nops > 40);
    let mut kept: Vec<(CacheBuffer, Vec<u8>, u64)> = vec![]; let mut oplog = String::new();
    let eof_family = family == "eof";
    for step in 0..nops {
        let fi = c.rng.usize_below(files.len()); let size = files[fi].data.len(); let id = files[fi].id;
        let x = c.rng.below(100);
        if x < 55 { // read
            let (off, len) = if eof_family && c.rng.chance(1, 2) { let off = match c.rng.below(4) { 0 => size as u64, 1 => size as u64 + 1 + c.rng.below(3 * PAGE_SIZE as u64), _ => c.rng.below(size as u64 + 1) }; let len = (size as u64).saturating_sub(off) as usize + 1 + c.rng.usize_below(2 * PAGE_SIZE);
                    if (off as usize) < size && size % PAGE_SIZE != 0 { c.tag("eof_cross_partial_page"); } (off, len) } else { pick_range(c, size) };
            c.hash_more(&off.to_le_bytes()); c.hash_more(&len.to_le_bytes()); if oplog.len() < 600 { oplog.push_str(&format!("R{fi}@{off}+{len} ")); }
            let alt = c.rng.bool();
            let r = nopanic("read", || cache.read(id, off, len, alt))?;
            let lo = (off as usize).min(size); let hi = (off as usize).saturating_add(len).min(size); let want = &files[fi].data[lo..hi];
            let beyond = off as usize + len > size;
            match r { Ok(buf) => { if beyond { if buf.data() != want { let got = buf.data(); let pre = got.len() <= want.len() && got == &want[..got.len()];
                            return fail(if pre { "eof_short_read" } else { "eof_other_bytes" }, format!("step {step}: read(off={off}, len={len}) on a {size}-byte file returned Ok with {} bytes; the available prefix has {} bytes", got.len(), want.len())); } c.ev(1); }
                        else { check_buf(c, "read", &buf, want, off, step)?; }
                        if c.rng.chance(1, 6) && kept.len() < 12 { kept.push((buf, want.to_vec(), off)); } }
                Err(e) => { if !beyond { return fail("read_err", format!("step {step}: read(off={off}, len={len}) inside a {size}-byte file: Err({e})")); } c.note("eof_err", 1); } }
        } else if x < 63 { // batch (lru) / a run of adjacent reads (single)
            let reqs: Vec<(u64, usize)> = (0..1 + c.rng.usize_below(4)).map(|_| pick_range(c, size)).collect(); if oplog.len() < 600 { oplog.push_str(&format!("B{fi}x{} ", reqs.len())); }
            match &cache { Pc::Lru(lc) => { let rq: Vec<(FileId, u64, usize)> = reqs.iter().map(|&(o, l)| (id, o, l)).collect(); let rs = match nopanic("read_batch", || lc.read_batch(rq))? { Ok(r) => r, Err(e) => return fail("read_err", format!("step {step}: read_batch Err({e})")) };
                    ensure!(rs.len() == reqs.len(), "read_batch_len", "step {step}: {} results for {} requests", rs.len(), reqs.len());
                    for (b, &(o, l)) in rs.iter().zip(reqs.iter()) { check_buf(c, "read_batch", b, &files[fi].data[o as usize..o as usize + l], o, step)?; } }
                Pc::Single(..) => { for &(o, l) in &reqs { let b = cache.read(id, o, l, true).map_err(|e| bad("read_err", format!("step {step}: {e}")))?; check_buf(c, "read(buf)", &b, &files[fi].data[o as usize..o as usize + l], o, step)?; } } }
        } else if x < 71 { let (off, len) = pick_range(c, size); if oplog.len() < 600 { oplog.push_str(&format!("P{fi}@{off}+{len} ")); }
            match &cache { Pc::Lru(lc) if c.rng.bool() => { let (o2, l2) = pick_range(c, size); let ahead = c.rng.usize_below(2 * PAGE_SIZE); let ahead = ahead.min(size - (o2 as usize + l2));
                    let b = nopanic("read_with_prefetch", || lc.read_with_prefetch(id, o2, l2, ahead))?.map_err(|e| bad("read_err", format!("step {step}: read_with_prefetch: {e}")))?; check_buf(c, "read_with_prefetch", &b, &files[fi].data[o2 as usize..o2 as usize + l2], o2, step)?; }
                _ => { nopanic("prefetch", || cache.prefetch(id, off, len))?.map_err(|e| bad("prefetch_err", format!("step {step}: {e}")))?; } }
        } else if x < 79 { // invalidate without changing the file: later reads must still be right
            if c.rng.bool() { let p = c.rng.usize_below(size / PAGE_SIZE + 2) as u32; if oplog.len() < 600 { oplog.push_str(&format!("I{fi}p{p} ")); } nopanic("invalidate_page", || cache.invalidate_page(id, p))?.map_err(|e| bad("invalidate_err", format!("{e}")))?; }
            else { let (off, len) = pick_range(c, size); if oplog.len() < 600 { oplog.push_str(&format!("I{fi}@{off}+{len} ")); } nopanic("invalidate_range", || cache.invalidate_range(id, off, len))?.map_err(|e| bad("invalidate_err", format!("{e}")))?; }
        } else if x < 90 { // rewrite a range of the file in place (same length), then invalidate exactly the touched pages
            let (off, len) = pick_range(c, size); if len == 0 { continue; } if oplog.len() < 600 { oplog.push_str(&format!("W{fi}@{off}+{len} ")); }
            // make sure the old content of these pages is resident first (that is what could go stale)
            if c.rng.chance(2, 3) { let _ = cache.read(id, off, len, false); }
            let newb = c.rng.bytes(len); { use std::io::{Seek, SeekFrom, Write}; let mut f = std::fs::OpenOptions::new().write(true).open(&files[fi].path).map_err(|e| bad("__inconclusive", format!("reopen: {e}")))?; f.seek(SeekFrom::Start(off)).and_then(|_| f.write_all(&newb)).map_err(|e| bad("__inconclusive", format!("rewrite: {e}")))?; }
            files[fi].data[off as usize..off as usize + len].copy_from_slice(&newb);
            if c.rng.bool() { nopanic("invalidate_range", || cache.invalidate_range(id, off, len))?.map_err(|e| bad("invalidate_err", format!("{e}")))?; }
            else { for p in (off as usize / PAGE_SIZE)..=((off as usize + len - 1) / PAGE_SIZE) { nopanic("invalidate_page", || cache.invalidate_page(id, p as u32))?.map_err(|e| bad("invalidate_err", format!("{e}")))?; } }
            let b = nopanic("read", || cache.read(id, off, len, false))?.map_err(|e| bad("read_err", format!("step {step}: {e}")))?;
            if b.data() != &files[fi].data[off as usize..off as usize + len] { return fail("stale_after_invalidate", format!("step {step}: file {fi} rewritten at {off}+{len} and invalidated, read returns {} bytes that differ from the new content; ops: {oplog}", b.len())); }
            c.ev(1); c.note("rewrites", 1);
        } else if x < 94 { let p = c.rng.usize_below(size / PAGE_SIZE + 1) as u32; nopanic("mark_dirty/flush", || cache.dirty_flush(id, p))?.map_err(|e| bad("flush_err", format!("{e}")))?; }
        else if x < 97 { // close and reopen: a new id, the other file must be untouched
            if oplog.len() < 600 { oplog.push_str(&format!("C{fi} ")); }
            nopanic("close_file", || cache.close(id))?.map_err(|e| bad("close_err", format!("step {step}: {e}")))?;
            let nid = cache.open(&files[fi].path).map_err(|e| bad("open_err", format!("reopen: {e}")))?; ensure!(nid != id, "file_id_reused", "reopened file got the id {id} of the closed one"); files[fi].id = nid; c.note("reopens", 1);
        } else { for (b, want, off) in &kept { if b.data() != &want[..] { return fail("kept_buffer_changed", format!("step {step}: a CacheBuffer from an earlier read at offset {off} no longer holds the bytes it was returned with")); } c.ev(1); } }
    }
    for (b, want, off) in &kept { if b.data() != &want[..] { return fail("kept_buffer_changed", format!("end: CacheBuffer from the read at offset {off} changed after later evictions")); } c.ev(1); }
    // final full sweep of every file in 1.5-page strides
    for f in &files { let mut off = 0usize; while off < f.data.len() { let len = (PAGE_SIZE + PAGE_SIZE / 2).min(f.data.len() - off); let b = cache.read(f.id, off as u64, len, false).map_err(|e| bad("read_err", format!("final sweep: {e}")))?; check_buf(c, "final sweep read", &b, &f.data[off..off + len], off as u64, nops)?; off += len; } }
    let (h, m, e) = cache.counters(); c.note("pc_hit", h); c.note("pc_miss", m); c.note("pc_evict", e); c.note("kept_bufs", kept.len() as u64);
    Ok(())
}

/// Offsets far beyond EOF: must be Err or an empty result, not a panic / other bytes.
fn pagecache_far(c: &mut Case, single: bool) -> Res {
    let dir = tempfile::tempdir().map_err(|e| bad("__inconclusive", format!("tempdir: {e}")))?;
    let size = *c.rng.pick(&[1usize, 4096, 10000]); let data = file_bytes(c.rng.next(), size); let path = dir.path().join("f.bin"); std::fs::write(&path, &data).map_err(|e| bad("__inconclusive", format!("{e}")))?;
    let cfg = PageCacheConfig::balanced().with_capacity(4 * PAGE_SIZE);
    let cache = if single { Pc::Single(SingleLruPageCache::new(cfg).map_err(|e| bad("ctor_err", format!("{e}")))?, Default::default()) } else { Pc::Lru(LruPageCache::new(cfg).map_err(|e| bad("ctor_err", format!("{e}")))?) };
    let id = cache.open(&path).map_err(|e| bad("open_err", format!("{e}")))?;
    let kind = c.rng.below(4);
    let (off, len): (u64, usize) = match kind { 0 => ((1u64 << 44) + c.rng.below(size as u64), 1 + c.rng.usize_below(100)), 1 => (u64::MAX - c.rng.below(50), 100 + c.rng.usize_below(5000)), 2 => ((1u64 << 32) * PAGE_SIZE as u64 * (1 + c.rng.below(1000)) + c.rng.below(4096), 1 + c.rng.usize_below(5000)), _ => ((1u64 << 40) + c.rng.below(1 << 20), c.rng.usize_below(9000)) };
    c.input_str("cfg", &format!("{} size={size} off={off} len={len}", if single { "single" } else { "lru" })); c.set_nontrivial(true);
    if off.checked_add(len as u64).is_none() { c.tag("offset_plus_len_overflows_u64"); } else if off >> 44 != 0 { c.tag("offset_page_id_exceeds_u32"); }
    let _ = cache.read(id, 0, size, false);
    let r = nopanic("read far beyond EOF", || cache.read(id, off, len, false))?; c.ev(1);
    if let Ok(b) = r { ensure!(b.data().is_empty(), "eof_other_bytes", "read(off={off}, len={len}) on a {size}-byte file returned {} bytes", b.len()); }
    let b = cache.read(id, 0, size, false).map_err(|e| bad("read_err", format!("{e}")))?; check_buf(c, "read after far read", &b, &data, 0, 1)
}

// =============================================================================================
// Part 4: CachedBlobStore vs the store it wraps
// =============================================================================================
fn cachedblob_case(c: &mut Case, strat: CacheWriteStrategy, shared_cache: bool) -> Res {
    let pages = *c.rng.pick(&[0usize, 1, 2, 4, 8]); let cfg = PageCacheConfig::balanced().with_capacity((pages * PAGE_SIZE).max(1000));
    let nops = 20 + c.rng.usize_below(80); c.input_str("cfg", &format!("strategy={strat:?} cache_pages={pages} shared_cache={shared_cache} nops={nops}"));
    let dir = tempfile::tempdir().map_err(|e| bad("__inconclusive", format!("tempdir: {e}")))?;
    let mut store = if shared_cache { // a cache that also serves a real file full of non-zero bytes: blobs must never be answered from it
            let cache = Arc::new(LruPageCache::new(cfg).map_err(|e| bad("ctor_err", format!("{e}")))?); let p = dir.path().join("other.bin"); std::fs::write(&p, file_bytes(c.rng.next(), 6 * PAGE_SIZE)).map_err(|e| bad("__inconclusive", format!("{e}")))?;
            let fid = cache.open_file(&p).map_err(|e| bad("open_err", format!("{e}")))?; let _ = cache.read(fid, 0, 6 * PAGE_SIZE);
            CachedBlobStore::with_cache_and_strategy(MemoryBlobStore::new(), cache, strat).map_err(|e| bad("ctor_err", format!("{e}")))? }
        else { CachedBlobStore::with_write_strategy(MemoryBlobStore::new(), cfg, strat).map_err(|e| bad("ctor_err", format!("{e}")))? };
    let mut twin = MemoryBlobStore::new(); let mut ids: Vec<u32> = vec![]; let mut removed: Vec<u32> = vec![]; let mut nontriv = 0;
    for step in 0..nops {
        let x = c.rng.below(100);
        if x < 35 || ids.is_empty() { let (kind, blob) = if c.rng.chance(1, 8) { (0, vec![]) } else { gen::bytes_any(&mut c.rng, 3 * PAGE_SIZE) }; c.hash_more(&blob); let _ = kind;
            let a = nopanic("put", || store.put(&blob))?; let b = twin.put(&blob);
            match (a, b) { (Ok(a), Ok(b)) => { ensure!(a == b, "put_id", "step {step}: cached store assigned id {a}, an identical plain store {b}"); ids.push(a); nontriv += 1; } (a, b) => return fail("put_err", format!("step {step}: cached {:?} twin {:?}", a.is_ok(), b.is_ok())) }
        } else if x < 75 { let id = if c.rng.chance(1, 8) && !removed.is_empty() { *c.rng.pick(&removed) } else { *c.rng.pick(&ids) };
            let got = nopanic("get", || store.get(id))?; let inner = store.inner().get(id); let tw = twin.get(id); c.ev(2);
            match (&got, &inner) { (Ok(g), Ok(i)) => { if g != i { return fail("cached_get_mismatch", format!("step {step}: get({id}) through the cache returned {} bytes, the wrapped store {} bytes (or different content)", g.len(), i.len())); } } (Err(_), Err(_)) => {} _ => return fail("cached_get_mismatch", format!("step {step}: get({id}) cached ok={} wrapped ok={}", got.is_ok(), inner.is_ok())) }
            match (&got, &tw) { (Ok(g), Ok(t)) => ensure!(g == t, "cached_get_vs_twin", "step {step}: get({id}) differs from an independent store fed the same operations"), (Err(_), Err(_)) => {} _ => return fail("cached_get_vs_twin", format!("step {step}: get({id}) ok={} twin ok={}", got.is_ok(), tw.is_ok())) }
            let (s1, s2) = (store.size(id).ok().flatten(), twin.size(id).ok().flatten()); ensure!(s1 == s2, "size", "step {step}: size({id})={s1:?} twin {s2:?}"); ensure!(store.contains(id) == twin.contains(id), "contains", "step {step}: contains({id})");
        } else if x < 88 { let i = c.rng.usize_below(ids.len()); let id = ids[i]; let a = nopanic("remove", || store.remove(id))?; let b = twin.remove(id); ensure!(a.is_ok() == b.is_ok(), "remove", "step {step}: remove({id}) ok={} twin ok={}", a.is_ok(), b.is_ok()); if a.is_ok() { ids.swap_remove(i); removed.push(id); }
            let g = store.get(id); ensure!(g.is_err(), "get_after_remove", "step {step}: get({id}) after remove returned {} bytes", g.map(|v| v.len()).unwrap_or(0)); c.ev(1);
        } else if x < 92 { if c.rng.bool() { store.disable_cache() } else { store.enable_cache() } }
        else if x < 96 { let off = c.rng.below(5 * PAGE_SIZE as u64); let len = c.rng.usize_below(2 * PAGE_SIZE); nopanic("prefetch_range", || store.prefetch_range(off, len))?.map_err(|e| bad("prefetch_err", format!("{e}")))?; let _ = store.flush(); }
        else { ensure!(BlobStore::len(&store) == twin.len(), "len", "step {step}: len()={} twin {}", BlobStore::len(&store), twin.len()); }
    }
    store.enable_cache();
    for &id in &ids { let g = store.get(id).map_err(|e| bad("cached_get_mismatch", format!("final get({id}) Err({e})")))?; let t = twin.get(id).map_err(|e| bad("__inconclusive", format!("{e}")))?; ensure!(g == t, "cached_get_vs_twin", "final get({id}) differs"); c.ev(1); }
    c.set_nontrivial(nontriv >= 2); Ok(())
}

// =============================================================================================
// Part 5: FsaCache (state cache): bounded, ids map to what was cached under them, nothing stale after eviction / id re-use
// =============================================================================================
fn fsacache_case(c: &mut Case, strat: CacheStrategy) -> Res {
    let max_states = *c.rng.pick(&[1usize, 2, 3, 5, 10, 25]); let nops = 40 + c.rng.usize_below(160);
    c.input_str("cfg", &format!("strategy={strat:?} max_states={max_states} nops={nops}")); let s = c.rng.next(); c.input("rng", &s.to_le_bytes()); c.set_nontrivial(nops > max_states);
    let mut cache = FsaCache::with_config(FsaCacheConfig { max_states, strategy: strat, compressed_paths: c.rng.bool(), use_hugepages: false, max_memory_bytes: if c.rng.bool() { 1 << 20 } else { 0 } }).map_err(|e| bad("ctor_err", format!("{e}")))?;
    let mut model: HashMap<u32, (u32, u32, bool)> = HashMap::new(); let mut paths: HashMap<u32, Vec<u8>> = HashMap::new(); let mut evicted = 0u64;
    for step in 0..nops {
        let x = c.rng.below(100);
        if x < 55 { let (parent, base, term) = (c.rng.below(1 << 24) as u32, c.rng.next() as u32, c.rng.bool());
            let id = nopanic("cache_state", || cache.cache_state(parent, base, term))?.map_err(|e| bad("cache_state_err", format!("step {step}: {e}")))?;
            if model.insert(id, (parent, base, term)).is_some() { c.note("id_reused_while_in_model", 1); } paths.remove(&id);
            // whatever was evicted must be gone consistently; whatever is still served must be exact
            let keys: Vec<u32> = model.keys().copied().collect();
            for k in keys { match cache.get_state(k) { None => { ensure!(k != id, "lost_entry", "step {step}: state {id} is not retrievable right after cache_state returned it"); model.remove(&k); paths.remove(&k); evicted += 1; }
                Some(st) => { let w = model[&k]; ensure!((st.parent(), st.child_base, st.is_terminal()) == w && !st.is_free(), "stale_value", "step {step}: get_state({k}) = ({}, {}, {}) want {w:?}", st.parent(), st.child_base, st.is_terminal()); } } c.ev(1); }
            if let Some(zp) = cache.get_zero_path(id) { if !paths.contains_key(&id) { return fail("stale_zero_path", format!("step {step}: freshly cached state {id} already has a zero-path of {} bytes (left over from an earlier state with the same id)", zp.segments.len())); } }
            let n = cache.stats().cached_states; ensure!(n <= max_states, "len_gt_capacity", "step {step}: {n} states cached, max_states {max_states}"); ensure!(n == model.len(), "len", "step {step}: stats().cached_states={n}, {} states retrievable", model.len());
        } else if x < 70 && !model.is_empty() { let ks: Vec<u32> = { let mut k: Vec<u32> = model.keys().copied().collect(); k.sort(); k }; let id = *c.rng.pick(&ks); let sl = 1 + c.rng.usize_below(20); let seg = c.rng.bytes(sl); let mut zp = ZeroPathData::new(); let _ = zp.add_segment(&seg);
            nopanic("add_zero_path", || cache.add_zero_path(id, zp))?.map_err(|e| bad("add_zero_path_err", format!("step {step}: {e}")))?; paths.insert(id, seg);
        } else if x < 82 && !model.is_empty() { let ks: Vec<u32> = { let mut k: Vec<u32> = model.keys().copied().collect(); k.sort(); k }; let id = *c.rng.pick(&ks); let r = cache.remove_state(id); ensure!(r, "remove_return", "step {step}: remove_state({id}) = false for a cached state"); model.remove(&id); paths.remove(&id);
            ensure!(cache.get_state(id).is_none(), "get_returned_absent", "step {step}: get_state({id}) after remove_state"); ensure!(cache.get_zero_path(id).is_none(), "stale_zero_path", "step {step}: zero-path of removed state {id} still served");
        } else if x < 85 { cache.clear(); model.clear(); paths.clear(); }
        else { let ks: Vec<u32> = { let mut k: Vec<u32> = model.keys().copied().collect(); k.sort(); k }; for id in ks { let got = cache.get_zero_path(id).map(|z| z.get_full_path()); let want = paths.get(&id).cloned(); ensure!(got == want, "stale_zero_path", "step {step}: get_zero_path({id}) = {:?} want {:?}", got.map(|g| g.len()), want.map(|w| w.len())); c.ev(1); }
            let absent = c.rng.below(64) as u32; if !model.contains_key(&absent) { ensure!(cache.get_state(absent).is_none(), "get_returned_absent", "step {step}: get_state({absent}) for an id that is not cached"); } }
    }
    c.note("evicted", evicted); Ok(())
}

// =============================================================================================
// Part 6: large-input families (`huge_*`): capacities just above 2^16 / 2^17 / 2^18, > 65536 evictions, node indices and ids > 65535,
// sparse files > 4 GiB (page ids >= 2^20 and 2^16), multi-MiB reads through tiny caches. Cheap exact oracles (O(log n) LRU model, pread).
// =============================================================================================
/// O(log n) exact LRU model of one shard: key -> (value id, stamp), stamp -> key.
struct FastLru { cap: usize, map: HashMap<u64, (u64, u64)>, order: std::collections::BTreeMap<u64, u64>, tick: u64 }
impl FastLru {
    fn new(cap: usize) -> FastLru { FastLru { cap, map: HashMap::new(), order: Default::default(), tick: 0 } }
    fn touch(&mut self, k: u64) { if let Some(e) = self.map.get_mut(&k) { self.order.remove(&e.1); self.tick += 1; e.1 = self.tick; self.order.insert(self.tick, k); } }
    fn get(&mut self, k: u64) -> Option<u64> { let v = self.map.get(&k)?.0; self.touch(k); Some(v) }
    fn put(&mut self, k: u64, v: u64) -> (Option<u64>, Option<(u64, u64)>) {
        if let Some(e) = self.map.get_mut(&k) { let old = e.0; e.0 = v; self.touch(k); return (Some(old), None); }
        let ev = if self.map.len() >= self.cap { let (&st, &vk) = self.order.iter().next().unwrap(); self.order.remove(&st); let e = self.map.remove(&vk).unwrap(); Some((vk, e.0)) } else { None };
        self.tick += 1; self.map.insert(k, (v, self.tick)); self.order.insert(self.tick, k); (None, ev)
    }
    fn remove(&mut self, k: u64) -> Option<u64> { let e = self.map.remove(&k)?; self.order.remove(&e.1); Some(e.0) }
    fn peek(&self, k: u64) -> Option<u64> { self.map.get(&k).map(|e| e.0) }
}
/// Per-shard exact model for huge histories; the shard of a key is learnt online from the public API: the shard whose size grew on the key's
/// first insertion, or (shard full) the shard of the entry the callback reported as evicted to make room for it.
struct HugeSt { shards: Vec<FastLru>, assign: HashMap<u64, usize>, next_id: u64, evictions: u64, ops: u64 }
impl HugeSt {
    fn apply(&mut self, c: &mut Case, map: &dyn SeqMap, rec: &Rec, op: Op) -> Res {
        let ns = self.shards.len(); self.ops += 1; let i = self.ops;
        match op {
            Op::Put(k) => { let id = self.next_id; self.next_id += 1;
                let before = if ns > 1 && !self.assign.contains_key(&k) { map.shard_sizes() } else { None };
                let r = match map.put(k, Tracked::new(id)) { Ok(r) => r.map(|t| t.id), Err(e) => return fail("put_err", format!("op {i}: put({k:#x}) Err({e}); len()={}", map.len())) };
                let evs = rec.take();
                let s = match self.assign.get(&k) { Some(&s) => s, None => { let s = if ns == 1 { 0 } else { let after = map.shard_sizes().unwrap_or_default(); let b = before.unwrap_or_default();
                            let grown: Vec<usize> = (0..after.len().min(b.len())).filter(|&j| after[j] == b[j] + 1).collect();
                            if grown.len() == 1 { grown[0] } else if evs.len() == 1 && self.assign.contains_key(&evs[0].0) { self.assign[&evs[0].0] } else { return fail("shard_assign_unobservable", format!("op {i}: first put({k:#x}) changed shard sizes {b:?} -> {after:?} with callback events {evs:?}")); } };
                        self.assign.insert(k, s); s } };
                let (want_old, want_ev) = self.shards[s].put(k, id);
                ensure!(r == want_old, "put_return", "op {i}: put({k:#x}) returned old={r:?} want {want_old:?}");
                for e in &evs { ensure!(e.2, "evict_cb_value_corrupt", "op {i}: callback got a dropped/corrupted value for key {:#x}", e.0); }
                match (want_ev, evs.as_slice()) { (None, []) => {} (Some(w), [g]) if (g.0, g.1) == w => { self.evictions += 1; }
                    (Some(w), []) => return fail("evict_cb_missing", format!("op {i}: shard {s} is full ({} entries); the model evicts (key {:#x}, value {}) to make room for key {k:#x} but the callback was not invoked", self.shards[s].cap, w.0, w.1)),
                    (w, g) => { let k0 = g[0].0; let still = self.assign.get(&k0).map(|&sh| self.shards[sh].peek(k0) == Some(g[0].1)).unwrap_or(false) && map.get(k0).map(|t| t.id) == Some(g[0].1);
                        return fail(if still { "evict_cb_for_retrievable" } else { "evict_cb_unexpected" }, format!("op {i}: put({k:#x}) into shard {s}: callback events {g:?}, the model's LRU victim is {w:?}")); } }
                c.ev(2); }
            Op::Get(k) => { let want = self.assign.get(&k).and_then(|&s| self.shards[s].get(k)); let g = map.get(k); if let Some(t) = &g { ensure!(t.intact(), "value_corrupt", "op {i}: get({k:#x}) returned a dropped/corrupted value"); } let g = g.map(|t| t.id);
                if g != want { let cls = match (g, want) { (Some(_), None) => "get_returned_absent", (None, Some(_)) => "lost_entry", _ => "stale_value" }; return fail(cls, format!("op {i}: get({k:#x})={g:?} want {want:?}")); } c.ev(1); }
            Op::Remove(k) => { let want = self.assign.get(&k).and_then(|&s| self.shards[s].remove(k)); let g = map.remove(k).map(|t| t.id); ensure!(g == want, "remove_return", "op {i}: remove({k:#x})={g:?} want {want:?}"); let _ = rec.take(); c.ev(1); }
            Op::Contains(k) => { let want = self.assign.get(&k).map(|&s| self.shards[s].peek(k).is_some()).unwrap_or(false); let g = map.contains(k); ensure!(g == want, "contains", "op {i}: contains_key({k:#x})={g} want {want}"); c.ev(1); }
            _ => {}
        }
        Ok(())
    }
    fn len(&self) -> usize { self.shards.iter().map(|s| s.map.len()).sum() }
    fn check_sizes(&self, c: &mut Case, map: &dyn SeqMap, when: &str) -> Res {
        let l = map.len(); let cap: usize = self.shards.iter().map(|s| s.cap).sum(); ensure!(l <= cap, "len_gt_capacity", "{when}: len()={l} > capacity {cap}"); ensure!(l == self.len(), "len", "{when}: len()={l} model {}", self.len());
        if let Some(ss) = map.shard_sizes() { for (j, &n) in ss.iter().enumerate() { ensure!(n <= self.shards[j].cap, "shard_gt_capacity", "{when}: shard {j} holds {n} > {}", self.shards[j].cap); ensure!(n == self.shards[j].map.len(), "shard_size", "{when}: shard_sizes()[{j}]={n} model {}", self.shards[j].map.len()); } }
        c.ev(1); Ok(())
    }
}
const HUGE_CAPS: &[usize] = &[65537, 131073, 196609, 262145, 65536, 65535, 100003];
/// key of index i: small integers / differing only in the high bytes / multiplicative scramble
fn huge_key(mode: u32, i: u64) -> u64 { match mode { 0 => i, 1 => i << 40, _ => i.wrapping_mul(0x9E37_79B9_7F4A_7C15) | 1 } }

fn huge_lru_history(c: &mut Case, map: &dyn SeqMap, rec: &Rec, cap: usize, ns: usize, mode: u32) -> Res {
    let total = (cap * ns) as u64; let mut st = HugeSt { shards: (0..ns).map(|_| FastLru::new(cap)).collect(), assign: HashMap::new(), next_id: 1, evictions: 0, ops: 0 };
    ensure!(map.capacity() == total as usize, "capacity", "capacity()={} want {total}", map.capacity());
    let key = |i: u64| huge_key(mode, i);
    // 1. fill: exactly `total` distinct keys (a single map is now exactly full; shards fill unevenly and start evicting on their own)
    for i in 0..total { st.apply(c, map, rec, Op::Put(key(i)))?; if i == 65535 || i == 65536 || i == 131072 { st.check_sizes(c, map, "fill")?; } }
    st.check_sizes(c, map, "after fill")?;
    // 2. reshuffle recency across the whole node array: gets of scattered residents (incl. node indices around 2^16 / 2^17), some misses, some overwrites
    let nshuffle = (total / 3).min(60_000);
    for _ in 0..nshuffle { let i = if c.rng.chance(1, 8) { *c.rng.pick(&[65534u64, 65535, 65536, 65537, 131071, 131072, 131073, 0, 1]) % total } else { c.rng.below(total) };
        let op = match c.rng.below(10) { 0 => Op::Put(key(i)), 1 => Op::Contains(key(i)), 2 => Op::Get(key(total + c.rng.below(1000))), _ => Op::Get(key(i)) }; st.apply(c, map, rec, op)?; }
    // 3. more than 65536 evictions in a row, every victim compared with the model; interleaved refreshes so that the order is never the insertion order
    let extra = 70_000u64; let mut next = total;
    for j in 0..extra { st.apply(c, map, rec, Op::Put(key(next)))?; next += 1;
        if j % 5 == 0 { let i = c.rng.below(next); st.apply(c, map, rec, Op::Get(key(i)))?; } if j % 11 == 0 { let i = c.rng.below(next); if st.assign.get(&key(i)).map(|&s| st.shards[s].peek(key(i)).is_some()).unwrap_or(false) { st.apply(c, map, rec, Op::Put(key(i)))?; } } }
    st.check_sizes(c, map, "after eviction run")?;
    // 4. removals (free-list re-use of high node indices), re-insertion, a second eviction run
    for _ in 0..6000 { let i = c.rng.below(next); st.apply(c, map, rec, Op::Remove(key(i)))?; }
    st.check_sizes(c, map, "after removals")?;
    for _ in 0..12_000 { st.apply(c, map, rec, Op::Put(key(next)))?; next += 1; if c.rng.chance(1, 4) { let i = c.rng.below(next); st.apply(c, map, rec, Op::Get(key(i)))?; } }
    st.check_sizes(c, map, "after second run")?;
    // 5. final: every 5th resident from LRU to MRU plus both ends of every shard must be served with the right value; evicted keys must miss
    for s in 0..ns { let ks: Vec<u64> = st.shards[s].order.values().copied().collect(); let n = ks.len(); for (j, k) in ks.into_iter().enumerate() { if j % 5 == 0 || j < 64 || j + 64 >= n { st.apply(c, map, rec, Op::Get(k))?; } } }
    for _ in 0..5000 { let i = c.rng.below(next); st.apply(c, map, rec, Op::Get(key(i)))?; st.apply(c, map, rec, Op::Contains(key(i)))?; }
    let extra_ev = rec.take(); ensure!(extra_ev.is_empty(), "evict_cb_unexpected", "callback events during read-only operations: {:?}", &extra_ev[..extra_ev.len().min(3)]);
    st.check_sizes(c, map, "final")?;
    c.note("evictions", st.evictions); c.note("ops", st.ops); c.note("keys_seen", st.assign.len() as u64);
    Ok(())
}

fn huge_lrumap(c: &mut Case, preset: &str) -> Res {
    mon::tracked_reset();
    let cap = *c.rng.pick(HUGE_CAPS); let mode = c.rng.below(3) as u32;
    c.input_str("cfg", &format!("preset={preset} cap={cap} keymode={mode} huge")); let s = c.rng.next(); c.input("rng", &s.to_le_bytes()); c.set_nontrivial(true);
    let rec = Rec::default();
    let map = match nopanic("constructor", || if preset == "ctor_cb" { LruMap::<u64, Tracked, Rec>::with_eviction_callback(cap, rec.clone()) } else { LruMap::<u64, Tracked, Rec>::with_config_and_callback(lru_cfg(preset, cap), rec.clone()) })? { Ok(m) => m, Err(e) => return fail("ctor_err", format!("capacity {cap}: {e}")) };
    let r = huge_lru_history(c, &map, &rec, cap, 1, mode);
    drop(map); let _ = rec.take(); r?;
    let errs = mon::tracked_errors(); ensure!(errs.is_empty(), "double_drop", "{}", errs.join("; ")); ensure!(mon::tracked_live() == 0, "value_leak", "{} values still alive after the map was dropped", mon::tracked_live());
    Ok(())
}
fn huge_clru(c: &mut Case, variant: &str) -> Res {
    mon::tracked_reset();
    let (mut cfg, via_ctor) = match variant { "preset_default" => (ConcurrentLruMapConfig::default(), false), "preset_perf" => (ConcurrentLruMapConfig::performance_optimized(), false), "preset_mem" => (ConcurrentLruMapConfig::memory_optimized(), false),
        "ctor_cb" => (ConcurrentLruMapConfig { shard_count: *c.rng.pick(&[1usize, 2, 4]), ..Default::default() }, true),
        v => { let n: usize = v[1..].parse().unwrap(); let base = *c.rng.pick(&["default", "perf", "mem", "sec"]); (ConcurrentLruMapConfig { base_config: lru_cfg(base, 1), shard_count: n, load_balancing: LoadBalancingStrategy::Hash }, false) } };
    let ns = cfg.shard_count;
    // one shard: capacity just above 2^16..2^18; several shards: the *total* just above those limits, or every shard above 2^16
    let cap = if ns == 1 { *c.rng.pick(HUGE_CAPS) } else if c.rng.chance(1, 4) && ns <= 4 { 65537 } else { (*c.rng.pick(&[65537usize, 131073, 196609, 262145]) + ns - 1) / ns };
    cfg.base_config.capacity = cap; let mode = c.rng.below(3) as u32;
    c.input_str("cfg", &format!("variant={variant} shards={ns} cap_per_shard={cap} keymode={mode} huge")); let s = c.rng.next(); c.input("rng", &s.to_le_bytes()); c.set_nontrivial(true);
    let rec = Rec::default();
    let map = match nopanic("constructor", || if via_ctor { ConcurrentLruMap::<u64, Tracked, Rec>::with_eviction_callback(cap * ns + c.rng.usize_below(ns), ns, rec.clone()) } else { ConcurrentLruMap::<u64, Tracked, Rec>::with_config_and_callback(cfg.clone(), rec.clone()) })? { Ok(m) => m, Err(e) => { c.note("ctor_err", 1); c.log(format!("{e}")); c.set_nontrivial(false); return Ok(()); } };
    let r = huge_lru_history(c, &map, &rec, cap, ns, mode);
    drop(map); let _ = rec.take(); r?;
    let errs = mon::tracked_errors(); ensure!(errs.is_empty(), "double_drop", "{}", errs.join("; ")); ensure!(mon::tracked_live() == 0, "value_leak", "{} values still alive after the map was dropped", mon::tracked_live());
    Ok(())
}

/// Concurrent history on a map whose capacity is just above 2^16 (in total or per shard), started full: evictions and node re-use at indices > 65535.
fn huge_conc_case(c: &mut Case, shards: usize) -> Res {
    let ns = shards.max(1); let total = *c.rng.pick(&[65537usize, 131073]); let cap = (total + ns - 1) / ns; let tot = (cap * ns) as u64;
    let plan = ConcPlan { readers: 2 + c.rng.usize_below(2), writers: 1 + c.rng.usize_below(2), removers: c.rng.usize_below(2), ops: 25_000, nkeys: tot + 30_000, clear_pct: 0, ample: false, prefill: tot };
    c.input_str("cfg", &format!("shards={shards} cap_per_shard={cap} nkeys={} readers={} writers={} removers={} ops={} prefill={tot} workload=huge_evict", plan.nkeys, plan.readers, plan.writers, plan.removers, plan.ops));
    let s = c.rng.next(); c.input("rngstate", &s.to_le_bytes()); c.set_nontrivial(true); c.tag("conc_get_vs_evicting_put"); if plan.removers > 0 { c.tag("conc_remove_vs_put"); }
    let rec = RecU::default();
    let map: Arc<dyn ConcMap> = if shards == 0 { Arc::new(LruMap::<u64, u64, RecU>::with_config_and_callback(lru_cfg(*c.rng.pick(&["default", "perf", "mem"]), cap), rec.clone()).map_err(|e| bad("ctor_err", format!("{e}")))?) }
        else { Arc::new(ConcurrentLruMap::<u64, u64, RecU>::with_config_and_callback(ConcurrentLruMapConfig { base_config: lru_cfg("default", cap), shard_count: shards, load_balancing: LoadBalancingStrategy::Hash }, rec.clone()).map_err(|e| bad("ctor_err", format!("{e}")))?) };
    conc_run(c, map, rec, &plan, cap)
}

/// Sparse file larger than 4 GiB (set_len; a handful of data islands), tiny cache. Oracle: pread on an independent handle.
/// Islands sit on pages whose ids differ only in bit 16 / bit 20 (truncated or badly hashed page ids would alias them), around
/// offset 2^32 (page id 2^20), 2^28 (page id 2^16) and right before EOF.
fn pagecache_huge_sparse(c: &mut Case, single: bool, preset: &str) -> Res {
    use std::os::unix::fs::FileExt;
    let (cfg, cfgs) = pc_config(preset, c);
    let dir = tempfile::tempdir().map_err(|e| bad("__inconclusive", format!("tempdir: {e}")))?;
    const G4: u64 = 1 << 32; let pg = PAGE_SIZE as u64;
    let size: u64 = *c.rng.pick(&[G4 + 3 * pg + 123, G4 + 1, G4 + pg, 2 * G4 + 4097, 3 * G4 + 10_000, (1u64 << 40) + 5000, G4 + (1 << 28) + 77]);
    let path = dir.path().join("sparse.bin"); let f = std::fs::OpenOptions::new().create(true).read(true).write(true).open(&path).map_err(|e| bad("__inconclusive", format!("create: {e}")))?;
    if let Err(e) = f.set_len(size) { c.note("set_len_refused", 1); c.log(format!("set_len({size}): {e}")); return Ok(()); }
    let p0 = 3 + c.rng.below(9); // low page id shared by the aliasing islands
    let mut starts: Vec<u64> = vec![p0 * pg, (p0 + (1 << 16)) * pg, (p0 + (1 << 20)) * pg, (p0 + (1 << 20) + (1 << 16)) * pg, G4 - 6000, G4 - 1, (1 << 28) - 50, (65535 * pg) + 4000, G4 + (1 << 27), size.saturating_sub(5000), size.saturating_sub(1), 2 * G4 - 3000, 2 * G4 + p0 * pg];
    starts.retain(|&o| o < size); starts.sort(); starts.dedup();
    let mut islands: Vec<(u64, usize)> = vec![];
    for &o in &starts { let len = (1 + c.rng.usize_below(3 * PAGE_SIZE)).min((size - o) as usize); let data = c.rng.bytes(len); f.write_all_at(&data, o).map_err(|e| bad("__inconclusive", format!("write_at {o}: {e}")))?; islands.push((o, len)); }
    let nops = 40 + c.rng.usize_below(50);
    c.input_str("cfg", &format!("{} preset={preset} {cfgs} sparse size={size} islands={} p0={p0} nops={nops}", if single { "single" } else { "lru" }, islands.len())); let sd = c.rng.next(); c.input("rng", &sd.to_le_bytes()); c.set_nontrivial(true);
    let cache = match nopanic("constructor", || if single { SingleLruPageCache::new(cfg.clone()).map(|x| Pc::Single(x, Default::default())) } else { LruPageCache::new(cfg.clone()).map(Pc::Lru) })? { Ok(x) => x, Err(e) => { c.note("ctor_err", 1); c.log(format!("ctor: {e}")); return Ok(()); } };
    let id = cache.open(&path).map_err(|e| bad("open_err", format!("{e}")))?;
    match cache.file_size(id) { Ok(s) => ensure!(s == size, "file_size", "file_size()={s} want {size}"), Err(e) => return fail("file_size", format!("{e}")) }
    let direct = |off: u64, len: usize| -> Result<Vec<u8>, Fail> { let n = (size.saturating_sub(off)).min(len as u64) as usize; let mut b = vec![0u8; n]; let mut got = 0; while got < n { let r = f.read_at(&mut b[got..], off + got as u64).map_err(|e| bad("__inconclusive", format!("pread: {e}")))?; if r == 0 { break; } got += r; } b.truncate(got); Ok(b) };
    let mut kept: Vec<(CacheBuffer, Vec<u8>, u64)> = vec![]; let mut nonzero = 0u64;
    for step in 0..nops {
        // where: an island edge, a 2^16 / 2^20 page-id boundary, anywhere, or the tail
        let (off, len) = match c.rng.below(10) {
            0..=4 => { let (o, l) = *c.rng.pick(&islands); let d = c.rng.below(300); let off = if c.rng.bool() { o.saturating_sub(d) } else { (o + l as u64).saturating_sub(d + 1) }; (off, 1 + c.rng.usize_below(2 * PAGE_SIZE + 10)) }
            5 => { let b = *c.rng.pick(&[G4, 1u64 << 28, 2 * G4, (1u64 << 20) * pg + pg]); let d = c.rng.below(5000); (b.saturating_sub(d).min(size - 1), 1 + c.rng.usize_below(3 * PAGE_SIZE)) }
            6 => (c.rng.below(size), c.rng.usize_below(2 * PAGE_SIZE)),
            7 => (size - 1 - c.rng.below(9000.min(size - 1)), 1 + c.rng.usize_below(3000)),
            8 => { let (o, l) = islands[islands.len() - 1 - c.rng.usize_below(islands.len().min(3))]; (o, l) }
            _ => { let (o, _) = *c.rng.pick(&islands); ((o / pg) * pg, PAGE_SIZE) }
        };
        let len = len.min((size - off) as usize); // in-range reads only (EOF crossing is the `eof` family)
        let x = c.rng.below(100);
        if x < 70 { let want = direct(off, len)?; let alt = c.rng.bool();
            let b = nopanic("read", || cache.read(id, off, len, alt))?.map_err(|e| bad("read_err", format!("step {step}: read(off={off}, len={len}) inside a {size}-byte file: Err({e})")))?;
            if want.iter().any(|&x| x != 0) { nonzero += 1; }
            check_buf(c, "read (sparse file, offset beyond 2^16 / 2^20 pages)", &b, &want, off, step)?;
            if c.rng.chance(1, 6) && kept.len() < 10 { kept.push((b, want, off)); }
        } else if x < 78 { nopanic("prefetch", || cache.prefetch(id, off, len))?.map_err(|e| bad("prefetch_err", format!("step {step}: prefetch(off={off}): {e}")))?; }
        else if x < 86 { let p = (off / pg) as u32; nopanic("invalidate_page", || cache.invalidate_page(id, p))?.map_err(|e| bad("invalidate_err", format!("step {step}: invalidate_page({p}): {e}")))?; }
        else { // rewrite part of an island in place, invalidate, re-read
            let (o, l) = *c.rng.pick(&islands); let a = c.rng.usize_below(l); let n = 1 + c.rng.usize_below(l - a); let _ = cache.read(id, o, l, false);
            let nb = c.rng.bytes(n); f.write_all_at(&nb, o + a as u64).map_err(|e| bad("__inconclusive", format!("rewrite: {e}")))?;
            if c.rng.bool() { nopanic("invalidate_range", || cache.invalidate_range(id, o + a as u64, n))?.map_err(|e| bad("invalidate_err", format!("{e}")))?; } else { for p in ((o + a as u64) / pg)..=((o + a as u64 + n as u64 - 1) / pg) { nopanic("invalidate_page", || cache.invalidate_page(id, p as u32))?.map_err(|e| bad("invalidate_err", format!("{e}")))?; } }
            let want = direct(o, l)?; let b = nopanic("read", || cache.read(id, o, l, false))?.map_err(|e| bad("read_err", format!("step {step}: {e}")))?;
            if b.data() != &want[..] { return fail("stale_after_invalidate", format!("step {step}: island at offset {o} (page {}) rewritten at +{a}..+{} and invalidated, read returns different bytes", o / pg, a + n)); } c.ev(1); c.note("rewrites", 1); }
    }
    // all islands once more, in aliasing order, then the kept buffers
    for &(o, l) in &islands { let want = direct(o, l)?; let b = cache.read(id, o, l, false).map_err(|e| bad("read_err", format!("final island read at {o}: {e}")))?; check_buf(c, "final island read", &b, &want, o, nops)?; }
    for (b, want, off) in &kept { if b.data() != &want[..] { return fail("kept_buffer_changed", format!("CacheBuffer from the read at offset {off} changed after later evictions")); } c.ev(1); }
    let (h, m, e) = cache.counters(); c.note("pc_hit", h); c.note("pc_miss", m); c.note("pc_evict", e); c.note("reads_with_data", nonzero);
    Ok(())
}

/// Dense multi-MiB file: single reads far longer than the whole cache (eviction in the middle of one read), lengths around 2^16 / 2^20.
fn pagecache_huge_dense(c: &mut Case, single: bool, preset: &str) -> Res {
    let (cfg, cfgs) = pc_config(preset, c);
    let dir = tempfile::tempdir().map_err(|e| bad("__inconclusive", format!("tempdir: {e}")))?;
    let size = *c.rng.pick(&[65537usize, 131073, (1 << 20) - 1, 1 << 20, (1 << 20) + 1, 3 * (1 << 20) + 17, 5 * (1 << 20) + 4095]);
    let data = file_bytes(c.rng.next(), size); let path = dir.path().join("dense.bin"); std::fs::write(&path, &data).map_err(|e| bad("__inconclusive", format!("write: {e}")))?;
    let nops = 8 + c.rng.usize_below(10);
    c.input_str("cfg", &format!("{} preset={preset} {cfgs} dense size={size} nops={nops}", if single { "single" } else { "lru" })); let sd = c.rng.next(); c.input("rng", &sd.to_le_bytes()); c.set_nontrivial(true);
    let cache = match nopanic("constructor", || if single { SingleLruPageCache::new(cfg.clone()).map(|x| Pc::Single(x, Default::default())) } else { LruPageCache::new(cfg.clone()).map(Pc::Lru) })? { Ok(x) => x, Err(e) => { c.note("ctor_err", 1); c.log(format!("ctor: {e}")); return Ok(()); } };
    let id = cache.open(&path).map_err(|e| bad("open_err", format!("{e}")))?;
    for step in 0..nops {
        let len = match c.rng.below(6) { 0 => 65535, 1 => 65536, 2 => 65537, 3 => (1 << 20) + c.rng.usize_below(3), 4 => size, _ => c.rng.usize_below(size + 1) }.min(size);
        let off = match c.rng.below(4) { 0 => 0, 1 => size - len, _ => c.rng.usize_below(size - len + 1) };
        match c.rng.below(8) {
            0 => { nopanic("prefetch", || cache.prefetch(id, off as u64, len))?.map_err(|e| bad("prefetch_err", format!("step {step}: {e}")))?; }
            1 => { nopanic("invalidate_range", || cache.invalidate_range(id, off as u64, len))?.map_err(|e| bad("invalidate_err", format!("step {step}: {e}")))?; }
            _ => { let alt = c.rng.bool(); let b = nopanic("read", || cache.read(id, off as u64, len, alt))?.map_err(|e| bad("read_err", format!("step {step}: read(off={off}, len={len}): Err({e})")))?; check_buf(c, "long read", &b, &data[off..off + len], off as u64, step)?; c.ev((len / PAGE_SIZE) as u64); }
        }
    }
    let (h, m, e) = cache.counters(); c.note("pc_hit", h); c.note("pc_miss", m); c.note("pc_evict", e);
    Ok(())
}

/// Blobs of 64 KiB .. 3 MiB (hundreds of pages through a cache of a few pages) or > 65536 tiny blobs (record ids above 2^16).
fn cachedblob_huge(c: &mut Case, strat: CacheWriteStrategy, many: bool) -> Res {
    let pages = *c.rng.pick(&[0usize, 2, 8, 64]); let cfg = PageCacheConfig::balanced().with_capacity((pages * PAGE_SIZE).max(1000));
    c.input_str("cfg", &format!("strategy={strat:?} cache_pages={pages} huge many={many}")); let sd = c.rng.next(); c.input("rng", &sd.to_le_bytes()); c.set_nontrivial(true);
    let mut store = CachedBlobStore::with_write_strategy(MemoryBlobStore::new(), cfg, strat).map_err(|e| bad("ctor_err", format!("{e}")))?; let mut twin = MemoryBlobStore::new();
    let mut blobs: Vec<(u32, Vec<u8>)> = vec![];
    if many { let n = 65_536 + 1 + c.rng.usize_below(5000);
        for i in 0..n { let l = c.rng.usize_below(9); let mut b = c.rng.bytes(l); if l > 0 { b[0] = i as u8; } let a = store.put(&b).map_err(|e| bad("put_err", format!("put #{i}: {e}")))?; let t = twin.put(&b).map_err(|e| bad("__inconclusive", format!("{e}")))?; ensure!(a == t, "put_id", "put #{i}: cached store id {a}, plain store {t}"); if i % 97 == 0 || i + 300 > n || (65_400..65_700).contains(&i) { blobs.push((a, b)); } }
        ensure!(BlobStore::len(&store) == n, "len", "len()={} after {n} puts", BlobStore::len(&store));
    } else { let mut total = 0usize;
        while total < 6 * (1 << 20) && blobs.len() < 8 { let len = *c.rng.pick(&[65535usize, 65536, 65537, 131071, 131073, (1 << 20) - 1, 1 << 20, (1 << 20) + 1, 3 * (1 << 20) + 5]); let kind = *c.rng.pick(&[0u32, 1, 2, 8, 9, 13, 6]); let mut b = gen::bytes_kind(&mut c.rng, kind, len);
            if c.rng.chance(1, 3) && len >= 131072 { let h = len / 2; let (x, y) = b.split_at_mut(h); y[..h].copy_from_slice(&x[..h]); let last = b.len() - 1; b[last] ^= 0x5a; } // X X' with one differing byte at the end
            total += len; let a = store.put(&b).map_err(|e| bad("put_err", format!("put of {len} bytes: {e}")))?; let t = twin.put(&b).map_err(|e| bad("__inconclusive", format!("{e}")))?; ensure!(a == t, "put_id", "cached store id {a}, plain store {t}"); blobs.push((a, b)); } }
    for round in 0..2 { for (id, b) in &blobs { let g = nopanic("get", || store.get(*id))?; let inner = store.inner().get(*id); c.ev(2);
            match (&g, &inner) { (Ok(g), Ok(i)) => { if g != i { return fail("cached_get_mismatch", format!("get({id}) through the cache returned {} bytes, the wrapped store {} bytes (or different content)", g.len(), i.len())); } ensure!(g == b, "cached_get_vs_twin", "get({id}) differs from the {} bytes that were put", b.len()); } _ => return fail("cached_get_mismatch", format!("get({id}) cached ok={} wrapped ok={}", g.is_ok(), inner.is_ok())) }
            ensure!(store.size(*id).ok().flatten() == Some(b.len()), "size", "size({id}) != {}", b.len()); }
        if round == 0 { nopanic("prefetch_range", || store.prefetch_range((1u64 << 32) - 5000, 3 * PAGE_SIZE))?.map_err(|e| bad("prefetch_err", format!("{e}")))?; let _ = store.flush();
            for (id, _) in blobs.iter().step_by(3) { let a = store.remove(*id); let t = twin.remove(*id); ensure!(a.is_ok() == t.is_ok(), "remove", "remove({id}) ok={} twin ok={}", a.is_ok(), t.is_ok()); ensure!(store.get(*id).is_err(), "get_after_remove", "get({id}) after remove succeeded"); }
            let keep: Vec<(u32, Vec<u8>)> = blobs.iter().enumerate().filter(|(i, _)| i % 3 != 0).map(|(_, b)| b.clone()).collect(); blobs = keep; } }
    ensure!(BlobStore::len(&store) == twin.len(), "len", "len()={} twin {}", BlobStore::len(&store), twin.len());
    Ok(())
}

/// FsaCache with max_states just above 2^16 / 10^5: state ids beyond 65535, several eviction rounds of ~10 % each.
fn fsacache_huge(c: &mut Case, strat: CacheStrategy) -> Res {
    let max_states = *c.rng.pick(&[65537usize, 100_003, 131_073]); let n = max_states + 40_000;
    c.input_str("cfg", &format!("strategy={strat:?} max_states={max_states} inserts={n} huge")); let sd = c.rng.next(); c.input("rng", &sd.to_le_bytes()); c.set_nontrivial(true);
    let mut cache = FsaCache::with_config(FsaCacheConfig { max_states, strategy: strat, compressed_paths: true, use_hugepages: false, max_memory_bytes: 0 }).map_err(|e| bad("ctor_err", format!("{e}")))?;
    let mut model: HashMap<u32, (u32, u32, bool)> = HashMap::new(); let mut paths: HashMap<u32, Vec<u8>> = HashMap::new(); let (mut sweeps, mut evicted) = (0u64, 0u64);
    for i in 0..n {
        let (parent, base, term) = (if c.rng.chance(1, 8) { (1 << 24) - 1 - c.rng.below(3) as u32 } else { c.rng.below(1 << 24) as u32 }, c.rng.next() as u32, c.rng.bool());
        let id = cache.cache_state(parent, base, term).map_err(|e| bad("cache_state_err", format!("insert #{i}: {e}")))?;
        model.insert(id, (parent, base, term)); paths.remove(&id);
        let st = match cache.get_state(id) { Some(s) => s, None => return fail("lost_entry", format!("insert #{i}: state {id} is not retrievable right after cache_state returned it")) };
        ensure!((st.parent(), st.child_base, st.is_terminal()) == (parent, base, term) && !st.is_free(), "stale_value", "insert #{i}: get_state({id}) = ({}, {}, {}) want ({parent}, {base}, {term})", st.parent(), st.child_base, st.is_terminal());
        if cache.get_zero_path(id).is_some() { return fail("stale_zero_path", format!("insert #{i}: freshly cached state {id} already has a zero-path (left over from an evicted state with the same id)")); }
        if i % 16 == 0 { let seg = vec![(id & 0xff) as u8, (id >> 8) as u8, (id >> 16) as u8]; let mut zp = ZeroPathData::new(); let _ = zp.add_segment(&seg); cache.add_zero_path(id, zp).map_err(|e| bad("add_zero_path_err", format!("{e}")))?; paths.insert(id, seg); }
        let cs = cache.stats().cached_states; ensure!(cs <= max_states, "len_gt_capacity", "insert #{i}: {cs} states cached, max_states {max_states}"); c.ev(2);
        if cs != model.len() { // an eviction round happened: re-synchronise (what is gone must be gone consistently, what is left must be exact)
            sweeps += 1; let keys: Vec<u32> = model.keys().copied().collect();
            for k in keys { match cache.get_state(k) { None => { model.remove(&k); paths.remove(&k); evicted += 1; ensure!(cache.get_zero_path(k).is_none(), "stale_zero_path", "zero-path of evicted state {k} still served"); }
                Some(st) => { let w = model[&k]; ensure!((st.parent(), st.child_base, st.is_terminal()) == w, "stale_value", "after eviction get_state({k}) = ({}, {}, {}) want {w:?}", st.parent(), st.child_base, st.is_terminal()); } } }
            ensure!(cs == model.len(), "len", "insert #{i}: stats().cached_states={cs}, {} states retrievable", model.len()); c.ev(model.len() as u64); }
    }
    for (k, seg) in paths.iter().take(20_000) { let got = cache.get_zero_path(*k).map(|z| z.get_full_path()); ensure!(got.as_deref() == Some(&seg[..]), "stale_zero_path", "get_zero_path({k}) = {:?} want {seg:?}", got); c.ev(1); }
    let mut ks: Vec<u32> = model.keys().copied().collect(); ks.sort(); for k in ks.iter().step_by(7).take(5000) { ensure!(cache.remove_state(*k), "remove_return", "remove_state({k}) = false for a cached state"); ensure!(cache.get_state(*k).is_none(), "get_returned_absent", "get_state({k}) after remove_state"); model.remove(k); }
    ensure!(cache.stats().cached_states == model.len(), "len", "after removals cached_states={} want {}", cache.stats().cached_states, model.len());
    c.note("evicted", evicted); c.note("sweeps", sweeps); c.note("max_id", model.keys().copied().max().unwrap_or(0) as u64);
    Ok(())
}

// =============================================================================================
// Part 7: API-gap families: constructors without callback, shard-level API, buffer / pool API, virtual files, blob-store
// constructors / strategy switch / inner_mut, FsaCache presets. Same oracles as above (exact LRU model, file bytes, twin store).
// =============================================================================================
use zipora::cache::BufferPool;
use zipora::containers::specialized::NoOpEvictionCallback;
use zipora::fsa::cache::CachedState;

type LruN = LruMap<u64, Tracked, NoOpEvictionCallback>;
type ClruN = ConcurrentLruMap<u64, Tracked, NoOpEvictionCallback>;
impl SeqMap for LruN {
    fn get(&self, k: u64) -> Option<Tracked> { LruMap::get(self, &k) }
    fn put(&self, k: u64, v: Tracked) -> ZR<Option<Tracked>> { LruMap::put(self, k, v) }
    fn remove(&self, k: u64) -> Option<Tracked> { LruMap::remove(self, &k) }
    fn contains(&self, k: u64) -> bool { LruMap::contains_key(self, &k) }
    fn len(&self) -> usize { LruMap::len(self) }
    fn is_empty(&self) -> bool { LruMap::is_empty(self) }
    fn capacity(&self) -> usize { LruMap::capacity(self) }
    fn clear(&self) -> ZR<()> { LruMap::clear(self) }
    fn shard_sizes(&self) -> Option<Vec<usize>> { None }
}
impl SeqMap for ClruN {
    fn get(&self, k: u64) -> Option<Tracked> { ConcurrentLruMap::get(self, &k) }
    fn put(&self, k: u64, v: Tracked) -> ZR<Option<Tracked>> { ConcurrentLruMap::put(self, k, v) }
    fn remove(&self, k: u64) -> Option<Tracked> { ConcurrentLruMap::remove(self, &k) }
    fn contains(&self, k: u64) -> bool { ConcurrentLruMap::contains_key(self, &k) }
    fn len(&self) -> usize { ConcurrentLruMap::len(self) }
    fn is_empty(&self) -> bool { ConcurrentLruMap::is_empty(self) }
    fn capacity(&self) -> usize { ConcurrentLruMap::capacity(self) }
    fn clear(&self) -> ZR<()> { ConcurrentLruMap::clear(self) }
    fn shard_sizes(&self) -> Option<Vec<usize>> { Some(ConcurrentLruMap::shard_sizes(self)) }
}

/// A slice of a history against the exact LRU model, for maps built WITHOUT an eviction callback (nothing to observe but return values and sizes).
fn run_history_plain(c: &mut Case, map: &dyn SeqMap, m: &mut Model, ops: &[Op], base: usize, next_id: &mut u64) -> Res {
    let total_cap = m.cap * m.shards.len();
    for (j, op) in ops.iter().enumerate() {
        let i = base + j;
        match *op {
            Op::Get(k) => { let want = m.get(k); let got = nopanic("get", || map.get(k))?;
                if let Some(t) = &got { ensure!(t.intact(), "value_corrupt", "get({k}) returned a dropped/corrupted value at step {i}"); }
                let g = got.as_ref().map(|t| t.id);
                if g != want { let cls = match (g, want) { (Some(_), None) => "get_returned_absent", (None, Some(_)) => "lost_entry", _ => "stale_value" }; return fail(cls, format!("step {i}: get({k})={g:?} want {want:?}; history: {}", show_ops(ops, j))); } }
            Op::Put(k) => { let id = *next_id; *next_id += 1;
                let r = match nopanic("put", || map.put(k, Tracked::new(id)))? { Ok(r) => r, Err(e) => return fail("put_err", format!("step {i}: put({k}) returned Err({e}) with model len {} / capacity {}; history: {}", m.len(), total_cap, show_ops(ops, j))) };
                let (want, _ev) = m.put(k, id);
                if let Some(t) = &r { ensure!(t.intact(), "value_corrupt", "put({k}) returned a dropped/corrupted old value at step {i}"); }
                let g = r.as_ref().map(|t| t.id);
                ensure!(g == want, "put_return", "step {i}: put({k}) returned old={g:?} want {want:?}; history: {}", show_ops(ops, j)); }
            Op::Remove(k) => { let want = m.remove(k); let got = nopanic("remove", || map.remove(k))?; let g = got.as_ref().map(|t| t.id);
                ensure!(g == want, "remove_return", "step {i}: remove({k})={g:?} want {want:?}; history: {}", show_ops(ops, j)); }
            Op::Contains(k) => { let want = m.peek(k).is_some(); let got = nopanic("contains_key", || map.contains(k))?; ensure!(got == want, "contains", "step {i}: contains_key({k})={got} want {want}; history: {}", show_ops(ops, j)); }
            Op::Clear => { c.note("clears", 1); m.clear(); match nopanic("clear", || map.clear())? { Ok(()) => {} Err(e) => return fail("clear_err", format!("step {i}: clear() Err({e})")) } }
            Op::Len => { let e = map.is_empty(); ensure!(e == (m.len() == 0), "is_empty", "step {i}: is_empty()={e} model len {}", m.len()); }
        }
        c.ev(1);
        let l = map.len();
        ensure!(l <= total_cap, "len_gt_capacity", "step {i}: len()={l} > capacity {total_cap}");
        ensure!(l == m.len(), "len", "step {i}: len()={l} model {}; history: {}", m.len(), show_ops(ops, j));
        if let Some(ss) = map.shard_sizes() { for (s, &n) in ss.iter().enumerate() { ensure!(n <= m.cap, "shard_gt_capacity", "step {i}: shard {s} holds {n} > per-shard capacity {}", m.cap); ensure!(n == m.shards[s].len(), "shard_size", "step {i}: shard_sizes()[{s}]={n} model {}", m.shards[s].len()); } }
        c.ev(2);
    }
    Ok(())
}
fn final_sweep_plain(c: &mut Case, map: &dyn SeqMap, m: &mut Model, nkeys: u64) -> Res {
    for k in 0..nkeys { let want = m.peek(k).is_some(); ensure!(map.contains(k) == want, "final_contains", "final contains_key({k}) != {want}"); }
    for s in 0..m.shards.len() { let l: Vec<(u64, u64)> = m.shards[s].iter().rev().copied().collect(); for (k, v) in l { let g = map.get(k).map(|t| t.id); ensure!(g == Some(v), "final_get", "final get({k})={g:?} want Some({v})"); m.get(k); c.ev(1); } }
    for k in 0..nkeys { if m.peek(k).is_none() { let g = map.get(k).map(|t| t.id); ensure!(g.is_none(), "final_get_absent", "final get({k})={g:?} for a key that was evicted/removed/never put"); } }
    Ok(())
}
fn drop_accounting() -> Res {
    let errs = mon::tracked_errors(); ensure!(errs.is_empty(), "double_drop", "{}", errs.join("; "));
    ensure!(mon::tracked_live() == 0, "value_leak", "{} values still alive after the map was dropped", mon::tracked_live());
    Ok(())
}

/// LruMap::new / LruMap::with_config (NoOpEvictionCallback): same histories, same model.
fn lrumap_nocb(c: &mut Case, via: &str) -> Res {
    mon::tracked_reset();
    let cap = pick_cap(c); let nkeys = pick_nkeys(c, cap); let fam = *c.rng.pick(&["mixed", "scan", "getheavy", "churn", "clear"]); let preset = *c.rng.pick(&["default", "perf", "mem", "sec"]);
    let nops = 60 + c.rng.usize_below(200);
    c.input_str("cfg", &format!("via={via} preset={preset} cap={cap} nkeys={nkeys} family={fam} no_callback"));
    let ops = gen_history(c, fam, nkeys, cap, nops); c.input("ops", &enc_ops(&ops)); c.set_nontrivial(ops.iter().filter(|o| matches!(o, Op::Put(_))).count() > cap);
    tag_clear_nonfull(c, &ops, cap, 1, &HashMap::new());
    let map = match nopanic("constructor", || if via == "new" { LruN::new(cap) } else { LruN::with_config(lru_cfg(preset, cap)) })? { Ok(m) => m, Err(e) => { c.note("ctor_err", 1); c.log(format!("constructor refused: {e}")); c.set_nontrivial(false); return Ok(()); } };
    let mut m = Model::new(cap, 1, HashMap::new()); let mut id = 1u64;
    let r = (|| -> Res {
        ensure!(SeqMap::capacity(&map) == cap && map.config().capacity == cap, "capacity", "capacity()={} config().capacity={} want {cap}", SeqMap::capacity(&map), map.config().capacity);
        run_history_plain(c, &map, &mut m, &ops, 0, &mut id)?; final_sweep_plain(c, &map, &mut m, nkeys) })();
    if r.is_ok() { let st = map.stats(); let (hr, ap) = nopanic("stats", || (st.hit_ratio(), st.avg_probe_distance()))?; c.note("stat_hit_pct", (hr * 100.0) as u64); let _ = ap;
        if map.config().enable_statistics && st.entry_count.load(Ordering::Relaxed) != m.len() { c.note("stat_entry_count_differs", 1); } }
    drop(map); r?; drop_accounting()
}

/// ConcurrentLruMap::new / with_config (no callback) plus the shard-level API: shard_count, shard_stats, for_each_shard, keys, rebalance, stats.
fn clru_nocb(c: &mut Case, via: &str) -> Res {
    mon::tracked_reset();
    let cap = *c.rng.pick(&[1usize, 1, 2, 3]); let ns = *c.rng.pick(&[1usize, 2, 4, 8]); let preset = if via == "new" { "default" } else { *c.rng.pick(&["default", "perf", "mem", "sec"]) };
    let fam = *c.rng.pick(&["mixed", "scan", "getheavy", "churn", "clear"]); let extra = if via == "new" { c.rng.usize_below(ns) } else { 0 };
    let cfg = ConcurrentLruMapConfig { base_config: lru_cfg(preset, cap), shard_count: ns, load_balancing: LoadBalancingStrategy::Hash };
    let nkeys = pick_nkeys(c, cap * ns).min(250); let nops = 60 + c.rng.usize_below(200);
    c.input_str("cfg", &format!("via={via} preset={preset} shards={ns} cap_per_shard={cap} extra={extra} nkeys={nkeys} family={fam} no_callback"));
    let assign = if ns > 1 { match nopanic("probe", || learn_assign(&cfg, nkeys))? { Ok(a) => a, Err(f) if f.oracle == "__inconclusive" => { c.note("ctor_err", 1); return Ok(()); } Err(f) => return Err(f) } } else { HashMap::new() };
    let ops = gen_history(c, fam, nkeys, cap * ns, nops); c.input("ops", &enc_ops(&ops)); c.set_nontrivial(ops.iter().filter(|o| matches!(o, Op::Put(_))).count() > cap * ns);
    tag_clear_nonfull(c, &ops, cap, ns, &assign);
    let chunk = 10 + c.rng.usize_below(40);
    let map = match nopanic("constructor", || if via == "new" { ClruN::new(cap * ns + extra, ns) } else { ClruN::with_config(cfg.clone()) })? { Ok(m) => m, Err(e) => { c.note("ctor_err", 1); c.log(format!("constructor refused: {e}")); c.set_nontrivial(false); return Ok(()); } };
    let mut m = Model::new(cap, ns, assign); let mut id = 1u64;
    let r = (|| -> Res {
        ensure!(SeqMap::capacity(&map) == cap * ns, "capacity", "capacity()={} want {}", SeqMap::capacity(&map), cap * ns);
        ensure!(map.shard_count() == ns && map.config().shard_count == ns, "shard_count", "shard_count()={} config().shard_count={} want {ns}", map.shard_count(), map.config().shard_count);
        let mut base = 0usize;
        for part in ops.chunks(chunk) {
            run_history_plain(c, &map, &mut m, part, base, &mut id)?; base += part.len();
            // ---- shard-level API between the chunks; none of it may change what the map serves ----
            let seen: Arc<Mutex<Vec<usize>>> = Arc::new(Mutex::new(vec![])); let s2 = seen.clone(); let percap = cap;
            let fr = nopanic("for_each_shard", || map.for_each_shard(move |sh: &LruN| { let l = LruMap::len(sh); if l > percap { return Err(zipora::ZiporaError::invalid_data("shard over capacity")); } s2.lock().unwrap().push(l); Ok(()) }))?;
            if let Err(e) = fr { return fail("for_each_shard", format!("after step {base}: for_each_shard returned Err({e}) (closure fails only for a shard holding more than {cap} entries)")); }
            let mut got = seen.lock().unwrap().clone(); got.sort(); let mut want: Vec<usize> = m.shards.iter().map(|l| l.len()).collect(); want.sort();
            ensure!(got == want, "for_each_shard", "after step {base}: for_each_shard visited shards with sizes {got:?}, model {want:?}"); c.ev(1);
            match nopanic("rebalance", || map.rebalance())? { Ok(()) => {} Err(e) => { c.note("rebalance_err", 1); c.log(format!("rebalance: {e}")); } }
            for k in 0..nkeys { let w = m.peek(k).is_some(); ensure!(map.contains(k) == w, "rebalance_changed_contents", "after step {base}: rebalance() then contains_key({k}) != {w}"); } c.ev(1);
            let ks = nopanic("keys", || map.keys())?; if ks.is_empty() && m.len() > 0 { c.note("keys_placeholder_empty", 1); }
            for k in &ks { ensure!(m.peek(*k).is_some(), "keys_lists_absent", "after step {base}: keys() lists {k}, which is not in the map"); }
            { let mut d = ks.clone(); d.sort(); d.dedup(); ensure!(d.len() == ks.len(), "keys_duplicate", "after step {base}: keys() lists a key twice: {ks:?}"); }
            let st = map.stats(); let te = nopanic("stats", || { let _ = (st.hit_ratio(), st.total_memory_usage(), st.min_load_shard(), st.max_load_shard(), st.load_balance_ratio()); st.total_entries() })?;
            if map.config().base_config.enable_statistics && te != m.len() { c.note("stat_total_entries_differs", 1); }
            for i in 0..=ns { let some = nopanic("shard_stats", || map.shard_stats(i).is_some())?; if some != (i < ns) { c.note("shard_stats_index_odd", 1); } }
        }
        final_sweep_plain(c, &map, &mut m, nkeys) })();
    drop(map); r?; drop_accounting()
}

/// Page-cache API not covered by the histories: virtual files (register_file), capacity()/size(), reads into pooled / cleared / reserved buffers.
fn pagecache_api(c: &mut Case, single: bool) -> Res {
    let pages = *c.rng.pick(&[1usize, 2, 3, 4, 8]); let cap = pages * PAGE_SIZE; let cfg = PageCacheConfig::balanced().with_capacity(cap);
    let dir = tempfile::tempdir().map_err(|e| bad("__inconclusive", format!("tempdir: {e}")))?;
    let salt = c.rng.next(); let nops = 30 + c.rng.usize_below(60); let pool_max = c.rng.usize_below(4);
    let sizes = [*c.rng.pick(FILE_SIZES), 1 + c.rng.usize_below(6 * PAGE_SIZE)];
    c.input_str("cfg", &format!("{} api cap={pages}p sizes={sizes:?} nops={nops} pool_max={pool_max}", if single { "single" } else { "lru" })); c.input("salt", &salt.to_le_bytes()); c.set_nontrivial(true);
    let cache = match nopanic("constructor", || if single { SingleLruPageCache::new(cfg.clone()).map(|x| Pc::Single(x, Default::default())) } else { LruPageCache::new(cfg.clone()).map(Pc::Lru) })? { Ok(x) => x, Err(e) => { c.note("ctor_err", 1); c.log(format!("ctor: {e}")); return Ok(()); } };
    match &cache { Pc::Single(s, _) => ensure!(s.capacity() == cap, "capacity", "capacity()={} configured {cap}", s.capacity()), Pc::Lru(l) => c.note("shard_count", l.shard_count() as u64) }
    let reg = |cache: &Pc, fd: i32| -> ZR<FileId> { match cache { Pc::Lru(l) => l.register_file(fd), Pc::Single(s, _) => s.register_file(fd) } };
    let mut virt: Vec<FileId> = vec![]; let mut files: Vec<PFile> = vec![];
    for (i, &sz) in sizes.iter().enumerate() {
        match nopanic("register_file(-1)", || reg(&cache, -1))? { Ok(v) => virt.push(v), Err(e) => { c.note("register_virtual_refused", 1); c.log(format!("register_file(-1): {e}")); } }
        let data = file_bytes(salt.wrapping_add(i as u64 * 7919), sz); let path = dir.path().join(format!("f{i}.bin")); std::fs::write(&path, &data).map_err(|e| bad("__inconclusive", format!("write: {e}")))?;
        let id = match cache.open(&path) { Ok(id) => id, Err(e) => return fail("open_err", format!("{e}")) }; files.push(PFile { path, id, data });
    }
    { let mut all: Vec<FileId> = virt.iter().copied().chain(files.iter().map(|f| f.id)).collect(); let n = all.len(); all.sort(); all.dedup();
      ensure!(all.len() == n, "file_id_reused", "virtual ids {virt:?} and opened ids {:?} are not pairwise distinct (pages of different files would alias)", files.iter().map(|f| f.id).collect::<Vec<_>>()); c.ev(1); }
    let fd = 3 + c.rng.below(100) as i32;
    match nopanic("register_file(fd)", || reg(&cache, fd))? { Ok(_) => c.note("register_fd_ok", 1), Err(_) => c.note("register_fd_refused", 1) }
    let pool = BufferPool::new(pool_max); let mut max_size = 0usize;
    for step in 0..nops {
        let x = c.rng.below(100);
        if x < 70 { let fi = c.rng.usize_below(files.len()); let id = files[fi].id; let (off, len) = pick_range(c, files[fi].data.len()); c.hash_more(&off.to_le_bytes()); c.hash_more(&len.to_le_bytes());
            let mut b = nopanic("BufferPool::get", || pool.get())?;
            ensure!(b.is_empty() && b.data().is_empty(), "pool_buffer_stale", "step {step}: BufferPool::get() returned a buffer that still holds {} bytes", b.len()); c.ev(1);
            if c.rng.bool() { let n = *c.rng.pick(&[0usize, 1, 100, 4096, 10000]); b.reserve(n); if b.capacity() < n { c.note("reserve_capacity_short", 1); } ensure!(b.data().is_empty(), "buffer_changed_by_reserve", "step {step}: reserve({n}) on an empty buffer made it hold {} bytes", b.len()); }
            match &cache { Pc::Single(s, _) => { nopanic("read", || s.read(id, off, len, &mut b))?.map_err(|e| bad("read_err", format!("step {step}: read(off={off}, len={len}): {e}")))?; }
                Pc::Lru(l) => { b = nopanic("read", || l.read(id, off, len))?.map_err(|e| bad("read_err", format!("step {step}: read(off={off}, len={len}): {e}")))?; } }
            check_buf(c, "read into a pooled buffer", &b, &files[fi].data[off as usize..off as usize + len], off, step)?;
            let ht = b.hit_type(); c.note(&format!("hit_type_{}", ht.as_index()), 1);
            match c.rng.below(3) { 0 => pool.put(b), 1 => { b.clear(); ensure!(b.is_empty() && b.len() == 0 && b.data().is_empty(), "buffer_clear_not_empty", "step {step}: after clear() the buffer still holds {} bytes", b.len()); c.ev(1); pool.put(b); } _ => {} }
        } else if x < 85 && !virt.is_empty() { let v = *c.rng.pick(&virt); let off = c.rng.below(3 * PAGE_SIZE as u64); let len = c.rng.usize_below(2 * PAGE_SIZE);
            match nopanic("read of a virtual file id", || cache.read(v, off, len, false))? { Ok(b) => { c.note("virtual_read_ok", 1); if !b.is_empty() { c.note("virtual_read_nonempty", 1); } } Err(_) => c.note("virtual_read_err", 1) }
        } else if x < 92 { let fi = c.rng.usize_below(files.len()); let p = c.rng.usize_below(files[fi].data.len() / PAGE_SIZE + 2) as u32; nopanic("invalidate_page", || cache.invalidate_page(files[fi].id, p))?.map_err(|e| bad("invalidate_err", format!("{e}")))?; }
        else { let st = nopanic("BufferPool::stats", || pool.stats())?; let _ = (st.reuse_ratio(), st.pool_utilization()); if st.available_count > st.max_size { c.note("pool_gt_max", 1); } c.note("pool_reuses", st.reuses); }
        if let Pc::Single(s, _) = &cache { let sz = nopanic("size", || s.size())?; max_size = max_size.max(sz); if sz > pages { c.note("size_gt_capacity_pages", 1); } }
    }
    for f in &files { let mut off = 0usize; while off < f.data.len() { let len = (PAGE_SIZE + PAGE_SIZE / 2).min(f.data.len() - off); let b = cache.read(f.id, off as u64, len, false).map_err(|e| bad("read_err", format!("final sweep: {e}")))?; check_buf(c, "final sweep read", &b, &f.data[off..off + len], off as u64, nops)?; off += len; } }
    c.note("max_size_pages", max_size as u64);
    Ok(())
}

/// CacheBuffer as a byte container: copy / extend / clear / reserve / from_data / pool round trip / cache reads, against a Vec<u8>.
/// `with_reserve` = false: reserve() only on an empty buffer (family `ops`); true: also on a buffer that holds data (target cachebuf/reserve).
fn cachebuf_ops(c: &mut Case, with_reserve: bool) -> Res {
    let dir = tempfile::tempdir().map_err(|e| bad("__inconclusive", format!("tempdir: {e}")))?;
    let fsize = 1 + c.rng.usize_below(5 * PAGE_SIZE); let salt = c.rng.next(); let data = file_bytes(salt, fsize); let path = dir.path().join("f.bin"); std::fs::write(&path, &data).map_err(|e| bad("__inconclusive", format!("write: {e}")))?;
    let cfg = PageCacheConfig::balanced().with_capacity(2 * PAGE_SIZE);
    let sc = SingleLruPageCache::new(cfg).map_err(|e| bad("ctor_err", format!("{e}")))?; let id = sc.open_file(&path).map_err(|e| bad("open_err", format!("{e}")))?;
    let nops = 10 + c.rng.usize_below(50); let pool = BufferPool::new(1 + c.rng.usize_below(3));
    const LENS: &[usize] = &[0, 1, 7, 100, 1000, 4096, 5000, 20000];
    let mut b = CacheBuffer::new(); let mut model: Vec<u8> = vec![]; let mut log = String::new(); let mut plan: Vec<(u64, usize, usize)> = vec![];
    for _ in 0..nops { plan.push((c.rng.below(8), *c.rng.pick(LENS), c.rng.usize_below(fsize + 1))); }
    { let mut l = 0usize; for &(op, n, _) in &plan { match op { 0 | 4 => l = n, 1 => l += n, 2 | 5 => l = 0, 3 => { if with_reserve && l > 0 && n > 0 { c.tag("reserve_on_nonempty_buffer"); } } _ => l = 1 } } } // (6 | 7: a read; counted as non-empty)
    c.input_str("cfg", &format!("cachebuf with_reserve={with_reserve} fsize={fsize} nops={nops} plan={:?}", plan.iter().map(|p| (p.0, p.1)).collect::<Vec<_>>())); c.input("salt", &salt.to_le_bytes()); c.set_nontrivial(true);
    for (step, &(op, n, pos)) in plan.iter().enumerate() {
        let mut after_reserve = false;
        match op {
            0 => { let x = c.rng.bytes(n); b.copy_from_slice(&x); model = x; log.push_str(&format!("copy{n} ")); }
            1 => { let x = c.rng.bytes(n); b.extend_from_slice(&x); model.extend_from_slice(&x); log.push_str(&format!("ext{n} ")); }
            2 => { b.clear(); model.clear(); log.push_str("clear "); }
            3 => { if !with_reserve && !model.is_empty() { continue; } let old = b.capacity().max(model.len()); let n = if with_reserve && n == 20000 { 300_000 } else { n }; nopanic("reserve", || b.reserve(n))?; if b.capacity() < n { c.note("reserve_capacity_short", 1); } log.push_str(&format!("reserve{n} ")); after_reserve = true;
                   let junk: Vec<Vec<u8>> = (0..4).map(|_| vec![0xA5u8; old.max(1)]).collect(); std::hint::black_box(&junk); } // whatever the old storage was, it is free to be re-used now
            4 => { let x = c.rng.bytes(n); b = CacheBuffer::from_data(x.clone()); model = x; log.push_str(&format!("from{n} ")); }
            5 => { pool.put(std::mem::take(&mut b)); b = pool.get(); model.clear(); log.push_str("pool ");
                   ensure!(b.is_empty() && b.data().is_empty(), "pool_buffer_stale", "step {step}: a buffer holding data was put into the pool; get() handed it out still holding {} bytes; ops: {log}", b.len()); }
            6 => { let off = pos.min(fsize); let len = n.min(fsize - off); sc.read(id, off as u64, len, &mut b).map_err(|e| bad("read_err", format!("step {step}: {e}")))?; model = data[off..off + len].to_vec(); log.push_str(&format!("read@{off}+{len} ")); }
            _ => { let off = pos.min(fsize); let len = n.min(fsize - off); b = sc.read_new(id, off as u64, len).map_err(|e| bad("read_err", format!("step {step}: {e}")))?; model = data[off..off + len].to_vec(); log.push_str(&format!("readnew@{off}+{len} ")); }
        }
        let got = b.data(); c.ev(1);
        if got != &model[..] { let first = got.iter().zip(model.iter()).position(|(a, b)| a != b).unwrap_or(got.len().min(model.len()));
            return fail(if after_reserve { "buffer_changed_by_reserve" } else if got.len() != model.len() { "buffer_len" } else { "buffer_bytes" }, format!("step {step}: buffer holds {} bytes, expected {} (first difference at +{first}); ops: {log}", got.len(), model.len())); }
        ensure!(b.len() == model.len() && b.is_empty() == model.is_empty(), "buffer_len", "step {step}: len()={} is_empty()={} for {} bytes; ops: {log}", b.len(), b.is_empty(), model.len());
        let _ = b.hit_type();
    }
    Ok(())
}

/// CachedBlobStore::new / with_cache, strategy switching in mid-history, writes and removals that go through inner_mut().
fn cachedblob_api(c: &mut Case, via: &str) -> Res {
    let pages = *c.rng.pick(&[0usize, 1, 2, 4, 8]); let cfg = PageCacheConfig::balanced().with_capacity((pages * PAGE_SIZE).max(1000));
    let nops = 20 + c.rng.usize_below(80); c.input_str("cfg", &format!("via={via} cache_pages={pages} nops={nops} api")); let sd = c.rng.next(); c.input("rng", &sd.to_le_bytes());
    let mut store = if via == "new" { CachedBlobStore::new(MemoryBlobStore::new(), cfg).map_err(|e| bad("ctor_err", format!("{e}")))? }
        else { let cache = Arc::new(LruPageCache::new(cfg).map_err(|e| bad("ctor_err", format!("{e}")))?); CachedBlobStore::with_cache(MemoryBlobStore::new(), cache).map_err(|e| bad("ctor_err", format!("{e}")))? };
    ensure!(store.write_strategy() == CacheWriteStrategy::WriteThrough, "ctor_strategy", "{via}() is documented to use write-through, write_strategy()={:?}", store.write_strategy());
    let mut twin = MemoryBlobStore::new(); let mut ids: Vec<u32> = vec![]; let mut removed: Vec<u32> = vec![]; let mut nontriv = 0;
    for step in 0..nops {
        let x = c.rng.below(100);
        if x < 35 || ids.is_empty() { let (_k, blob) = if c.rng.chance(1, 8) { (0, vec![]) } else { gen::bytes_any(&mut c.rng, 3 * PAGE_SIZE) }; c.hash_more(&blob); let behind = c.rng.chance(1, 4);
            let a = if behind { c.note("inner_mut_puts", 1); nopanic("inner_mut().put", || store.inner_mut().put(&blob))? } else { nopanic("put", || store.put(&blob))? }; let b = twin.put(&blob);
            match (a, b) { (Ok(a), Ok(b)) => { ensure!(a == b, "put_id", "step {step}: cached store assigned id {a}, an identical plain store {b}"); ids.push(a); nontriv += 1; } (a, b) => return fail("put_err", format!("step {step}: cached {:?} twin {:?}", a.is_ok(), b.is_ok())) }
        } else if x < 72 { let id = if c.rng.chance(1, 8) && !removed.is_empty() { *c.rng.pick(&removed) } else { *c.rng.pick(&ids) };
            let got = nopanic("get", || store.get(id))?; let inner = store.inner().get(id); let tw = twin.get(id); c.ev(2);
            match (&got, &inner) { (Ok(g), Ok(i)) => { if g != i { return fail("cached_get_mismatch", format!("step {step}: get({id}) through the cache returned {} bytes, the wrapped store {} bytes (or different content)", g.len(), i.len())); } } (Err(_), Err(_)) => {} _ => return fail("cached_get_mismatch", format!("step {step}: get({id}) cached ok={} wrapped ok={}", got.is_ok(), inner.is_ok())) }
            match (&got, &tw) { (Ok(g), Ok(t)) => ensure!(g == t, "cached_get_vs_twin", "step {step}: get({id}) differs from an independent store fed the same operations"), (Err(_), Err(_)) => {} _ => return fail("cached_get_vs_twin", format!("step {step}: get({id}) ok={} twin ok={}", got.is_ok(), tw.is_ok())) }
            let (s1, s2) = (store.size(id).ok().flatten(), twin.size(id).ok().flatten()); ensure!(s1 == s2, "size", "step {step}: size({id})={s1:?} twin {s2:?}"); ensure!(store.contains(id) == twin.contains(id), "contains", "step {step}: contains({id})");
        } else if x < 84 { let i = c.rng.usize_below(ids.len()); let id = ids[i]; let behind = c.rng.chance(1, 4);
            let a = if behind { c.note("inner_mut_removes", 1); nopanic("inner_mut().remove", || store.inner_mut().remove(id))? } else { nopanic("remove", || store.remove(id))? }; let b = twin.remove(id);
            ensure!(a.is_ok() == b.is_ok(), "remove", "step {step}: remove({id}) ok={} twin ok={}", a.is_ok(), b.is_ok()); if a.is_ok() { ids.swap_remove(i); removed.push(id); }
            let g = store.get(id); let gi = store.inner().get(id); ensure!(g.is_ok() == gi.is_ok(), if behind { "get_after_inner_remove" } else { "get_after_remove" }, "step {step}: after remove({id}){} the cached store get ok={} but the wrapped store ok={}", if behind { " on inner_mut()" } else { "" }, g.is_ok(), gi.is_ok()); c.ev(1);
        } else if x < 92 { let s = *c.rng.pick(&[CacheWriteStrategy::WriteThrough, CacheWriteStrategy::WriteBack, CacheWriteStrategy::WriteAround]); store.set_write_strategy(s); ensure!(store.write_strategy() == s, "set_write_strategy", "step {step}: set_write_strategy({s:?}) then write_strategy()={:?}", store.write_strategy()); c.note("strategy_switches", 1); }
        else if x < 96 { let st = nopanic("cache_stats", || store.cache_stats())?; c.note("cache_hits", st.hit_counts[0]); let _ = nopanic("invalidation_stats", || store.invalidation_stats())?; if c.rng.bool() { store.disable_cache() } else { store.enable_cache() } }
        else { ensure!(BlobStore::len(&store) == twin.len(), "len", "step {step}: len()={} twin {}", BlobStore::len(&store), twin.len()); }
    }
    store.enable_cache();
    for &id in &ids { let g = store.get(id).map_err(|e| bad("cached_get_mismatch", format!("final get({id}) Err({e})")))?; let t = twin.get(id).map_err(|e| bad("__inconclusive", format!("{e}")))?; ensure!(g == t, "cached_get_vs_twin", "final get({id}) differs"); c.ev(1); }
    c.set_nontrivial(nontriv >= 2); Ok(())
}

/// FsaCache::new and the config presets; is_full(); CachedState free/used marking does not disturb what is stored.
fn fsacache_presets(c: &mut Case, which: &str) -> Res {
    let want = match which { "small" => FsaCacheConfig::small(), "large" => FsaCacheConfig::large(), "memory_efficient" => FsaCacheConfig::memory_efficient(), _ => FsaCacheConfig::default() };
    let inserts = if which == "small" { want.max_states + 1200 + c.rng.usize_below(1500) } else { 200 + c.rng.usize_below(1500) };
    c.input_str("cfg", &format!("preset={which} max_states={} inserts={inserts}", want.max_states)); let sd = c.rng.next(); c.input("rng", &sd.to_le_bytes()); c.set_nontrivial(true);
    let mut cache = match nopanic("constructor", || if which == "new" { FsaCache::new() } else { FsaCache::with_config(want.clone()) })? { Ok(x) => x, Err(e) => { c.note("ctor_err", 1); c.log(format!("ctor: {e}")); c.set_nontrivial(false); return Ok(()); } };
    let max = cache.config().max_states; ensure!(max == want.max_states && cache.config().strategy == want.strategy, "config", "config() = ({max}, {:?}) but the cache was built with ({}, {:?})", cache.config().strategy, want.max_states, want.strategy);
    let mut model: HashMap<u32, (u32, u32, bool)> = HashMap::new(); let (mut evicted, mut sweeps) = (0u64, 0u64);
    for i in 0..inserts {
        let (parent, base, term) = (c.rng.below(1 << 24) as u32, c.rng.next() as u32, c.rng.bool());
        let id = nopanic("cache_state", || cache.cache_state(parent, base, term))?.map_err(|e| bad("cache_state_err", format!("insert #{i}: {e}")))?; model.insert(id, (parent, base, term));
        let mut st = match cache.get_state(id) { Some(s) => s, None => return fail("lost_entry", format!("insert #{i}: state {id} is not retrievable right after cache_state returned it")) };
        ensure!((st.parent(), st.child_base, st.is_terminal()) == (parent, base, term) && !st.is_free(), "stale_value", "insert #{i}: get_state({id}) = ({}, {}, {}) want ({parent}, {base}, {term})", st.parent(), st.child_base, st.is_terminal());
        if i % 8 == 0 { st.mark_free(); ensure!(st.is_free() && (st.parent(), st.child_base, st.is_terminal()) == (parent, base, term), "state_flags", "mark_free() changed the state to ({}, {}, {}, free={})", st.parent(), st.child_base, st.is_terminal(), st.is_free());
            st.mark_used(); ensure!(!st.is_free() && (st.parent(), st.child_base, st.is_terminal()) == (parent, base, term), "state_flags", "mark_used() changed the state to ({}, {}, {}, free={})", st.parent(), st.child_base, st.is_terminal(), st.is_free());
            let s2 = CachedState::new(base, parent, term, true); ensure!(s2.is_free() && s2.parent() == parent && s2.child_base == base && s2.is_terminal() == term, "state_flags", "CachedState::new(.., is_free=true) reads back differently"); c.ev(1); }
        let cs = cache.stats().cached_states; ensure!(cs <= max, "len_gt_capacity", "insert #{i}: {cs} states cached, max_states {max}"); c.ev(2);
        if cs != model.len() { sweeps += 1; let keys: Vec<u32> = model.keys().copied().collect();
            for k in keys { match cache.get_state(k) { None => { ensure!(k != id, "lost_entry", "insert #{i}: state {id} vanished in the eviction that made room for it"); model.remove(&k); evicted += 1; }
                Some(s) => { let w = model[&k]; ensure!((s.parent(), s.child_base, s.is_terminal()) == w, "stale_value", "after eviction get_state({k}) = ({}, {}, {}) want {w:?}", s.parent(), s.child_base, s.is_terminal()); } } }
            ensure!(cs == model.len(), "len", "insert #{i}: stats().cached_states={cs}, {} states retrievable", model.len()); }
        let full = cache.is_full(); ensure!(full == (model.len() >= max), "is_full", "insert #{i}: is_full()={full} with {} of {max} states cached", model.len());
        if c.rng.chance(1, 16) { let ks: Option<u32> = model.keys().copied().filter(|k| *k != id).min(); if let Some(k) = ks { let k = if c.rng.bool() { k } else { id }; ensure!(cache.remove_state(k), "remove_return", "remove_state({k}) = false for a cached state"); model.remove(&k); ensure!(cache.get_state(k).is_none(), "get_returned_absent", "get_state({k}) after remove_state"); ensure!(!cache.is_full() || model.len() >= max, "is_full", "is_full() after a removal with {} of {max}", model.len()); } }
    }
    let st = cache.stats(); let _ = nopanic("stats ratios", || (st.hit_ratio(), st.memory_efficiency()))?;
    c.note("evicted", evicted); c.note("sweeps", sweeps);
    Ok(())
}

// =============================================================================================
pub fn run(ctx: &mut Ctx) {
    // ---- LruMap, sequential ----
    let fams = ["mixed", "scan", "getheavy", "churn", "clear", "clearfull", "cap1"];
    for preset in ["default", "perf", "mem", "sec", "ctor_cb"] {
        let per = ctx.n(if preset == "default" { 110 } else { 60 }, if preset == "default" { 4000 } else { 2000 });
        for fam in fams { for idx in 0..per as u64 { ctx.case(&format!("lrumap/{preset}"), fam, idx, |c| lrumap_seq(c, preset, fam)); } }
    }
    // ---- ConcurrentLruMap, sequential ----
    for variant in ["s1", "s2", "s4", "s8", "preset_default", "preset_perf", "preset_mem", "ctor_cb"] {
        let per = ctx.n(if variant.starts_with('s') { 45 } else { 25 }, if variant.starts_with('s') { 1500 } else { 800 });
        for fam in ["mixed", "scan", "getheavy", "churn", "clear", "clearfull"] { for idx in 0..per as u64 { ctx.case(&format!("clru/{variant}"), fam, idx, |c| clru_seq(c, variant, fam)); } }
    }
    for idx in 0..ctx.n(40, 600) as u64 {
        ctx.case("clru/rr", "ample", idx, |c| clru_lb(c, LoadBalancingStrategy::RoundRobin, "rr"));
        ctx.case("clru/affinity", "ample", idx, |c| clru_lb(c, LoadBalancingStrategy::ThreadAffinity, "affinity"));
    }
    for idx in 0..ctx.n(6, 60) as u64 { ctx.case("clru/affinity_mt", "handoff", idx, clru_affinity_mt); }
    // ---- concurrent ----
    for wl in ["evict", "ample", "clear"] { // ("clear" fails with put_err on every run of a tree that still has the sequential clear() defect D1, tag clear_nonfull)
        for idx in 0..ctx.n(30, 300) as u64 {
            ctx.case("lrumap/conc", wl, idx, |c| conc_case(c, 0, wl));
            for s in [1usize, 2, 4] { ctx.case(&format!("clru/conc/s{s}"), wl, idx / 1, |c| conc_case(c, s, wl)); }
        }
    }
    for idx in 0..ctx.n(12, 200) as u64 { ctx.case("lrumap/get_evict_window", "script", idx, get_evict_window); }
    // ---- page cache ----
    for single in [false, true] {
        for preset in ["balanced", "perf", "mem", "sec"] {
            let t = format!("pagecache/{}/{preset}", if single { "single" } else { "lru" });
            for idx in 0..ctx.n(if preset == "balanced" { 120 } else { 60 }, if preset == "balanced" { 4000 } else { 2000 }) as u64 { ctx.case(&t, "hist", idx, |c| pagecache_case(c, single, preset, "hist")); }
            for idx in 0..ctx.n(12, 300) as u64 { ctx.case(&t, "eof", idx, |c| pagecache_case(c, single, preset, "eof")); }
        }
        let t = format!("pagecache/{}/perf_huge", if single { "single" } else { "lru" });
        for idx in 0..ctx.n(6, 100) as u64 { ctx.case(&t, "hist", idx, |c| pagecache_case(c, single, "perf_huge", "hist")); }
        let t = format!("pagecache/{}/balanced", if single { "single" } else { "lru" });
        for idx in 0..ctx.n(8, 60) as u64 { ctx.case(&t, "far", idx, |c| pagecache_far(c, single)); }
    }
    // ---- cached blob store ----
    for (name, st) in [("write_through", CacheWriteStrategy::WriteThrough), ("write_back", CacheWriteStrategy::WriteBack), ("write_around", CacheWriteStrategy::WriteAround)] {
        for idx in 0..ctx.n(50, 1500) as u64 { ctx.case(&format!("cachedblob/{name}"), "hist", idx, |c| cachedblob_case(c, st, false)); }
        for idx in 0..ctx.n(15, 400) as u64 { ctx.case(&format!("cachedblob/{name}"), "shared_cache", idx, |c| cachedblob_case(c, st, true)); }
    }
    // ---- fsa cache ----
    for (name, st) in [("bfs", CacheStrategy::BreadthFirst), ("dfs", CacheStrategy::DepthFirst), ("cache_friendly", CacheStrategy::CacheFriendly)] {
        for idx in 0..ctx.n(40, 1000) as u64 { ctx.case(&format!("fsacache/{name}"), "hist", idx, |c| fsacache_case(c, st)); }
    }
    // ---- large-input families (same targets, generator names start with huge_) ----
    for preset in ["default", "perf", "mem", "sec", "ctor_cb"] { for idx in 0..ctx.n(if preset == "default" { 3 } else { 2 }, 30) as u64 { ctx.case(&format!("lrumap/{preset}"), "huge_cap", idx, |c| huge_lrumap(c, preset)); } }
    for variant in ["s1", "s2", "s4", "s8", "preset_default", "preset_perf", "preset_mem", "ctor_cb"] { for idx in 0..ctx.n(if variant.starts_with('s') { 2 } else { 1 }, 20) as u64 { ctx.case(&format!("clru/{variant}"), "huge_cap", idx, |c| huge_clru(c, variant)); } }
    for idx in 0..ctx.n(2, 20) as u64 { ctx.case("lrumap/conc", "huge_evict", idx, |c| huge_conc_case(c, 0)); for s in [1usize, 2, 4] { ctx.case(&format!("clru/conc/s{s}"), "huge_evict", idx, |c| huge_conc_case(c, s)); } }
    for single in [false, true] {
        for preset in ["balanced", "perf", "mem", "sec", "perf_huge"] {
            let t = format!("pagecache/{}/{preset}", if single { "single" } else { "lru" });
            if preset != "perf_huge" { for idx in 0..ctx.n(if preset == "balanced" { 10 } else { 5 }, 80) as u64 { ctx.case(&t, "huge_sparse", idx, |c| pagecache_huge_sparse(c, single, preset)); } }
            for idx in 0..ctx.n(2, 30) as u64 { ctx.case(&t, "huge_dense", idx, |c| pagecache_huge_dense(c, single, preset)); }
        }
    }
    for (name, st) in [("write_through", CacheWriteStrategy::WriteThrough), ("write_back", CacheWriteStrategy::WriteBack), ("write_around", CacheWriteStrategy::WriteAround)] {
        for idx in 0..ctx.n(2, 20) as u64 { ctx.case(&format!("cachedblob/{name}"), "huge_blobs", idx, |c| cachedblob_huge(c, st, false)); }
        for idx in 0..ctx.n(1, 8) as u64 { ctx.case(&format!("cachedblob/{name}"), "huge_many", idx, |c| cachedblob_huge(c, st, true)); }
    }
    for (name, st) in [("bfs", CacheStrategy::BreadthFirst), ("dfs", CacheStrategy::DepthFirst), ("cache_friendly", CacheStrategy::CacheFriendly)] {
        for idx in 0..ctx.n(2, 15) as u64 { ctx.case(&format!("fsacache/{name}"), "huge_states", idx, |c| fsacache_huge(c, st)); }
    }
    // ---- API-gap families (constructors without callback, shard-level API, buffers / pool / virtual files, blob-store ctor + inner_mut, FsaCache presets) ----
    for via in ["new", "with_config"] {
        for idx in 0..ctx.n(80, 2000) as u64 { ctx.case(&format!("lrumap/{via}"), "nocb", idx, |c| lrumap_nocb(c, via)); }
        for idx in 0..ctx.n(50, 1200) as u64 { ctx.case(&format!("clru/{via}"), "nocb_shard_api", idx, |c| clru_nocb(c, via)); }
    }
    for single in [false, true] { let t = format!("pagecache/{}/balanced", if single { "single" } else { "lru" }); for idx in 0..ctx.n(40, 1000) as u64 { ctx.case(&t, "api", idx, |c| pagecache_api(c, single)); } }
    for idx in 0..ctx.n(60, 2000) as u64 { ctx.case("cachebuf", "ops", idx, |c| cachebuf_ops(c, false)); }
    for idx in 0..ctx.n(30, 1000) as u64 { ctx.case("cachebuf/reserve", "ops", idx, |c| cachebuf_ops(c, true)); }
    for via in ["new", "with_cache"] { for idx in 0..ctx.n(50, 1200) as u64 { ctx.case(&format!("cachedblob/{via}"), "api", idx, |c| cachedblob_api(c, via)); } }
    for (which, q, t) in [("new", 4, 60), ("small", 3, 40), ("large", 3, 40), ("memory_efficient", 4, 60)] { for idx in 0..ctx.n(q, t) as u64 { ctx.case(&format!("fsacache/preset_{which}"), "presets", idx, |c| fsacache_presets(c, which)); } }
}
