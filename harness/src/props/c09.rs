//! C09 — compressed integer vectors return every stored value unchanged.
//! Oracle: the input slice. build -> len, get(i) for all i (sampled for O(i) delta reads on big inputs), get past the end refused,
//! get2 / get_block / static fast_get where the container has them, incremental push == bulk.
//! The strategy each IntVec / UintVector case is expected to select is *predicted from the input only* (mirror of the selection
//! code) and confirmed against the container's reported memory size; it is recorded as a note (`strat:*`) and drives the
//! input-only root-cause tags.
use crate::ctx::{catch, Case, Ctx, Fail, Res};
use crate::gen;
use crate::rng::Rng;
use std::mem::size_of;
use zipora::blob_store::{SortedUintVec, SortedUintVecBuilder, SortedUintVecConfig};
use zipora::containers::{UintVecMin0, ZipIntVec};
use zipora::{IntVec, PackedInt, UintVector};

fn bad(oracle: &str, d: String) -> Fail { Fail { oracle: oracle.to_string(), detail: d } }
/// BitOps::compute_bit_width: bits needed, 0 -> 1
fn width(x: u64) -> u8 { if x == 0 { 1 } else { 64 - x.leading_zeros() as u8 } }
/// UintVecMin0::compute_uintbits: bits needed, 0 -> 0
fn ubits(x: u64) -> usize { 64 - x.leading_zeros() as usize }
fn a16(x: usize) -> usize { (x + 15) & !15 }
fn mask_of(bits: u32) -> u64 { if bits >= 64 { u64::MAX } else { (1u64 << bits) - 1 } }
fn le_bytes(v: &[u64]) -> Vec<u8> { v.iter().flat_map(|x| x.to_le_bytes()).collect() }

// ---------------------------------------------------------------------------------------------------------------------
// generators
// ---------------------------------------------------------------------------------------------------------------------
const DIRECTED: &[&str] = &["sampled_sorted", "sorted_tail_jump", "sorted_big_jumps", "block_clustered", "wide_range", "arith", "signed_mix", "runs"];
const NKINDS: u32 = gen::INT_KINDS + 8;
fn kind_name(k: u32) -> &'static str { if k < gen::INT_KINDS { gen::int_kind_name(k) } else { DIRECTED[(k - gen::INT_KINDS) as usize] } }

/// sorted sequence with deltas of at most `dbits` bits, starting so that it never exceeds mask
fn sorted_small(r: &mut Rng, len: usize, mask: u64, dbits: u32) -> Vec<u64> {
    let dm = mask_of(dbits.min(63)).min(mask);
    let maxd = if len == 0 { 0 } else { (mask / (len as u64).max(1)).min(dm) };
    let span = maxd.saturating_mul(len as u64);
    let start = if mask > span { r.below(mask - span) } else { 0 };
    let mut cur = start; let mut v = Vec::with_capacity(len);
    for _ in 0..len { v.push(cur); cur = cur.saturating_add(r.below(maxd + 1)).min(mask); }
    v
}

/// One integer sequence of family `kind`, all values <= mask (mask = all-ones of the element width).
fn gen_vals(r: &mut Rng, kind: u32, len: usize, mask: u64, tbits: u32) -> Vec<u64> {
    if kind < gen::INT_KINDS { return gen::ints_kind(r, kind, len, mask); }
    match kind - gen::INT_KINDS {
        0 => { // sorted at the positions the sampled sorted-check looks at (every max(len/16,1)-th), unsorted in between
            let db = 1 + r.below(tbits as u64 - 1) as u32; let mut v = sorted_small(r, len, mask, db);
            let step = (len / 16).max(1);
            if step >= 2 { let dips = 1 + r.usize_below(4); for _ in 0..dips { let i = r.usize_below(len); if i % step != 0 && i > 0 {
                v[i] = match r.below(3) { 0 => v[i - 1].saturating_sub(1 + r.below(5)), 1 => r.next() & mask, _ => 0 }; } } }
            v }
        1 => { // sorted, small deltas, but the elements after the last sampled index jump far
            let db = 1 + r.below(6) as u32; let mut v = sorted_small(r, len, mask >> 1, db);
            let step = (len / 16).max(1);
            if len >= 2 { let last_sampled = ((len - 1) / step) * step; let from = if last_sampled + 1 < len && r.chance(3, 4) { last_sampled + 1 } else { len - 1 };
                let jump = match r.below(3) { 0 => mask - v[len - 1], 1 => r.below(mask - v[len - 1] + 1), _ => (1u64 << r.below(tbits as u64)).min(mask - v[len - 1]) };
                for x in v[from..].iter_mut() { *x += jump; } }
            v }
        2 => { // sorted with a few very large jumps (> 2^32 for 64-bit elements)
            let db = 1 + r.below(10) as u32; let mut v = sorted_small(r, len, mask >> 2, db);
            if len >= 2 { let jumps = 1 + r.usize_below(3); let room = (mask - v[len - 1]) / jumps as u64;
                for _ in 0..jumps { let at = 1 + r.usize_below(len - 1); let j = if r.bool() { room } else { r.below(room + 1) }; for x in v[at..].iter_mut() { *x += j; } } }
            v }
        3 => { // values cluster per 64/128-element block: random block base + small offsets
            let bs = *r.pick(&[64usize, 128]); let ob = 1 + r.below(12) as u32; let om = mask_of(ob).min(mask);
            let zero_min = r.bool(); let sorted_bases = r.chance(1, 3);
            let nb = (len + bs - 1) / bs; let mut bases: Vec<u64> = (0..nb).map(|_| r.below(mask - om + 1)).collect();
            if sorted_bases { bases.sort(); }
            let mut v: Vec<u64> = (0..len).map(|i| bases[i / bs] + r.below(om + 1)).collect();
            if zero_min && len > 0 { let b = r.usize_below(nb); let lo = b * bs; let hi = (lo + bs).min(len); for x in v[lo..hi].iter_mut() { *x -= bases[b]; } v[lo] = 0; }
            v }
        4 => { // range needs exactly w bits, w close to the element width (49..64 for 64-bit elements)
            let w = tbits - r.below(16.min(tbits as u64)) as u32; let span = mask_of(w).min(mask); let top = if w >= 64 { 1u64 << 63 } else { 1u64 << (w - 1) };
            let min = if r.chance(1, 4) { 0 } else { r.below(mask - span + 1) };
            (0..len).map(|i| match i { 0 => min, 1 => min + (top | (r.next() & (top - 1))).min(span), _ => min + (r.next() & span) }).collect() }
        5 => { // arithmetic sequence
            let dmax = mask / (len as u64).max(1);
            let d = match r.below(5) { 0 => 0, 1 => 1.min(dmax), 2 => (1 + r.below(1000)).min(dmax), 3 => dmax, _ => r.below(dmax.saturating_add(1)) };
            let span = d.saturating_mul(len.saturating_sub(1) as u64).min(mask); let base = match r.below(3) { 0 => 0, 1 => mask - span, _ => r.below((mask - span).saturating_add(1)) };
            (0..len).map(|i| base + d * i as u64).collect() }
        6 => { // small magnitudes around zero in the signed reading, occasionally the signed extremes
            let k = 1 + r.below(300) as i64; let smin = (mask >> 1) + 1; let smax = mask >> 1;
            (0..len).map(|_| if r.chance(1, 40) { if r.bool() { smin } else { smax } } else { ((r.below(2 * k as u64 + 1) as i64 - k) as u64) & mask }).collect() }
        _ => { // runs of equal values
            let long = r.bool(); let mut v = Vec::with_capacity(len); let alpha: Vec<u64> = (0..1 + r.usize_below(6)).map(|_| if r.bool() { r.next() & mask } else { r.below(50) & mask }).collect();
            while v.len() < len { let x = *r.pick(&alpha); let n = 1 + r.usize_below(if long { 200 } else { 4 }); for _ in 0..n { if v.len() < len { v.push(x); } } }
            v }
    }
}

const IV_LENS: &[usize] = &[0, 1, 2, 3, 4, 5, 7, 8, 9, 15, 16, 17, 31, 32, 33, 47, 48, 63, 64, 65, 66, 95, 127, 128, 129, 130, 191, 192, 193, 255, 256, 257,
    511, 512, 513, 999, 1000, 1001, 1002, 1023, 1024, 1025, 1026, 2047, 2048, 2049];
const IV_LENS_MID: &[usize] = &[1001, 1002, 1024, 1025, 1100, 2048, 2049, 2050, 4095, 4096, 4097, 8703, 8704, 9999, 10000];
const IV_LENS_BIG: &[usize] = &[10001, 10002, 10240, 12800, 17407, 17408, 17409, 20000];
/// class 0: small / boundary lengths, 1: 1001..=10000 (small-dataset heuristic beyond the MinMax cut-off), 2: > 10000 (full analysis)
fn iv_len(r: &mut Rng, class: u32) -> usize {
    match class {
        0 => match r.below(5) { 0 | 1 | 2 => *r.pick(IV_LENS), 3 => (*r.pick(IV_LENS) + r.usize_below(7)).saturating_sub(3), _ => r.usize_below(1500) },
        1 => if r.bool() { *r.pick(IV_LENS_MID) } else { 1001 + r.usize_below(9000) },
        _ => if r.chance(2, 3) { *r.pick(IV_LENS_BIG) } else { 10001 + r.usize_below(12000) },
    }
}

// ---------------------------------------------------------------------------------------------------------------------
// IntVec: input-only model of the strategy selection (src/containers/specialized/int_vec.rs)
// ---------------------------------------------------------------------------------------------------------------------
#[derive(Clone, Copy, Debug, PartialEq)]
enum Strat { Empty, Raw, MinMax { w: u8 }, BlockSmall { ow: u8 }, BlockOpt { bs: usize, ow: u8, sw: u8, min_nonzero: bool }, DeltaUniform, DeltaSampled { w: u8 }, DeltaExact { w: u8 } }
impl Strat {
    fn name(&self) -> &'static str { match self { Strat::Empty => "empty", Strat::Raw => "raw", Strat::MinMax { .. } => "minmax", Strat::BlockSmall { .. } => "block_small", Strat::BlockOpt { .. } => "block_opt",
        Strat::DeltaUniform => "delta_uniform", Strat::DeltaSampled { .. } => "delta_sampled", Strat::DeltaExact { .. } => "delta_exact" } }
    /// data + index bytes the (non-SIMD / SIMD) compressor allocates for this strategy
    fn bytes(&self, n: usize) -> usize { match *self {
        Strat::Empty => 0, Strat::Raw => 8 * n, Strat::MinMax { w } => a16((n * w as usize + 7) / 8), Strat::DeltaUniform => 16,
        Strat::DeltaSampled { w } | Strat::DeltaExact { w } => 8 + a16(((n - 1) * w as usize + 7) / 8),
        Strat::BlockSmall { ow } => a16((((n + 63) / 64) * 4 + 7) / 8) + a16((n * ow as usize + 7) / 8),
        Strat::BlockOpt { bs, ow, sw, .. } => a16((((n + bs - 1) / bs) * sw as usize + 7) / 8) + a16((n * ow as usize + 7) / 8) } }
}
fn fast_sorted_check(v: &[u64]) -> bool { if v.len() < 2 { return true; } let step = (v.len() / 16).max(1); let mut prev = v[0]; let mut i = step; while i < v.len() { if v[i] < prev { return false; } prev = v[i]; i += step; } true }
fn uniform_delta(v: &[u64]) -> Option<u64> { if v.len() < 2 || v[1] < v[0] { return None; } let d = v[1] - v[0]; for i in 2..v.len() { if v[i] < v[i - 1] || v[i] - v[i - 1] != d { return None; } } Some(d) }
fn delta_bulk(v: &[u64]) -> Strat { let step = (v.len() / 16).max(1); let mut maxd = 0u64; let mut i = step; while i < v.len() { match v[i].checked_sub(v[i - step]) { Some(d) => maxd = maxd.max(d), None => return Strat::Raw } i += step; }
    if maxd > (1u64 << 32) { Strat::Raw } else { Strat::DeltaSampled { w: width(maxd) } } }
fn predict_small(v: &[u64]) -> Strat {
    let n = v.len(); if n == 0 { return Strat::Empty; } if n < 4 { return Strat::Raw; }
    if fast_sorted_check(v) { if uniform_delta(v).is_some() { return Strat::DeltaUniform; } return delta_bulk(v); }
    let (mn, mx) = (*v.iter().min().unwrap(), *v.iter().max().unwrap());
    if mn == mx { return Strat::MinMax { w: 1 }; }
    let w = width(mx - mn);
    if w <= 16 || n <= 1000 { Strat::MinMax { w } } else { Strat::BlockSmall { ow: w.min(8) } }
}
fn predict_optimal(v: &[u64]) -> Strat {
    let n = v.len(); if n < 8 { return Strat::Raw; }
    let (mn, mx) = (*v.iter().min().unwrap(), *v.iter().max().unwrap());
    let mm = Strat::MinMax { w: if mn == mx { 1 } else { width(mx - mn) } };
    let mut dl = Strat::Raw; { let mut maxd = 0u64; let mut ok = true; for i in 1..n { match v[i].checked_sub(v[i - 1]) { Some(d) => maxd = maxd.max(d), None => { ok = false; break; } } } if ok && maxd <= (1u64 << 32) { dl = Strat::DeltaExact { w: width(maxd) }; } }
    let bs = if n >= 1024 { 128 } else { 64 }; let nb = (n + bs - 1) / bs;
    let samples: Vec<u64> = (0..nb).map(|b| *v[b * bs..((b + 1) * bs).min(n)].iter().min().unwrap()).collect();
    let (smin, smax) = (*samples.iter().min().unwrap(), *samples.iter().max().unwrap());
    let mut maxo = 0u64; for (i, &x) in v.iter().enumerate() { maxo = maxo.max(x - samples[i / bs]); }
    let bl = Strat::BlockOpt { bs, ow: width(maxo), sw: width(smax - smin), min_nonzero: smin != 0 };
    let est = |s: &Strat| -> f64 { let orig = n * 8; let c = match *s { Strat::Raw => orig, Strat::MinMax { w } => ((n * w as usize + 7) / 8).max(32), Strat::DeltaExact { w } => 8 + ((n * w as usize + 7) / 8).max(32),
        Strat::BlockOpt { bs, ow, sw, .. } => ((n + bs - 1) / bs) * sw as usize / 8 + (n * ow as usize + 7) / 8, _ => orig }; c as f64 / orig as f64 };
    let mut best = mm; for s in [dl, bl] { if est(&s) < est(&best) { best = s; } } best
}
fn predict_simd(v: &[u64]) -> Strat {
    let n = v.len(); if n < 4 { return Strat::Raw; }
    let likely = if n >= 8 { v[0] <= v[1] && v[1] <= v[2] && v[2] <= v[3] && v[n - 4] <= v[n - 3] && v[n - 3] <= v[n - 2] && v[n - 2] <= v[n - 1] && v[0] <= v[n - 1] } else { fast_sorted_check(v) };
    if likely && n <= 1024 && uniform_delta(v).is_some() { return Strat::DeltaUniform; }
    let (mn, mx) = (*v.iter().min().unwrap(), *v.iter().max().unwrap());
    if mn == mx { return Strat::MinMax { w: 1 }; }
    let w = width(mx - mn); if w < 48 { Strat::MinMax { w } } else { Strat::Raw }
}
/// Selection as it is after the repairs of the small-dataset path and of the block samples (exact sorted test, exact delta width, MinMax
/// instead of the fixed-width block fallback, absolute block samples). Used for the `strat:*` evidence notes only; tags keep the original model.
fn predict_current(v: &[u64], elem: usize, ctor: Ctor) -> Strat {
    let n = v.len(); if n == 0 { return Strat::Empty; }
    if ctor == Ctor::Simd && (65..=2048).contains(&n) { return predict_simd(v); }
    let exact_delta = |v: &[u64]| -> Strat { let mut maxd = 0u64; for i in 1..v.len() { match v[i].checked_sub(v[i - 1]) { Some(d) => maxd = maxd.max(d), None => return Strat::Raw } } if maxd > (1u64 << 32) { Strat::Raw } else { Strat::DeltaExact { w: width(maxd) } } };
    if n <= 10000 || (n * elem) / 1024 <= 16 {
        if n < 4 { return Strat::Raw; }
        if v.windows(2).all(|p| p[0] <= p[1]) { if uniform_delta(v).is_some() { return Strat::DeltaUniform; } return exact_delta(v); }
        let (mn, mx) = (*v.iter().min().unwrap(), *v.iter().max().unwrap());
        return Strat::MinMax { w: if mn == mx { 1 } else { width(mx - mn) } };
    }
    let (mn, mx) = (*v.iter().min().unwrap(), *v.iter().max().unwrap());
    let mm = Strat::MinMax { w: if mn == mx { 1 } else { width(mx - mn) } };
    let dl = exact_delta(v);
    let bs = if n >= 1024 { 128 } else { 64 }; let nb = (n + bs - 1) / bs;
    let samples: Vec<u64> = (0..nb).map(|b| *v[b * bs..((b + 1) * bs).min(n)].iter().min().unwrap()).collect();
    let mut maxo = 0u64; for (i, &x) in v.iter().enumerate() { maxo = maxo.max(x - samples[i / bs]); }
    let bl = Strat::BlockOpt { bs, ow: width(maxo), sw: width(*samples.iter().max().unwrap()), min_nonzero: false };
    let est = |s: &Strat| -> f64 { let orig = n * 8; let c = match *s { Strat::Raw => orig, Strat::MinMax { w } => ((n * w as usize + 7) / 8).max(32), Strat::DeltaExact { w } => 8 + ((n * w as usize + 7) / 8).max(32),
        Strat::BlockOpt { bs, ow, sw, .. } => ((n + bs - 1) / bs) * sw as usize / 8 + (n * ow as usize + 7) / 8, _ => orig }; c as f64 / orig as f64 };
    let mut best = mm; for s in [dl, bl] { if est(&s) < est(&best) { best = s; } } best
}
#[derive(Clone, Copy, PartialEq, Debug)]
enum Ctor { FromSlice, Bulk, Simd }
fn predict(v: &[u64], elem: usize, ctor: Ctor) -> Strat {
    let n = v.len(); if n == 0 { return Strat::Empty; }
    if ctor == Ctor::Simd && (65..=2048).contains(&n) { return predict_simd(v); }
    if n <= 10000 || (n * elem) / 1024 <= 16 { predict_small(v) } else { predict_optimal(v) }
}
/// what an 8-byte-window read of the k-th w-bit field returns for a stored value (fields that start late in a byte lose their top bits)
fn packed_read(val: u64, k: usize, w: u8) -> u64 { let w = w as usize; if w >= 64 { return val; } let avail = 64 - (k * w) % 8; val & mask_of(w.min(avail) as u32) }
/// Values the chosen packing would hand back (input-only replay of compress_* / get_* for one strategy); `add` = constant added on read.
fn simulate(u: &[u64], s: Strat, add: u64) -> Vec<u64> {
    let n = u.len();
    match s {
        Strat::MinMax { w } => { let mn = *u.iter().min().unwrap(); (0..n).map(|i| mn.wrapping_add(packed_read((u[i] - mn) & mask_of(w as u32), i, w))).collect() }
        Strat::BlockSmall { .. } | Strat::BlockOpt { .. } => { let (bs, ow, sw) = match s { Strat::BlockSmall { ow } => (64usize, ow, 4u8), Strat::BlockOpt { bs, ow, sw, .. } => (bs, ow, sw), _ => unreachable!() };
            let nb = (n + bs - 1) / bs; let mins: Vec<u64> = (0..nb).map(|b| *u[b * bs..((b + 1) * bs).min(n)].iter().min().unwrap()).collect(); let smin = *mins.iter().min().unwrap();
            (0..n).map(|i| packed_read((mins[i / bs] - smin) & mask_of(sw as u32), i / bs, sw).wrapping_add(packed_read((u[i] - mins[i / bs]) & mask_of(ow as u32), i, ow)).wrapping_add(add)).collect() }
        Strat::DeltaSampled { w } | Strat::DeltaExact { w } => { let mut cur = u[0]; let mut out = vec![cur]; for i in 1..n { cur = cur.wrapping_add(packed_read(u[i].wrapping_sub(u[i - 1]) & mask_of(w as u32), i - 1, w)); out.push(cur); } out }
        _ => u.to_vec(),
    }
}

fn check_intvec<T: PackedInt>(c: &mut Case, ctor: Ctor, vals: &[T]) -> Res {
    let n = vals.len();
    let u: Vec<u64> = vals.iter().map(|x| x.to_u64()).collect();
    let pred = predict(&u, size_of::<T>(), ctor);
    // input-only root-cause predicates: replay what the selected packing can represent (`simulate`) and name the mechanism that loses bits
    let tmask = mask_of(8 * size_of::<T>() as u32);
    let lossy = |sim: &[u64]| sim.iter().zip(u.iter()).any(|(a, b)| (a & tmask) != (b & tmask));
    match pred {
        Strat::MinMax { w } => { if lossy(&simulate(&u, pred, 0)) { c.tag("minmax_width_straddles_8_bytes"); }
            // SIMD constructor: write_bits_bulk does an 8-byte load/store at the field's first byte although only the touched bytes are bounds-checked
            if ctor == Ctor::Simd && (65..=2048).contains(&n) && w % 8 != 0 && ((n - 1) * w as usize) / 8 + 8 > a16((n * w as usize + 7) / 8) { c.tag("simd_bulk_write_8_bytes_past_end"); } }
        Strat::BlockSmall { .. } => if lossy(&simulate(&u, pred, 0)) { c.tag("small_dataset_blockbased_lossy"); },
        Strat::BlockOpt { .. } => { let smin = *u.iter().min().unwrap(); if smin & tmask != 0 { c.tag("blockbased_sample_min_dropped"); } if lossy(&simulate(&u, pred, smin)) { c.tag("block_width_straddles_8_bytes"); } }
        Strat::DeltaSampled { .. } => { if !u.windows(2).all(|p| p[0] <= p[1]) { c.tag("delta_unsorted_between_samples"); } else if lossy(&simulate(&u, pred, 0)) { c.tag("delta_width_undersampled"); } }
        _ => {}
    }
    let r = catch(|| match ctor { Ctor::FromSlice => IntVec::<T>::from_slice(vals), Ctor::Bulk => IntVec::<T>::from_slice_bulk(vals), Ctor::Simd => IntVec::<T>::from_slice_bulk_simd(vals) });
    let iv = match r {
        Ok(Ok(v)) => v,
        Ok(Err(_)) => { c.note("ctor_err", 1); c.note(&format!("ctor_err_pred:{}", pred.name()), 1); c.set_nontrivial(false); return Ok(()); } // the statement conditions on success
        Err(p) => return Err(bad(&p.class(), format!("{ctor:?} n={n} predicted {pred:?}: constructor panicked at {}: {}", p.loc, p.msg))),
    };
    c.set_nontrivial(n >= 2);
    ensure!(iv.len() == n, "len", "len()={} want {n} ({pred:?})", iv.len());
    ensure!(iv.is_empty() == (n == 0), "len", "is_empty()={} n={n}", iv.is_empty());
    // evidence: which strategy really ran (memory_usage = struct + data + index)
    let bytes = iv.memory_usage() - size_of::<IntVec<T>>();
    let pred2 = predict_current(&u, size_of::<T>(), ctor);
    if bytes == pred.bytes(n) { c.note(&format!("strat:{}", pred.name()), 1); } else if bytes == pred2.bytes(n) { c.note(&format!("strat:{}", pred2.name()), 1); } else { c.note(&format!("strat_unconfirmed:{}", pred.name()), 1); c.log(format!("bytes {bytes} predicted {} for {pred:?}", pred.bytes(n))); }
    // delta reads are O(i): sample them on big inputs
    let delta = matches!(pred, Strat::DeltaSampled { .. } | Strat::DeltaExact { .. });
    let idx: Vec<usize> = if delta && n > 50_000 { // huge_* families: a delta read costs O(i); keep ~150 far reads
            let mut v: Vec<usize> = (0..300).chain(n - 12..n).collect(); let step = (n / 16).max(1); let mut k = step; while k < n { v.extend([k - 1, k]); k += step; }
            for b in [65535usize, 65536, 65537, 131071, 131072, 131073] { if b < n { v.push(b); } } for _ in 0..40 { v.push(c.rng.usize_below(n)); } for _ in 0..300 { v.push(c.rng.usize_below(20_000)); } v.sort(); v.dedup(); v }
        else if delta && n > 3000 { let mut v: Vec<usize> = (0..300).chain(n - 300..n).collect(); let step = (n / 16).max(1); let mut k = step; while k < n { v.extend([k - 1, k, (k + 1).min(n - 1)]); k += step; } for _ in 0..400 { v.push(c.rng.usize_below(n)); } v.sort(); v.dedup(); v } else { (0..n).collect() };
    let mut cur = 0usize;
    let res = catch(|| { for &i in &idx { cur = i; let g = iv.get(i); if g != Some(vals[i]) { return Err(g); } } Ok(()) });
    match res {
        Ok(Ok(())) => {}
        Ok(Err(g)) => { let cls = if g.is_none() { "get_none_in_range" } else { "value_mismatch" }; return Err(bad(cls, format!("{ctor:?} n={n} {pred:?}: get({cur})={g:?} want {:?} (as u64: want {:#x})", vals[cur], u[cur]))); }
        Err(p) => return Err(bad("get_panic", format!("{ctor:?} n={n} {pred:?}: get({cur}) panicked at {}: {} (want {:?})", p.loc, p.msg, vals[cur]))),
    }
    c.ev(idx.len() as u64);
    for k in [n, n + 1, n + 63, n.wrapping_mul(2) + 7, usize::MAX - 1, usize::MAX] { if k < n { continue; }
        let g = catch(|| iv.get(k)).map_err(|p| bad("oob_panic", format!("get({k}) with len {n}: panic at {}: {}", p.loc, p.msg)))?;
        ensure!(g.is_none(), "oob_value", "get({k}) with len {n} returned {g:?}"); c.ev(1); }
    Ok(())
}

fn run_intvec<T: PackedInt>(ctx: &mut Ctx, tn: &str, tbits: u32) {
    let mask = mask_of(tbits);
    for (ctor, cn, per, classes) in [(Ctor::FromSlice, "from_slice", ctx.n(18, 400), &[0u32, 0, 0, 0, 1, 2][..]), (Ctor::Simd, "simd", ctx.n(10, 250), &[0, 0, 0, 0, 1, 0, 0, 0, 0, 2][..]), (Ctor::Bulk, "bulk", ctx.n(4, 80), &[0, 1, 0, 2][..])] {
        let target = format!("iv_{tn}/{cn}");
        for kind in 0..NKINDS { for idx in 0..per as u64 {
            ctx.case(&target, kind_name(kind), idx, |c| {
                let class = classes[idx as usize % classes.len()];
                let len = iv_len(&mut c.rng, class);
                let raw = gen_vals(&mut c.rng, kind, len, mask, tbits);
                let vals: Vec<T> = raw.iter().map(|&x| T::from_u64(x)).collect();
                c.input_str("kind", kind_name(kind)); c.input_str("len", &len.to_string()); c.input("vals_u64_le", &le_bytes(&raw));
                c.note(&format!("lenclass:{class}"), 1);
                check_intvec::<T>(c, ctor, &vals)
            });
        } }
    }
}

// ---------------------------------------------------------------------------------------------------------------------
// UintVector
// ---------------------------------------------------------------------------------------------------------------------
fn uv_css(w: usize, n: usize) -> usize { a16((w * n + 7) / 8 + 7).max(32) }
fn uv_predict(v: &[u32]) -> (&'static str, usize) {
    let n = v.len(); if n == 0 { return ("empty", 0); } if n < 4 { return ("raw", 4 * n); }
    let mut in_runs = 0usize; let mut cur = 1usize; let mut runs = 1usize;
    for i in 1..n { if v[i] == v[i - 1] { cur += 1; } else { if cur > 1 { in_runs += cur; } cur = 1; runs += 1; } } if cur > 1 { in_runs += cur; }
    if in_runs as f64 / n as f64 > 0.5 { let est = (runs * 8).max(32); if (est as f64 / (4 * n) as f64) < 0.8 { return ("rle", runs * 8); } }
    let (mn, mx) = (*v.iter().min().unwrap(), *v.iter().max().unwrap());
    let w = if mn == mx { 1 } else { 32 - (mx - mn).leading_zeros() as usize };
    let est = uv_css(w, n); if (est as f64 / (4 * n) as f64) < 0.8 { ("minmax", est) } else { ("raw", 4 * n) }
}
fn uv_check(c: &mut Case, uv: &UintVector, vals: &[u32], what: &str) -> Res {
    let n = vals.len();
    ensure!(uv.len() == n, "len", "{what}: len()={} want {n}", uv.len());
    ensure!(uv.is_empty() == (n == 0), "len", "{what}: is_empty");
    let mut cur = 0usize;
    let res = catch(|| { for i in 0..n { cur = i; let g = uv.get(i); if g != Some(vals[i]) { return Err(g); } } Ok(()) });
    match res { Ok(Ok(())) => {}
        Ok(Err(g)) => return Err(bad(if g.is_none() { "get_none_in_range" } else { "value_mismatch" }, format!("{what} n={n}: get({cur})={g:?} want {}", vals[cur]))),
        Err(p) => return Err(bad("get_panic", format!("{what} n={n}: get({cur}) panicked at {}: {}", p.loc, p.msg))) }
    c.ev(n as u64);
    for k in [n, n + 1, n + 64, usize::MAX] { let g = catch(|| uv.get(k)).map_err(|p| bad("oob_panic", format!("{what}: get({k}) len {n}: {} {}", p.loc, p.msg)))?; ensure!(g.is_none(), "oob_value", "{what}: get({k}) with len {n} returned {g:?}"); }
    Ok(())
}
fn run_uintvector(ctx: &mut Ctx) {
    let per = ctx.n(20, 500);
    for kind in 0..NKINDS { for idx in 0..per as u64 {
        ctx.case("uintvector/build_from", kind_name(kind), idx, |c| {
            let len = if idx % 5 == 4 { 1500 + c.rng.usize_below(3000) } else { iv_len(&mut c.rng, 0) };
            let vals: Vec<u32> = gen_vals(&mut c.rng, kind, len, u32::MAX as u64, 32).iter().map(|&x| x as u32).collect();
            c.input_str("kind", kind_name(kind)); c.input("vals_u32_le", &vals.iter().flat_map(|x| x.to_le_bytes()).collect::<Vec<u8>>());
            let uv = match catch(|| UintVector::build_from(&vals)) { Ok(Ok(v)) => v, Ok(Err(_)) => { c.note("ctor_err", 1); return Ok(()); }, Err(p) => return Err(bad(&p.class(), format!("build_from n={len} panicked at {}: {}", p.loc, p.msg))) };
            c.set_nontrivial(len >= 2);
            let (sname, sbytes) = uv_predict(&vals); let (_, comp, _) = uv.stats();
            if comp == sbytes { c.note(&format!("strat:{sname}"), 1); } else { c.note(&format!("strat_unconfirmed:{sname}"), 1); }
            uv_check(c, &uv, &vals, "build_from")
        });
        ctx.case("uintvector/push", kind_name(kind), idx, |c| {
            let len = if idx % 5 == 4 { 600 + c.rng.usize_below(900) } else { iv_len(&mut c.rng, 0).min(1100) };
            let vals: Vec<u32> = gen_vals(&mut c.rng, kind, len, u32::MAX as u64, 32).iter().map(|&x| x as u32).collect();
            c.input_str("kind", kind_name(kind)); c.input("vals_u32_le", &vals.iter().flat_map(|x| x.to_le_bytes()).collect::<Vec<u8>>());
            let mut uv = if c.rng.bool() { UintVector::new() } else { UintVector::with_capacity(c.rng.usize_below(100)) };
            let mut checkpoints: Vec<usize> = (0..4).map(|_| c.rng.usize_below(len + 1)).collect(); checkpoints.extend([63, 64, 65, 128].iter().filter(|&&k| k <= len)); checkpoints.push(len);
            for i in 0..len {
                match catch(|| uv.push(vals[i])) { Ok(Ok(())) => {}, Ok(Err(e)) => return Err(bad("push_err", format!("push #{i} of {} failed: {e}", vals[i]))), Err(p) => return Err(bad(&p.class(), format!("push #{i} panicked at {}: {}", p.loc, p.msg))) }
                if checkpoints.contains(&(i + 1)) { uv_check(c, &uv, &vals[..i + 1], "push")?; c.note("checkpoints", 1); }
            }
            if len == 0 { uv_check(c, &uv, &vals, "push")?; }
            c.set_nontrivial(len >= 2);
            // incremental == bulk
            if let Ok(Ok(b)) = catch(|| UintVector::build_from(&vals)) { for i in 0..len { let (x, y) = (uv.get(i), b.get(i)); ensure!(x == y || y != Some(vals[i]), "push_ne_bulk", "get({i}): push {x:?} bulk {y:?}"); } c.ev(len as u64); }
            Ok(())
        });
    } }
}

// ---------------------------------------------------------------------------------------------------------------------
// UintVecMin0 / ZipIntVec
// ---------------------------------------------------------------------------------------------------------------------
const UV_LENS: &[usize] = &[0, 1, 2, 3, 7, 8, 9, 15, 16, 17, 31, 32, 33, 63, 64, 65, 127, 128, 129, 255, 256, 257, 1000, 1024];
fn uv_len(r: &mut Rng) -> usize { match r.below(3) { 0 => *r.pick(UV_LENS), 1 => r.usize_below(80), _ => r.usize_below(1200) } }
/// value with exactly w significant bits (w=0 -> 0)
fn exact_bits(r: &mut Rng, w: u32) -> u64 { if w == 0 { 0 } else { let top = 1u64 << (w - 1); top | (r.next() & (top - 1)) } }
/// usize sequences: offsets of a chosen width on top of a base (base may sit right below usize::MAX)
fn gen_usize_vals(c: &mut Case, kind: u32, len: usize, max_w: u32) -> Vec<u64> {
    let w = match c.rng.below(4) { 0 => max_w, 1 => c.rng.below(max_w as u64 + 1) as u32, 2 => *c.rng.pick(&[1u32, 7, 8, 9, 31, 32, 33, 56, 57, 58]).min(&max_w), _ => 1 + c.rng.below(20) as u32 };
    let m = mask_of(w); let off = gen_vals(&mut c.rng, kind, len, m, w.max(2));
    if kind == 0 && c.rng.chance(1, 3) { c.input_str("const", "usize::MAX"); return vec![u64::MAX; len]; }
    let base = match c.rng.below(4) { 0 => 0, 1 => u64::MAX - m, 2 => (u64::MAX - m).saturating_sub(c.rng.below(m.max(1))).saturating_add(c.rng.below(4)).min(u64::MAX - m), _ => c.rng.below(u64::MAX - m) };
    c.input_str("w", &w.to_string()); c.input_str("base", &base.to_string());
    off.iter().map(|&x| base + (x & m)).collect()
}
/// all reads that UintVecMin0 offers for an in-range vector whose width is within the documented fast-path limit
fn min0_check(c: &mut Case, v: &UintVecMin0, want: &[u64], what: &str) -> Res {
    let n = want.len();
    ensure!(v.size() == n, "len", "{what}: size()={} want {n}", v.size());
    ensure!(v.is_empty() == (n == 0), "len", "{what}: is_empty");
    let mut cur = 0usize;
    let res = catch(|| { for i in 0..n { cur = i; let g = v.get(i) as u64; if g != want[i] { return Err(format!("get({i})={g}")); }
            if i + 1 < n { let g2 = v.get2(i); if g2[0] as u64 != want[i] || g2[1] as u64 != want[i + 1] { return Err(format!("get2({i})={g2:?}")); } }
            match UintVecMin0::fast_get(v.data(), v.uintbits(), v.uintmask(), i) { Ok(x) if x as u64 == want[i] => {}, other => return Err(format!("fast_get({i})={other:?}")) } }
        if n > 0 && v.back() as u64 != want[n - 1] { return Err(format!("back()={}", v.back())); } Ok(()) });
    match res { Ok(Ok(())) => {}, Ok(Err(d)) => return Err(bad("value_mismatch", format!("{what} n={n} bits={}: {d} want {} (next {:?})", v.uintbits(), want[cur], want.get(cur + 1)))),
        Err(p) => return Err(bad("get_panic", format!("{what} n={n} bits={}: read at {cur} panicked at {}: {}", v.uintbits(), p.loc, p.msg))) }
    c.ev(3 * n as u64);
    // no error channel: a refusal is the entry assertion; never a value
    for k in [n, n + 1, usize::MAX / 2] { if let Ok(x) = catch(|| v.get(k)) { return Err(bad("oob_value", format!("{what}: get({k}) with size {n} returned {x}"))); } }
    if n > 0 { if let Ok(x) = catch(|| v.get2(n - 1)) { return Err(bad("oob_value", format!("{what}: get2({}) with size {n} returned {x:?}", n - 1))); } }
    Ok(())
}
fn run_min0(ctx: &mut Ctx) {
    let per = ctx.n(200, 5000) as u64;
    for idx in 0..per {
        ctx.case("uvmin0/new_set", "bits", idx, |c| {
            let w = if c.rng.chance(1, 8) { 59 + c.rng.below(6) as u32 } else { c.rng.below(59) as u32 };
            let n = uv_len(&mut c.rng); let max_val = exact_bits(&mut c.rng, w);
            c.input_str("w", &w.to_string()); c.input_str("n", &n.to_string()); c.input_str("max_val", &max_val.to_string());
            if w > 58 { // beyond the documented limit: only confirm that no wrong value comes back
                let r = catch(|| { let mut v = UintVecMin0::new(n.max(1), max_val as usize); v.set(0, max_val as usize); v.get(0) });
                return match r { Err(_) => { c.note("refused_gt58", 1); Ok(()) } Ok(x) if x as u64 == max_val => { c.note("gt58_correct", 1); Ok(()) } Ok(x) => Err(bad("value_mismatch", format!("bits={w}: stored {max_val} read {x}"))) }; }
            let mut v = catch(|| UintVecMin0::new(n, max_val as usize)).map_err(|p| bad(&p.class(), format!("new({n},{max_val}) panicked at {}: {}", p.loc, p.msg)))?;
            ensure!(v.uintbits() == w as usize, "width", "uintbits()={} want {w}", v.uintbits());
            let m = mask_of(w) * (w > 0) as u64; let mut shadow = vec![0u64; n]; let mut order: Vec<usize> = (0..n).collect(); c.rng.shuffle(&mut order);
            let extra = n; for k in 0..n + extra { let i = if k < n { order[k] } else { c.rng.usize_below(n) };
                let x = match c.rng.below(6) { 0 => 0, 1 => m, 2 => max_val, _ => c.rng.next() & m };
                catch(|| v.set(i, x as usize)).map_err(|p| bad(&p.class(), format!("set({i},{x}) bits={w} panicked at {}: {}", p.loc, p.msg)))?; shadow[i] = x; }
            c.set_nontrivial(n >= 2 && w >= 1);
            min0_check(c, &v, &shadow, "new_set")?;
            if c.rng.bool() { v.shrink_to_fit(); min0_check(c, &v, &shadow, "shrink_to_fit")?; }
            Ok(())
        });
        ctx.case("uvmin0/push_back", "grow", idx, |c| {
            let n = uv_len(&mut c.rng).min(600); let mode = c.rng.below(4);
            let wmax = if c.rng.chance(1, 10) { 59 + c.rng.below(6) as u32 } else { 1 + c.rng.below(58) as u32 };
            let vals: Vec<u64> = (0..n).map(|i| match mode { 0 => c.rng.next() & mask_of(wmax), 1 => exact_bits(&mut c.rng, (i as u32 * wmax / n.max(1) as u32).min(wmax)), 2 => if c.rng.chance(1, 20) { exact_bits(&mut c.rng, wmax) } else { c.rng.below(4) }, _ => if i == 0 { exact_bits(&mut c.rng, wmax) } else { c.rng.next() & mask_of(wmax) } }).collect();
            c.input("vals_u64_le", &le_bytes(&vals));
            let need = vals.iter().map(|&x| ubits(x)).max().unwrap_or(0);
            let built = catch(|| { let mut v = UintVecMin0::new_empty(); for &x in &vals { v.push_back(x as usize); } v });
            if need > 58 { return match built { Err(_) => { c.note("refused_gt58", 1); Ok(()) } Ok(v) => match catch(|| (0..n).map(|i| v.get(i) as u64).collect::<Vec<u64>>()) { Err(_) => { c.note("refused_gt58", 1); Ok(()) } Ok(g) if g == vals => Ok(()), Ok(_) => Err(bad("value_mismatch", format!("push_back beyond 58 bits returned wrong values"))) } }; }
            let v = built.map_err(|p| bad(&p.class(), format!("push_back sequence (n={n}, need {need} bits) panicked at {}: {}", p.loc, p.msg)))?;
            c.set_nontrivial(n >= 2); c.note(&format!("bits:{}", v.uintbits()), 1);
            min0_check(c, &v, &vals, "push_back")
        });
    }
    // incremental construction with the whole mutating API in between: push_back / set / resize (truncate and grow) / clear /
    // shrink_to_fit against a Vec<Option<u64>> model (None = element exposed by a growing resize and never written: unspecified).
    // The object is reused after truncation, which is where stale bits behind `size` can leak into later pushes.
    for idx in 0..ctx.n(120, 3000) as u64 { for zip in [false, true] {
        ctx.case(if zip { "zipint/history" } else { "uvmin0/history" }, "ops", idx, |c| {
            let wcap = if c.rng.chance(1, 3) { 8 } else { 57 }; let wmax = 1 + c.rng.below(wcap) as u32; let min = if zip { match c.rng.below(3) { 0 => 0u64, 1 => c.rng.below(1000), _ => c.rng.next() >> 8 } } else { 0 };
            let mut model: Vec<Option<u64>> = Vec::new(); let nops = 20 + c.rng.usize_below(120); let mut trace = String::new();
            let mut v = UintVecMin0::new_empty(); let mut z = ZipIntVec::new_empty();
            if zip { let span = mask_of(wmax).max(1); z = catch(|| ZipIntVec::new(0, min as usize, (min + span) as usize)).map_err(|p| bad(&p.class(), format!("ZipIntVec::new(0,{min},{}) panicked at {}: {}", min + span, p.loc, p.msg)))?; }
            c.input_str("wmax", &wmax.to_string()); c.input_str("min", &min.to_string());
            for step in 0..nops {
                let curmask = if zip { z.uintmask() as u64 } else { v.uintmask() as u64 }; let n = model.len();
                let roll = c.rng.below(100);
                let what;
                if roll < 50 || n == 0 { // push: mostly within the current width (fast path), sometimes wider (rebuild)
                    let x = match c.rng.below(8) { 0 => exact_bits(&mut c.rng, wmax), 1 => curmask, 2 => 0, 3 => 1, _ => c.rng.next() & curmask.max(1) } & mask_of(wmax);
                    what = format!("push_back({x})"); let r = if zip { catch(|| z.push_back((min + x) as usize)) } else { catch(|| v.push_back(x as usize)) };
                    r.map_err(|p| bad(&p.class(), format!("op#{step} {what} panicked at {}: {} [{trace}]", p.loc, p.msg)))?; model.push(Some(x));
                } else if roll < 62 { let i = c.rng.usize_below(n); let x = c.rng.next() & curmask; what = format!("set({i},{x})");
                    let r = if zip { catch(|| z.set(i, (min + x) as usize)) } else { catch(|| v.set(i, x as usize)) };
                    r.map_err(|p| bad(&p.class(), format!("op#{step} {what} panicked at {}: {} [{trace}]", p.loc, p.msg)))?; model[i] = Some(x);
                } else if roll < 82 { let k = match c.rng.below(4) { 0 => 0, 1 => n.saturating_sub(1 + c.rng.usize_below(3)), 2 => c.rng.usize_below(n + 1), _ => n + c.rng.usize_below(4) }; what = format!("resize({k})");
                    let r = if zip { catch(|| z.resize(k)) } else { catch(|| v.resize(k)) };
                    r.map_err(|p| bad(&p.class(), format!("op#{step} {what} panicked at {}: {} [{trace}]", p.loc, p.msg)))?; model.resize(k, None);
                } else if roll < 90 { what = "shrink_to_fit".to_string(); if zip { z.shrink_to_fit() } else { v.shrink_to_fit() }
                } else if roll < 93 && !zip { what = "clear".to_string(); v.clear(); model.clear();
                } else { what = "read".to_string(); }
                if trace.len() < 1500 { trace.push_str(&what); trace.push(' '); }
                let (size, bits) = if zip { (z.size(), z.uintbits()) } else { (v.size(), v.uintbits()) };
                ensure!(size == model.len(), "len", "op#{step} {what}: size()={size} want {} [{trace}]", model.len());
                let got = catch(|| (0..size).map(|i| if zip { z.get(i) as u64 - min } else { v.get(i) as u64 }).collect::<Vec<u64>>()).map_err(|p| bad("get_panic", format!("op#{step} {what}: read panicked at {}: {} [{trace}]", p.loc, p.msg)))?;
                for i in 0..size { if let Some(w) = model[i] { ensure!(got[i] == w, "value_mismatch", "after op#{step} {what}: get({i})={} want {w} (bits={bits}, size={size}) [{trace}]", got[i]); } }
                c.ev(size as u64);
            }
            c.input_str("ops", &trace); c.set_nontrivial(nops >= 2);
            Ok(())
        });
    } }
    let per = ctx.n(8, 200) as u64;
    for kind in 0..NKINDS { for idx in 0..per {
        ctx.case("uvmin0/build_usize", kind_name(kind), idx, |c| {
            let n = uv_len(&mut c.rng); let mw = if c.rng.chance(1, 8) { 64 } else { 58 }; let vals = gen_usize_vals(c, kind, n, mw); c.input("vals_u64_le", &le_bytes(&vals));
            let us: Vec<usize> = vals.iter().map(|&x| x as usize).collect();
            let (mn, mx) = (vals.iter().min().copied().unwrap_or(0), vals.iter().max().copied().unwrap_or(0)); let need = ubits(mx - mn);
            let r = catch(|| UintVecMin0::build_from_usize(&us));
            if need > 58 { return match r { Err(_) => { c.note("refused_gt58", 1); Ok(()) } Ok((v, m)) => match catch(|| (0..n).map(|i| (v.get(i) + m) as u64).collect::<Vec<u64>>()) { Err(_) => { c.note("refused_gt58", 1); Ok(()) } Ok(g) if g == vals => Ok(()), Ok(_) => Err(bad("value_mismatch", "beyond 58 bits: wrong values".to_string())) } }; }
            let (v, m) = r.map_err(|p| bad(&p.class(), format!("build_from_usize n={n} need {need} bits panicked at {}: {}", p.loc, p.msg)))?;
            ensure!(n == 0 || m as u64 == mn, "min", "returned min {m} want {mn}"); c.set_nontrivial(n >= 2); c.note(&format!("bits:{}", v.uintbits()), 1);
            let want: Vec<u64> = vals.iter().map(|&x| x - mn).collect(); min0_check(c, &v, &want, "build_from_usize")
        });
        ctx.case("uvmin0/build_u32", kind_name(kind), idx, |c| {
            let n = uv_len(&mut c.rng); let vals: Vec<u32> = gen_vals(&mut c.rng, kind, n, u32::MAX as u64, 32).iter().map(|&x| x as u32).collect();
            c.input("vals_u32_le", &vals.iter().flat_map(|x| x.to_le_bytes()).collect::<Vec<u8>>());
            let mn = vals.iter().min().copied().unwrap_or(0);
            let (v, m) = catch(|| UintVecMin0::build_from_u32(&vals)).map_err(|p| bad(&p.class(), format!("build_from_u32 n={n} panicked at {}: {}", p.loc, p.msg)))?;
            ensure!(n == 0 || m == mn, "min", "returned min {m} want {mn}"); c.set_nontrivial(n >= 2); c.note(&format!("bits:{}", v.uintbits()), 1);
            let want: Vec<u64> = vals.iter().map(|&x| (x - mn) as u64).collect(); min0_check(c, &v, &want, "build_from_u32")
        });
        ctx.case("uvmin0/build_i32", kind_name(kind), idx, |c| {
            let n = uv_len(&mut c.rng); let vals: Vec<i32> = gen_vals(&mut c.rng, kind, n, u32::MAX as u64, 32).iter().map(|&x| x as u32 as i32).collect();
            c.input("vals_i32_le", &vals.iter().flat_map(|x| x.to_le_bytes()).collect::<Vec<u8>>());
            let (mn, mx) = (vals.iter().min().copied().unwrap_or(0), vals.iter().max().copied().unwrap_or(0));
            if (mx as i64 - mn as i64) > i32::MAX as i64 { c.tag("i32_range_exceeds_i32_max"); }
            let (v, m) = catch(|| UintVecMin0::build_from_i32(&vals)).map_err(|p| bad(&p.class(), format!("build_from_i32 n={n} min={mn} max={mx} panicked at {}: {}", p.loc, p.msg)))?;
            ensure!(n == 0 || m == mn, "min", "returned min {m} want {mn}"); c.set_nontrivial(n >= 2); c.note(&format!("bits:{}", v.uintbits()), 1);
            let want: Vec<u64> = vals.iter().map(|&x| (x as i64 - mn as i64) as u64).collect(); min0_check(c, &v, &want, "build_from_i32")
        });
    } }
}

fn zip_check(c: &mut Case, z: &ZipIntVec, want: &[u64], what: &str) -> Res {
    let n = want.len();
    ensure!(z.size() == n, "len", "{what}: size()={} want {n}", z.size());
    let mut cur = 0usize;
    let res = catch(|| { for i in 0..n { cur = i; let g = z.get(i) as u64; if g != want[i] { return Err(format!("get({i})={g}")); }
            if i + 1 < n { let g2 = z.get2(i); if g2[0] as u64 != want[i] || g2[1] as u64 != want[i + 1] { return Err(format!("get2({i})={g2:?}")); } }
            match ZipIntVec::fast_get(z.data(), z.uintbits(), z.uintmask(), z.min_val(), i) { Ok(x) if x as u64 == want[i] => {}, other => return Err(format!("fast_get({i})={other:?}")) } }
        if n > 0 && z.back() as u64 != want[n - 1] { return Err(format!("back()={}", z.back())); } Ok(()) });
    match res { Ok(Ok(())) => {}, Ok(Err(d)) => return Err(bad("value_mismatch", format!("{what} n={n} bits={} min={}: {d} want {}", z.uintbits(), z.min_val(), want[cur]))),
        Err(p) => return Err(bad("get_panic", format!("{what} n={n} bits={} min={}: read at {cur} panicked at {}: {}", z.uintbits(), z.min_val(), p.loc, p.msg))) }
    c.ev(3 * n as u64);
    for k in [n, n + 1, usize::MAX / 2] { if let Ok(x) = catch(|| z.get(k)) { return Err(bad("oob_value", format!("{what}: get({k}) with size {n} returned {x}"))); } }
    if n > 0 { if let Ok(x) = catch(|| z.get2(n - 1)) { return Err(bad("oob_value", format!("{what}: get2({}) with size {n} returned {x:?}", n - 1))); } }
    Ok(())
}
fn run_zip(ctx: &mut Ctx) {
    let per = ctx.n(8, 200) as u64;
    for kind in 0..NKINDS { for idx in 0..per {
        ctx.case("zipintvec/build_usize", kind_name(kind), idx, |c| {
            let n = uv_len(&mut c.rng); let mw = if c.rng.chance(1, 8) { 64 } else { 58 }; let vals = gen_usize_vals(c, kind, n, mw); c.input("vals_u64_le", &le_bytes(&vals));
            let us: Vec<usize> = vals.iter().map(|&x| x as usize).collect();
            let (mn, mx) = (vals.iter().min().copied().unwrap_or(0), vals.iter().max().copied().unwrap_or(0)); let need = ubits(mx - mn);
            if n > 0 && mn == mx && mn == u64::MAX { c.tag("constant_at_type_max"); }
            else if n > 0 && mn.checked_add(mask_of(need.max(1) as u32)).is_none() { c.tag("min_plus_mask_overflows"); }
            let r = catch(|| ZipIntVec::build_from_usize(&us));
            if need > 58 { return match r { Err(_) => { c.note("refused_gt58", 1); Ok(()) } Ok(z) => match catch(|| (0..n).map(|i| z.get(i) as u64).collect::<Vec<u64>>()) { Err(_) => { c.note("refused_gt58", 1); Ok(()) } Ok(g) if g == vals => Ok(()), Ok(_) => Err(bad("value_mismatch", "beyond 58 bits: wrong values".to_string())) } }; }
            let z = r.map_err(|p| bad(&p.class(), format!("build_from_usize n={n} min={mn} max={mx} ({need} bits) panicked at {}: {}", p.loc, p.msg)))?;
            c.set_nontrivial(n >= 2); c.note(&format!("bits:{}", z.uintbits()), 1);
            zip_check(c, &z, &vals, "build_from_usize")
        });
        ctx.case("zipintvec/build_u32", kind_name(kind), idx, |c| {
            let n = uv_len(&mut c.rng); let mut vals: Vec<u32> = gen_vals(&mut c.rng, kind, n, u32::MAX as u64, 32).iter().map(|&x| x as u32).collect();
            if kind == 0 && c.rng.chance(1, 3) { vals = vec![u32::MAX; n]; }
            c.input("vals_u32_le", &vals.iter().flat_map(|x| x.to_le_bytes()).collect::<Vec<u8>>());
            if n > 0 && vals.iter().all(|&x| x == u32::MAX) { c.tag("constant_at_type_max"); }
            let z = catch(|| ZipIntVec::build_from_u32(&vals)).map_err(|p| bad(&p.class(), format!("build_from_u32 n={n} first={:?} panicked at {}: {}", vals.first(), p.loc, p.msg)))?;
            c.set_nontrivial(n >= 2); c.note(&format!("bits:{}", z.uintbits()), 1);
            let want: Vec<u64> = vals.iter().map(|&x| x as u64).collect(); zip_check(c, &z, &want, "build_from_u32")
        });
    } }
    let per = ctx.n(150, 4000) as u64;
    for idx in 0..per {
        ctx.case("zipintvec/new_set", "range", idx, |c| {
            let w = 1 + c.rng.below(58) as u32; let n = uv_len(&mut c.rng); let span = exact_bits(&mut c.rng, w); let m = mask_of(w);
            let min = match c.rng.below(4) { 0 => 0, 1 => u64::MAX - span, 2 => c.rng.below(u64::MAX - m), _ => (u64::MAX - m) + c.rng.below(m - span + 1) };
            c.input_str("w", &w.to_string()); c.input_str("n", &n.to_string()); c.input_str("min", &min.to_string()); c.input_str("span", &span.to_string());
            if n > 0 && min.checked_add(m).is_none() { c.tag("min_plus_mask_overflows"); }
            let mut z = catch(|| ZipIntVec::new(n, min as usize, (min + span) as usize)).map_err(|p| bad(&p.class(), format!("new({n},{min},{}) panicked at {}: {}", min + span, p.loc, p.msg)))?;
            let mut shadow = vec![min; n]; let mut order: Vec<usize> = (0..n).collect(); c.rng.shuffle(&mut order);
            for k in 0..2 * n { let i = if k < n { order[k] } else { c.rng.usize_below(n) }; let x = min + match c.rng.below(4) { 0 => 0, 1 => span, _ => c.rng.below(span + 1) };
                catch(|| z.set(i, x as usize)).map_err(|p| bad(&p.class(), format!("set({i},{x}) with range [{min},{}] panicked at {}: {}", min + span, p.loc, p.msg)))?; shadow[i] = x; }
            c.set_nontrivial(n >= 2); zip_check(c, &z, &shadow, "new_set")
        });
        ctx.case("zipintvec/push_back", "grow", idx, |c| {
            let n = uv_len(&mut c.rng).min(600); let wmax = 1 + c.rng.below(58) as u32; let from_range = c.rng.bool();
            let min = if from_range { c.rng.below(1u64 << 40) } else { 0 };
            let vals: Vec<u64> = (0..n).map(|i| min + if c.rng.bool() { c.rng.next() & mask_of(wmax) } else { exact_bits(&mut c.rng, (i as u32 * wmax / n.max(1) as u32).min(wmax)) }).collect();
            c.input_str("min", &min.to_string()); c.input("vals_u64_le", &le_bytes(&vals));
            let z = catch(|| { let mut z = if from_range { ZipIntVec::new(0, min as usize, (min + 1) as usize) } else { ZipIntVec::new_empty() }; for &x in &vals { z.push_back(x as usize); } z })
                .map_err(|p| bad(&p.class(), format!("push_back sequence n={n} panicked at {}: {}", p.loc, p.msg)))?;
            c.set_nontrivial(n >= 2); c.note(&format!("bits:{}", z.uintbits()), 1);
            zip_check(c, &z, &vals, "push_back")
        });
    }
}

// ---------------------------------------------------------------------------------------------------------------------
// SortedUintVec
// ---------------------------------------------------------------------------------------------------------------------
const SUV_KINDS: &[&str] = &["dense", "span_exact", "random_fit", "sample_boundary", "huge", "overflow_delta", "constant"];
/// sorted values; every in-block delta fits offset_width unless kind == overflow_delta
fn gen_suv(r: &mut Rng, cfg: &SortedUintVecConfig, kind: usize, n: usize) -> Vec<u64> {
    let bs = 1usize << cfg.log2_block_units; let om = mask_of(cfg.offset_width as u32) as u128; let sm = mask_of(cfg.sample_width as u32);
    let nb = (n + bs - 1) / bs; let mut v: Vec<u128> = Vec::with_capacity(n);
    // computed in u128; a sequence that runs past u64::MAX is shifted down so that it ends exactly there
    let mut base: u128 = match kind { 3 => (sm as u128).saturating_sub(r.below(((nb as u64 + 1) * (om as u64 + 1)).max(1)) as u128), 4 => u64::MAX as u128, 6 => (r.next() >> r.below(64)) as u128, _ => if r.bool() { r.below(1000) as u128 } else { r.below(sm.min(1 << 40)) as u128 } };
    for b in 0..nb {
        let cnt = bs.min(n - b * bs);
        let mut offs: Vec<u128> = match kind { 0 => { let mut cur = 0u128; (0..cnt).map(|_| { cur = (cur + r.below(3) as u128).min(om); cur }).collect() }
            1 => { let mut o: Vec<u128> = (0..cnt).map(|_| r.below(om as u64 + 1) as u128).collect(); o.sort(); if cnt > 1 { o[cnt - 1] = om; } o }
            6 => vec![0; cnt],
            _ => { let lim = if r.chance(1, 3) { om as u64 } else { r.below(om as u64 + 1) }; let mut o: Vec<u128> = (0..cnt).map(|_| r.below(lim + 1) as u128).collect(); o.sort(); o } };
        if kind == 1 || r.bool() { offs[0] = 0; }
        for &o in &offs { v.push(base + o); }
        let last = base + offs[cnt - 1];
        base = match kind { 6 => base, 0 => last + r.below(3) as u128, _ => last + if r.chance(1, 4) { 0 } else { r.below(4 * (om as u64 + 1)) as u128 } };
    }
    if kind == 5 && n >= 2 { // push one in-block delta to >= 2^offset_width
        let b = r.usize_below(nb); let lo = b * bs; let cnt = bs.min(n - lo); if cnt >= 2 { let at = lo + 1 + r.usize_below(cnt - 1); let need = (om + 1 + if r.bool() { 0 } else { r.below(1000) as u128 }).saturating_sub(v[at] - v[lo]); for x in v[at..].iter_mut() { *x += need; } } }
    let over = v.last().map_or(0, |&x| x.saturating_sub(u64::MAX as u128)); let over = over.min(v.first().copied().unwrap_or(0));
    v.iter().map(|&x| (x - over).min(u64::MAX as u128) as u64).collect()
}
fn suv_case(c: &mut Case, cfg: SortedUintVecConfig, kind: usize) -> Res {
    let bs = 1usize << cfg.log2_block_units;
    let n = match c.rng.below(4) { 0 => *c.rng.pick(&[0usize, 1, 2, bs - 1, bs, bs + 1, 2 * bs - 1, 2 * bs, 2 * bs + 1, 8 * bs, 8 * bs + 3]), 1 => c.rng.usize_below(3 * bs + 2), _ => c.rng.usize_below(2500) };
    let vals = gen_suv(&mut c.rng, &cfg, kind, n);
    suv_check(c, cfg, SUV_KINDS[kind], &vals)
}
/// build a SortedUintVec from `vals` (sorted) and run every read the container offers against the input
fn suv_check(c: &mut Case, cfg: SortedUintVecConfig, kind_name: &str, vals: &[u64]) -> Res {
    let bs = 1usize << cfg.log2_block_units; let n = vals.len();
    c.input_str("cfg", &format!("{cfg:?}")); c.input_str("kind", kind_name); c.input("vals_u64_le", &le_bytes(vals));
    let nb = (n + bs - 1) / bs;
    if cfg.sample_width < 64 && (0..nb).any(|b| vals[b * bs] > mask_of(cfg.sample_width as u32)) { c.tag("block_base_exceeds_sample_width"); }
    if (58..64).contains(&cfg.sample_width) && (0..nb).any(|b| (b * cfg.sample_width as usize) % 8 + cfg.sample_width as usize > 64) { c.tag("sample_width_straddles_8_bytes"); }
    let fits = (0..n).all(|i| vals[i] - vals[i / bs * bs] <= mask_of(cfg.offset_width as u32));
    let use_extend = c.rng.bool();
    let built = catch(|| -> zipora::Result<SortedUintVec> { let mut b = SortedUintVecBuilder::with_config(cfg); if use_extend { b.extend(vals.iter().copied())?; } else { for &x in vals { b.push(x)?; } } b.finish() });
    let sv = match built { Ok(Ok(v)) => v,
        Ok(Err(e)) => { if fits { c.note("ctor_err_fitting_input", 1); } else { c.note("ctor_err_delta_overflow", 1); } c.log(format!("ctor err {e}")); c.set_nontrivial(false); return Ok(()); }
        Err(p) => return Err(bad(&p.class(), format!("builder n={n} cfg={cfg:?} panicked at {}: {}", p.loc, p.msg))) };
    c.set_nontrivial(n >= 2); c.note("blocks", nb as u64);
    ensure!(sv.len() == n, "len", "len()={} want {n}", sv.len());
    ensure!(sv.num_blocks() == nb, "len", "num_blocks()={} want {nb}", sv.num_blocks());
    let mut cur = 0usize;
    let res = catch(|| { for i in 0..n { cur = i; match sv.get(i) { Ok(x) if x == vals[i] => {}, other => return Err(format!("get({i})={other:?}")) }
            if i + 1 < n { match sv.get2(i) { Ok((a, b)) if a == vals[i] && b == vals[i + 1] => {}, other => return Err(format!("get2({i})={other:?}")) } } } Ok(()) });
    match res { Ok(Ok(())) => {}, Ok(Err(d)) => return Err(bad("value_mismatch", format!("n={n} cfg={cfg:?}: {d} want {} (block base {})", vals[cur], vals[cur / bs * bs]))),
        Err(p) => return Err(bad("get_panic", format!("n={n} cfg={cfg:?}: read at {cur} panicked at {}: {}", p.loc, p.msg))) }
    c.ev(2 * n as u64);
    let extra = c.rng.usize_below(3); let mut out = vec![0xDEAD_BEEFu64; bs + extra];
    for b in 0..nb { let r = catch(|| sv.get_block(b, &mut out)).map_err(|p| bad("get_panic", format!("get_block({b}) panicked at {}: {}", p.loc, p.msg)))?;
        ensure!(r.is_ok(), "get_block_err", "get_block({b}) of {nb}: {r:?}"); let cnt = bs.min(n - b * bs);
        for j in 0..cnt { ensure!(out[j] == vals[b * bs + j], "get_block_mismatch", "get_block({b})[{j}]={} want {} (n={n} cfg={cfg:?})", out[j], vals[b * bs + j]); } c.ev(cnt as u64); }
    // refusals
    for k in [n, n + 1, n + bs, usize::MAX - 1, usize::MAX] { let g = catch(|| sv.get(k)).map_err(|p| bad("oob_panic", format!("get({k}) len {n}: {} {}", p.loc, p.msg)))?; ensure!(g.is_err(), "oob_value", "get({k}) with len {n} returned {g:?}"); }
    for k in [n.saturating_sub(1), n, n + bs] { let g = catch(|| sv.get2(k)).map_err(|p| bad("oob_panic", format!("get2({k}) len {n}: {} {}", p.loc, p.msg)))?; ensure!(g.is_err(), "oob_value", "get2({k}) with len {n} returned {g:?}"); }
    for b in [nb, nb + 1, usize::MAX >> cfg.log2_block_units] { let g = catch(|| sv.get_block(b, &mut out)).map_err(|p| bad("oob_panic", format!("get_block({b}) of {nb}: {} {}", p.loc, p.msg)))?; ensure!(g.is_err(), "oob_value", "get_block({b}) with {nb} blocks returned Ok"); }
    if nb > 0 { let mut small = vec![0u64; bs - 1]; let g = catch(|| sv.get_block(0, &mut small)).map_err(|p| bad("oob_panic", format!("get_block short buffer: {} {}", p.loc, p.msg)))?; ensure!(g.is_err(), "oob_value", "get_block into a {}-element buffer accepted", bs - 1); }
    Ok(())
}
fn run_suv(ctx: &mut Ctx) {
    let per = ctx.n(16, 400) as u64;
    let presets: [(&str, SortedUintVecConfig); 3] = [("suv/default", SortedUintVecConfig::default()), ("suv/performance", SortedUintVecConfig::performance_optimized()), ("suv/memory", SortedUintVecConfig::memory_optimized())];
    for kind in 0..SUV_KINDS.len() { for idx in 0..per {
        for (t, cfg) in presets.iter() { ctx.case(t, SUV_KINDS[kind], idx, |c| suv_case(c, *cfg, kind)); }
        for log2 in 4u8..=8 { ctx.case(&format!("suv/log2_{log2}"), SUV_KINDS[kind], idx, |c| {
            let sw = match c.rng.below(4) { 0 => *c.rng.pick(&[16u8, 24, 32, 40, 48, 56, 64]), 1 => 58 + c.rng.below(7) as u8, _ => 16 + c.rng.below(49) as u8 };
            let cfg = SortedUintVecConfig { log2_block_units: log2, offset_width: if c.rng.chance(1, 3) { *c.rng.pick(&[8u8, 16, 31, 32]) } else { 8 + c.rng.below(25) as u8 }, sample_width: sw, use_simd: c.rng.bool() };
            suv_case(c, cfg, kind) }); }
    } }
}

// ---------------------------------------------------------------------------------------------------------------------
// reads at usize::MAX through the two-element accessors (kept apart: `idx + 1` is computed before the bounds test)
// ---------------------------------------------------------------------------------------------------------------------
fn run_oob_extreme(ctx: &mut Ctx) {
    for idx in 0..ctx.n(6, 40) as u64 {
        ctx.case("suv/default", "oob_extreme", idx, |c| { let n = 1 + c.rng.usize_below(200); c.input_str("n", &n.to_string()); c.set_nontrivial(true);
            let mut b = SortedUintVecBuilder::new(); for i in 0..n { b.push(i as u64 * 3).map_err(|e| bad("ctor_err", format!("{e}")))?; } let sv = b.finish().map_err(|e| bad("ctor_err", format!("{e}")))?;
            c.tag("get2_index_plus_one_overflows"); let g = catch(|| sv.get2(usize::MAX)).map_err(|p| bad("oob_panic", format!("get2(usize::MAX) with len {n} (API returns Result): panic at {}: {}", p.loc, p.msg)))?; c.ev(1);
            ensure!(g.is_err(), "oob_value", "get2(usize::MAX) returned {g:?}"); Ok(()) });
        ctx.case("uvmin0/new_set", "oob_extreme", idx, |c| { let n = 1 + c.rng.usize_below(200); let w = 1 + c.rng.below(58) as u32; c.input_str("n", &n.to_string()); c.input_str("w", &w.to_string()); c.set_nontrivial(true); c.tag("get2_index_plus_one_overflows");
            let v = UintVecMin0::new(n, mask_of(w) as usize);
            for k in [usize::MAX, usize::MAX - 1] { if let Ok(x) = catch(|| v.get2(k)) { return Err(bad("oob_value", format!("get2({k}) with size {n} returned {x:?}"))); } if let Ok(x) = catch(|| v.get(k)) { return Err(bad("oob_value", format!("get({k}) with size {n} returned {x}"))); } c.ev(2); }
            Ok(()) });
        ctx.case("zipintvec/new_set", "oob_extreme", idx, |c| { let n = 1 + c.rng.usize_below(200); let w = 1 + c.rng.below(58) as u32; c.input_str("n", &n.to_string()); c.input_str("w", &w.to_string()); c.set_nontrivial(true); c.tag("get2_index_plus_one_overflows");
            let z = ZipIntVec::new(n, 5, 5 + mask_of(w) as usize);
            for k in [usize::MAX, usize::MAX - 1] { if let Ok(x) = catch(|| z.get2(k)) { return Err(bad("oob_value", format!("get2({k}) with size {n} returned {x:?}"))); } if let Ok(x) = catch(|| z.get(k)) { return Err(bad("oob_value", format!("get({k}) with size {n} returned {x}"))); } c.ev(2); }
            Ok(()) });
    }
}

// ---------------------------------------------------------------------------------------------------------------------
// pinned minimal witnesses of the defects found on the unchanged tree (fixed inputs, same checks)
// ---------------------------------------------------------------------------------------------------------------------
fn run_witnesses(ctx: &mut Ctx) {
    let iv32 = |c: &mut Case, v: Vec<u32>| { c.input("vals_u32_le", &v.iter().flat_map(|x| x.to_le_bytes()).collect::<Vec<u8>>()); check_intvec::<u32>(c, Ctor::FromSlice, &v) };
    // sampled sorted-check (every 2nd element for len 32) sees 0,0,0..: delta strategy on unsorted data
    ctx.case("iv_u32/from_slice", "witness", 0, |c| iv32(c, (0..32).map(|i| i % 2).collect()));
    // sorted; the delta after the last sampled index (38 -> 1000) is wider than the sampled delta width
    ctx.case("iv_u32/from_slice", "witness", 1, |c| iv32(c, (0..39).chain([1000]).collect()));
    // 1001 unsorted values with a 17-bit range: small-dataset BlockBased{offset_width 8, sample_width 4}
    ctx.case("iv_u32/from_slice", "witness", 3, |c| iv32(c, (0..1001u32).map(|i| (i * 7919 % 1001) * 100).collect()));
    // > 10000 values clustered per 128-block, global minimum 1_000_000: BlockBased wins the estimate, the sample base is dropped
    ctx.case("iv_u32/from_slice", "witness", 4, |c| iv32(c, (0..10240u32).map(|i| 1_000_000 + ((i / 128) * 7919 % 80) * 50_000_000 + i % 128).collect()));
    // MinMax with 63-bit fields: element 1 starts at bit 7 of byte 7 and needs a ninth byte
    ctx.case("iv_u64/from_slice", "witness", 2, |c| { let v = vec![0u64, (1 << 63) - 1, 0, (1 << 63) - 1]; c.input("vals_u64_le", &le_bytes(&v)); check_intvec::<u64>(c, Ctor::FromSlice, &v) });
    // SIMD constructor, 128 one-bit fields = exactly 16 bytes: the last fields' 8-byte read-modify-write runs past the buffer (visible to ASan only)
    ctx.case("iv_u8/simd", "witness", 5, |c| { let v: Vec<u8> = (0..128).map(|i| (i * 7 % 3 == 0) as u8).collect(); c.input("vals_u8", &v); check_intvec::<u8>(c, Ctor::Simd, &v) });
    let suv = |c: &mut Case, cfg: SortedUintVecConfig, v: Vec<u64>| -> Res { c.input_str("cfg", &format!("{cfg:?}")); c.input("vals_u64_le", &le_bytes(&v)); c.set_nontrivial(true);
        let bs = 1usize << cfg.log2_block_units; let nb = (v.len() + bs - 1) / bs;
        if cfg.sample_width < 64 && (0..nb).any(|b| v[b * bs] > mask_of(cfg.sample_width as u32)) { c.tag("block_base_exceeds_sample_width"); }
        if (58..64).contains(&cfg.sample_width) && (0..nb).any(|b| (b * cfg.sample_width as usize) % 8 + cfg.sample_width as usize > 64) { c.tag("sample_width_straddles_8_bytes"); }
        let sv = match catch(|| -> zipora::Result<SortedUintVec> { let mut b = SortedUintVecBuilder::with_config(cfg); for &x in &v { b.push(x)?; } b.finish() }) { Ok(Ok(s)) => s, Ok(Err(_)) => { c.set_nontrivial(false); return Ok(()); }
            Err(p) => return Err(bad(&p.class(), format!("builder panicked at {}: {}", p.loc, p.msg))) };
        for (i, &x) in v.iter().enumerate() { let g = catch(|| sv.get(i)).map_err(|p| bad("get_panic", format!("get({i}): {} {}", p.loc, p.msg)))?; ensure!(matches!(g, Ok(y) if y == x), "value_mismatch", "get({i})={g:?} want {x}"); c.ev(1); } Ok(()) };
    // block base 2^32 does not fit the default 32-bit sample field and is stored masked
    ctx.case("suv/default", "witness", 0, |c| suv(c, SortedUintVecConfig::default(), vec![1u64 << 32]));
    // 63-bit samples: the second block's sample starts at bit 63 and spans nine bytes
    ctx.case("suv/log2_4", "witness", 1, |c| suv(c, SortedUintVecConfig { log2_block_units: 4, offset_width: 8, sample_width: 63, use_simd: false }, (0..17).collect()));
    ctx.case("uvmin0/build_i32", "witness", 0, |c| { let v = vec![i32::MIN, i32::MAX]; c.input_str("vals", "i32::MIN,i32::MAX"); c.tag("i32_range_exceeds_i32_max"); c.set_nontrivial(true);
        let (m0, mn) = catch(|| UintVecMin0::build_from_i32(&v)).map_err(|p| bad(&p.class(), format!("build_from_i32([i32::MIN, i32::MAX]) panicked at {}: {}", p.loc, p.msg)))?;
        min0_check(c, &m0, &[0, u32::MAX as u64], "build_from_i32")?; ensure!(mn == i32::MIN, "min", "min {mn}"); Ok(()) });
    let zip = |c: &mut Case, v: Vec<usize>, tag: &str| -> Res { c.input("vals_u64_le", &le_bytes(&v.iter().map(|&x| x as u64).collect::<Vec<u64>>())); c.tag(tag); c.set_nontrivial(true);
        let z = catch(|| ZipIntVec::build_from_usize(&v)).map_err(|p| bad(&p.class(), format!("build_from_usize({v:?}) panicked at {}: {}", p.loc, p.msg)))?;
        zip_check(c, &z, &v.iter().map(|&x| x as u64).collect::<Vec<u64>>(), "build_from_usize") };
    ctx.case("zipintvec/build_usize", "witness", 0, |c| zip(c, vec![usize::MAX - 2, usize::MAX], "min_plus_mask_overflows"));
    ctx.case("zipintvec/build_usize", "witness", 1, |c| zip(c, vec![usize::MAX; 4], "constant_at_type_max"));
    ctx.case("zipintvec/build_u32", "witness", 0, |c| { let v = vec![u32::MAX; 4]; c.input_str("vals", "u32::MAX x4"); c.tag("constant_at_type_max"); c.set_nontrivial(true);
        let z = catch(|| ZipIntVec::build_from_u32(&v)).map_err(|p| bad(&p.class(), format!("build_from_u32([u32::MAX; 4]) panicked at {}: {}", p.loc, p.msg)))?;
        zip_check(c, &z, &[u32::MAX as u64; 4], "build_from_u32") });
}

// ---------------------------------------------------------------------------------------------------------------------
// huge_* families: element counts above 2^16 / 10^5 / 2^20 that are not multiples of the block size, spikes in the trailing
// partial block, deltas exactly at the width limits, one dominant value, growth past several resize steps. Same oracle
// (the input slice); the O(i) delta reads and O(runs) RLE reads are sampled.
// ---------------------------------------------------------------------------------------------------------------------
const HUGE_LENS: &[usize] = &[65535, 65536, 65537, 65599, 100_001, 131071, 131072, 131073, 131074, 196609, 262145];
const HUGE_LENS_XL: &[usize] = &[1048575, 1048576, 1048577];
fn huge_len(r: &mut Rng, xl_one_in: u64) -> usize { if r.chance(1, xl_one_in) { *r.pick(HUGE_LENS_XL) } else { *r.pick(HUGE_LENS) } }
/// make n a non-multiple of `bs` (adds 1..bs-1 when it is one)
fn not_multiple(r: &mut Rng, n: usize, bs: usize) -> usize { if n % bs == 0 { n + 1 + r.usize_below(bs - 1) } else { n } }

const HUGE_IV: &[&str] = &["huge_block_tail_spike", "huge_dominant", "huge_const", "huge_sorted_delta_limit", "huge_arith", "huge_range_exact"];
fn gen_huge_iv(r: &mut Rng, fam: usize, n: usize, mask: u64, tbits: u32) -> Vec<u64> {
    match fam {
        0 => { // per-128-block clusters; a spike above every other in-block offset sits in the trailing partial block (n % 128 != 0)
            let ob = 1 + r.below((tbits as u64 - 3).min(10)) as u32; let om = mask_of(ob); let bs = 128usize; let nb = (n + bs - 1) / bs;
            let spike = (om + 1) << r.below(((tbits - ob - 1) as u64).min(4)); let sorted_bases = r.bool();
            let mut bases: Vec<u64> = (0..nb).map(|_| r.below(mask - spike - om)).collect(); if sorted_bases { bases.sort(); } if r.bool() { let z = r.usize_below(nb); bases[z] = 0; }
            let mut v: Vec<u64> = (0..n).map(|i| bases[i / bs] + r.below(om + 1)).collect();
            let tail0 = (nb - 1) * bs; let at = if r.bool() { n - 1 } else { tail0 + r.usize_below(n - tail0) };
            v[tail0] = bases[nb - 1]; if at == tail0 && n - tail0 > 1 { v[n - 1] = bases[nb - 1] + spike + r.below(om + 1); } else if at != tail0 { v[at] = bases[nb - 1] + spike + r.below(om + 1); }
            v }
        1 => { let d = r.next() & mask; let pct = 60 + r.below(40); (0..n).map(|_| if r.below(100) < pct { d } else { r.next() & mask }).collect() }
        2 => { let c = match r.below(4) { 0 => 0, 1 => mask, 2 => (mask >> 1) + 1, _ => r.next() & mask }; vec![c; n] }
        3 => { // sorted, tiny deltas; one delta exactly at a width limit placed at the very end (or within the last 100 elements)
            let d = (*r.pick(&[(1u64 << 16) - 1, 1 << 16, (1 << 16) + 1, (1 << 32) - 1, 1 << 32, (1 << 32) + 1, 255, 256])).min(mask / 2);
            let room = mask - d; let start = if r.bool() { 0 } else { r.below(room / 2 + 1) }; let at = if r.bool() { n - 1 } else { n - 1 - r.usize_below(100) };
            let mut cur = start; let mut v = Vec::with_capacity(n); let budget = (room - start).min(n as u64);
            for i in 0..n { if i == at { cur += d; } else if i > 0 && cur - start - if i > at { d } else { 0 } < budget && r.chance(budget, n as u64) { cur += 1; } v.push(cur); }
            v }
        4 => { let dmax = mask / n as u64; let d = (*r.pick(&[1u64, 2, 3, 255, 65536, u64::MAX])).min(dmax); let span = d * (n as u64 - 1); let base = match r.below(3) { 0 => 0, 1 => mask - span, _ => r.below(mask - span + 1) };
            (0..n).map(|i| base + d * i as u64).collect() }
        _ => { // range of exactly 2^k - 1 or 2^k; the extremes are the last two elements
            let k = (*r.pick(&[7u32, 8, 15, 16, 17, 31, 32, 33, 47, 48, 57, 58, 59, 61, 63])).min(tbits - 1); let span = if r.bool() { mask_of(k) } else { (1u64 << k).min(mask) };
            let min = if r.chance(1, 3) { 0 } else { r.below(mask - span + 1) };
            let mut v: Vec<u64> = (0..n).map(|_| min + if span == u64::MAX { r.next() } else { r.below(span + 1) }).collect(); v[n - 2] = min; v[n - 1] = min + span; v }
    }
}
fn run_huge_intvec<T: PackedInt>(ctx: &mut Ctx, tn: &str, tbits: u32) {
    let mask = mask_of(tbits);
    for (ctor, cn, fams, per) in [(Ctor::FromSlice, "from_slice", &[0usize, 1, 2, 3, 4, 5][..], ctx.n(3, 24)), (Ctor::Simd, "simd", &[0, 3][..], ctx.n(2, 8)), (Ctor::Bulk, "bulk", &[1, 5][..], ctx.n(2, 8))] {
        let target = format!("iv_{tn}/{cn}");
        for &fam in fams { for idx in 0..per as u64 {
            ctx.case(&target, HUGE_IV[fam], idx, |c| {
                let mut n = huge_len(&mut c.rng, if ctor == Ctor::FromSlice { 6 } else { 20 }); if fam == 0 { n = not_multiple(&mut c.rng, n, 128); }
                let raw = gen_huge_iv(&mut c.rng, fam, n, mask, tbits);
                let vals: Vec<T> = raw.iter().map(|&x| T::from_u64(x)).collect();
                c.input_str("kind", HUGE_IV[fam]); c.input_str("len", &n.to_string()); c.input("vals_u64_le", &le_bytes(&raw)); c.note("huge_elems", n as u64);
                check_intvec::<T>(c, ctor, &vals)
            });
        } }
    }
}

/// like uv_check, but samples the index set (RLE reads are O(runs))
fn uv_check_sampled(c: &mut Case, uv: &UintVector, vals: &[u32], what: &str, all: bool) -> Res {
    let n = vals.len();
    ensure!(uv.len() == n, "len", "{what}: len()={} want {n}", uv.len());
    let idx: Vec<usize> = if all { (0..n).collect() } else { let mut v: Vec<usize> = (0..2000.min(n)).chain(n.saturating_sub(2000)..n).collect(); for b in [65534usize, 65535, 65536, 65537, 131071, 131072, 131073] { if b < n { v.push(b); } } for _ in 0..6000 { v.push(c.rng.usize_below(n)); } v.sort(); v.dedup(); v };
    let mut cur = 0usize;
    let res = catch(|| { for &i in &idx { cur = i; let g = uv.get(i); if g != Some(vals[i]) { return Err(g); } } Ok(()) });
    match res { Ok(Ok(())) => {}
        Ok(Err(g)) => return Err(bad(if g.is_none() { "get_none_in_range" } else { "value_mismatch" }, format!("{what} n={n}: get({cur})={g:?} want {}", vals[cur]))),
        Err(p) => return Err(bad("get_panic", format!("{what} n={n}: get({cur}) panicked at {}: {}", p.loc, p.msg))) }
    c.ev(idx.len() as u64);
    for k in [n, n + 1, n + 65536, usize::MAX] { let g = catch(|| uv.get(k)).map_err(|p| bad("oob_panic", format!("{what}: get({k}) len {n}: {} {}", p.loc, p.msg)))?; ensure!(g.is_none(), "oob_value", "{what}: get({k}) with len {n} returned {g:?}"); }
    Ok(())
}
const HUGE_UV: &[&str] = &["huge_long_run", "huge_dominant", "huge_const", "huge_range_exact", "huge_two_halves", "huge_few_runs"];
fn gen_huge_u32(r: &mut Rng, fam: usize, n: usize) -> Vec<u32> {
    match fam {
        0 => { // one run longer than 65535 (a 16-bit run counter would wrap), framed by short runs
            let long = if n >= 65600 { 65536 + r.usize_below(n - 65536 + 1).min(n / 4) } else { n - r.usize_below(8) }; let lead = r.usize_below(n - long + 1); let x = r.next() as u32; let mut v = Vec::with_capacity(n);
            while v.len() < lead { let y = r.next() as u32; let k = 1 + r.usize_below(300); for _ in 0..k { if v.len() < lead { v.push(y); } } }
            for _ in 0..long { v.push(x); }
            while v.len() < n { let y = r.next() as u32; let k = 1 + r.usize_below(300); for _ in 0..k { if v.len() < n { v.push(y); } } } v }
        1 => { let d = r.next() as u32; let pct = 60 + r.below(40); let m = if r.bool() { u32::MAX } else { 0xffff }; (0..n).map(|_| if r.below(100) < pct { d } else { r.next() as u32 & m }).collect() }
        2 => { let c = *r.pick(&[0u32, 1, u32::MAX, 0x8000_0000, 0xdead_beef]); vec![c; n] }
        3 => { let k = *r.pick(&[1u32, 7, 8, 15, 16, 17, 24, 25, 31]); let span = if r.bool() { (1u32 << k) - 1 } else { 1u32 << k }; let min = if r.bool() { 0 } else { r.below((u32::MAX - span) as u64 + 1) as u32 };
            let mut v: Vec<u32> = (0..n).map(|_| min + r.below(span as u64 + 1) as u32).collect(); v[n - 2] = min; v[n - 1] = min + span; v }
        5 => { // at most 8 runs, one of them longer than 65535 (RLE stays cheap to read: incremental push re-reads every element per recompression)
            let k = 1 + r.usize_below(7); let mut cuts: Vec<usize> = (0..k).map(|_| r.usize_below(n)).collect(); cuts.push(0); cuts.push(n); cuts.sort(); cuts.dedup();
            let (mut bi, mut bl) = (0, 0); for i in 0..cuts.len() - 1 { if cuts[i + 1] - cuts[i] > bl { bl = cuts[i + 1] - cuts[i]; bi = i; } }
            if bl <= 65535 && n > 65536 { cuts = vec![0, n - 65536 - r.usize_below(n - 65536), n]; cuts.dedup(); let _ = bi; }
            let mut v = Vec::with_capacity(n); for i in 0..cuts.len() - 1 { let x = r.next() as u32 >> r.below(32); for _ in cuts[i]..cuts[i + 1] { v.push(x); } } v }
        _ => { // X c X d: two identical halves of >= 32 Ki elements followed by differing elements
            let h = (n - 2) / 2; let m = if r.bool() { 0xff } else { u32::MAX }; let x: Vec<u32> = (0..h).map(|_| r.next() as u32 & m).collect(); let mut v = x.clone(); v.push(1); v.extend_from_slice(&x); while v.len() < n { v.push(2); } v }
    }
}
fn run_huge_uintvector(ctx: &mut Ctx) {
    for fam in 0..5 { for idx in 0..ctx.n(4, 30) as u64 {
        ctx.case("uintvector/build_from", HUGE_UV[fam], idx, |c| {
            let n = huge_len(&mut c.rng, 8); let vals = gen_huge_u32(&mut c.rng, fam, n);
            c.input_str("kind", HUGE_UV[fam]); c.input("vals_u32_le", &vals.iter().flat_map(|x| x.to_le_bytes()).collect::<Vec<u8>>()); c.note("huge_elems", n as u64);
            let uv = match catch(|| UintVector::build_from(&vals)) { Ok(Ok(v)) => v, Ok(Err(_)) => { c.note("ctor_err", 1); return Ok(()); }, Err(p) => return Err(bad(&p.class(), format!("build_from n={n} panicked at {}: {}", p.loc, p.msg))) };
            c.set_nontrivial(true);
            let (sname, sbytes) = uv_predict(&vals); let (_, comp, _) = uv.stats();
            if comp == sbytes { c.note(&format!("strat:{sname}"), 1); } else { c.note(&format!("strat_unconfirmed:{sname}"), 1); }
            let runs = 1 + vals.windows(2).filter(|p| p[0] != p[1]).count();
            uv_check_sampled(c, &uv, &vals, "build_from", sname != "rle" || runs < 400)
        });
    } }
    for fam in [5usize, 3, 4] { for idx in 0..ctx.n(2, 12) as u64 { // families on which RLE is either not selected or has < 10 runs: every 64th push re-reads all elements, and an RLE read is O(runs)
        ctx.case("uintvector/push", HUGE_UV[fam], idx, |c| { // grows through > 1000 recompressions past 65536 elements
            let n = *c.rng.pick(&[65537usize, 65600, 66049, 70001]); let vals = gen_huge_u32(&mut c.rng, fam, n);
            c.input_str("kind", HUGE_UV[fam]); c.input("vals_u32_le", &vals.iter().flat_map(|x| x.to_le_bytes()).collect::<Vec<u8>>()); c.note("huge_elems", n as u64);
            let mut uv = if c.rng.bool() { UintVector::new() } else { UintVector::with_capacity(*c.rng.pick(&[65537usize, 131073])) };
            let checkpoints = [65535usize, 65536, 65537, n];
            for i in 0..n {
                match catch(|| uv.push(vals[i])) { Ok(Ok(())) => {}, Ok(Err(e)) => return Err(bad("push_err", format!("push #{i} of {} failed: {e}", vals[i]))), Err(p) => return Err(bad(&p.class(), format!("push #{i} panicked at {}: {}", p.loc, p.msg))) }
                if checkpoints.contains(&(i + 1)) { let runs = 1 + vals[..i + 1].windows(2).filter(|p| p[0] != p[1]).count(); uv_check_sampled(c, &uv, &vals[..i + 1], "push", runs < 400)?; c.note("checkpoints", 1); }
            }
            c.set_nontrivial(true); Ok(())
        });
    } }
}

fn run_huge_min0_zip(ctx: &mut Ctx) {
    for idx in 0..ctx.n(8, 60) as u64 {
        ctx.case("uvmin0/new_set", "huge_bits", idx, |c| {
            let w = match c.rng.below(4) { 0 => *c.rng.pick(&[1u32, 7, 8, 9, 16, 17, 31, 32, 33, 57, 58]), _ => 1 + c.rng.below(58) as u32 };
            let n = if w <= 16 { huge_len(&mut c.rng, 6) } else { *c.rng.pick(HUGE_LENS) }; let max_val = exact_bits(&mut c.rng, w);
            c.input_str("w", &w.to_string()); c.input_str("n", &n.to_string()); c.input_str("max_val", &max_val.to_string()); c.note("huge_elems", n as u64);
            let mut v = catch(|| UintVecMin0::new(n, max_val as usize)).map_err(|p| bad(&p.class(), format!("new({n},{max_val}) panicked at {}: {}", p.loc, p.msg)))?;
            ensure!(v.uintbits() == w as usize, "width", "uintbits()={} want {w}", v.uintbits());
            let m = mask_of(w); let mut shadow = vec![0u64; n]; let backwards = c.rng.bool();
            for k in 0..n + n / 4 { let i = if k < n { if backwards { n - 1 - k } else { k } } else { c.rng.usize_below(n) }; let x = match c.rng.below(6) { 0 => 0, 1 => m, 2 => max_val, _ => c.rng.next() & m };
                catch(|| v.set(i, x as usize)).map_err(|p| bad(&p.class(), format!("set({i},{x}) bits={w} panicked at {}: {}", p.loc, p.msg)))?; shadow[i] = x; }
            c.set_nontrivial(true); min0_check(c, &v, &shadow, "new_set")
        });
        ctx.case("zipintvec/new_set", "huge_range", idx, |c| {
            let w = 1 + c.rng.below(58) as u32; let n = *c.rng.pick(HUGE_LENS); let span = exact_bits(&mut c.rng, w); let m = mask_of(w);
            let min = match c.rng.below(3) { 0 => 0, 1 => u64::MAX - m, _ => c.rng.below(u64::MAX - m) };
            c.input_str("w", &w.to_string()); c.input_str("n", &n.to_string()); c.input_str("min", &min.to_string()); c.input_str("span", &span.to_string()); c.note("huge_elems", n as u64);
            let mut z = catch(|| ZipIntVec::new(n, min as usize, (min + span) as usize)).map_err(|p| bad(&p.class(), format!("new({n},{min},{}) panicked at {}: {}", min + span, p.loc, p.msg)))?;
            let mut shadow = vec![min; n];
            for i in 0..n { let x = min + match c.rng.below(4) { 0 => 0, 1 => span, _ => c.rng.below(span + 1) }; catch(|| z.set(i, x as usize)).map_err(|p| bad(&p.class(), format!("set({i},{x}) panicked at {}: {}", p.loc, p.msg)))?; shadow[i] = x; }
            c.set_nontrivial(true); zip_check(c, &z, &shadow, "new_set")
        });
    }
    for idx in 0..ctx.n(5, 40) as u64 {
        // grows by push_back past 65536 / 131072 elements while the width steps up (each step rebuilds the whole vector)
        let grow = |c: &mut Case| -> Vec<u64> { let n = *c.rng.pick(&[65537usize, 100_001, 131073, 140_000]); let wmax = 1 + c.rng.below(58) as u32; let steps = 1 + c.rng.below(8) as usize; c.note("huge_elems", n as u64);
            (0..n).map(|i| { let w = (wmax as usize * (1 + i * steps / n) / steps) as u32; if i * steps % n < steps { exact_bits(&mut c.rng, w) } else { c.rng.next() & mask_of(w) } }).collect() };
        ctx.case("uvmin0/push_back", "huge_grow", idx, |c| { let vals = grow(c); c.input("vals_u64_le", &le_bytes(&vals)); let n = vals.len();
            let v = catch(|| { let mut v = UintVecMin0::new_empty(); for &x in &vals { v.push_back(x as usize); } v }).map_err(|p| bad(&p.class(), format!("push_back sequence n={n} panicked at {}: {}", p.loc, p.msg)))?;
            c.set_nontrivial(true); c.note(&format!("bits:{}", v.uintbits()), 1); min0_check(c, &v, &vals, "push_back") });
        ctx.case("zipintvec/push_back", "huge_grow", idx, |c| { let vals = grow(c); c.input("vals_u64_le", &le_bytes(&vals)); let n = vals.len();
            let z = catch(|| { let mut z = ZipIntVec::new_empty(); for &x in &vals { z.push_back(x as usize); } z }).map_err(|p| bad(&p.class(), format!("push_back sequence n={n} panicked at {}: {}", p.loc, p.msg)))?;
            c.set_nontrivial(true); c.note(&format!("bits:{}", z.uintbits()), 1); zip_check(c, &z, &vals, "push_back") });
    }
    for fam in [1usize, 3] { for idx in 0..ctx.n(3, 24) as u64 {
        // bulk builders on > 65536 elements: dominant value / exact power-of-two range, with an optional large base
        ctx.case("uvmin0/build_u32", HUGE_UV[fam], idx, |c| { let n = *c.rng.pick(HUGE_LENS); let vals = gen_huge_u32(&mut c.rng, fam, n); c.input("vals_u32_le", &vals.iter().flat_map(|x| x.to_le_bytes()).collect::<Vec<u8>>()); c.note("huge_elems", n as u64);
            let mn = *vals.iter().min().unwrap(); let (v, m) = catch(|| UintVecMin0::build_from_u32(&vals)).map_err(|p| bad(&p.class(), format!("build_from_u32 n={n} panicked at {}: {}", p.loc, p.msg)))?;
            ensure!(m == mn, "min", "returned min {m} want {mn}"); c.set_nontrivial(true); let want: Vec<u64> = vals.iter().map(|&x| (x - mn) as u64).collect(); min0_check(c, &v, &want, "build_from_u32") });
        ctx.case("uvmin0/build_i32", HUGE_UV[fam], idx, |c| { let n = *c.rng.pick(HUGE_LENS); let vals: Vec<i32> = gen_huge_u32(&mut c.rng, fam, n).iter().map(|&x| x as i32).collect(); c.input("vals_i32_le", &vals.iter().flat_map(|x| x.to_le_bytes()).collect::<Vec<u8>>()); c.note("huge_elems", n as u64);
            let (mn, mx) = (*vals.iter().min().unwrap(), *vals.iter().max().unwrap()); if (mx as i64 - mn as i64) > i32::MAX as i64 { c.tag("i32_range_exceeds_i32_max"); }
            let (v, m) = catch(|| UintVecMin0::build_from_i32(&vals)).map_err(|p| bad(&p.class(), format!("build_from_i32 n={n} min={mn} max={mx} panicked at {}: {}", p.loc, p.msg)))?;
            ensure!(m == mn, "min", "returned min {m} want {mn}"); c.set_nontrivial(true); let want: Vec<u64> = vals.iter().map(|&x| (x as i64 - mn as i64) as u64).collect(); min0_check(c, &v, &want, "build_from_i32") });
        ctx.case("zipintvec/build_u32", HUGE_UV[fam], idx, |c| { let n = *c.rng.pick(HUGE_LENS); let vals = gen_huge_u32(&mut c.rng, fam, n); c.input("vals_u32_le", &vals.iter().flat_map(|x| x.to_le_bytes()).collect::<Vec<u8>>()); c.note("huge_elems", n as u64);
            let z = catch(|| ZipIntVec::build_from_u32(&vals)).map_err(|p| bad(&p.class(), format!("build_from_u32 n={n} panicked at {}: {}", p.loc, p.msg)))?;
            c.set_nontrivial(true); let want: Vec<u64> = vals.iter().map(|&x| x as u64).collect(); zip_check(c, &z, &want, "build_from_u32") });
        for (t, is_zip) in [("uvmin0/build_usize", false), ("zipintvec/build_usize", true)] { ctx.case(t, HUGE_UV[fam], idx, |c| {
            let n = *c.rng.pick(HUGE_LENS); let base = match c.rng.below(3) { 0 => 0u64, 1 => u64::MAX - u32::MAX as u64, _ => c.rng.next() >> 1 }; c.input_str("base", &base.to_string()); c.note("huge_elems", n as u64);
            let vals: Vec<u64> = gen_huge_u32(&mut c.rng, fam, n).iter().map(|&x| base + x as u64).collect(); c.input("vals_u64_le", &le_bytes(&vals)); let us: Vec<usize> = vals.iter().map(|&x| x as usize).collect(); let mn = *vals.iter().min().unwrap();
            c.set_nontrivial(true);
            if is_zip { if mn.checked_add(mask_of(ubits(*vals.iter().max().unwrap() - mn).max(1) as u32)).is_none() { c.tag("min_plus_mask_overflows"); }
                let z = catch(|| ZipIntVec::build_from_usize(&us)).map_err(|p| bad(&p.class(), format!("build_from_usize n={n} panicked at {}: {}", p.loc, p.msg)))?; zip_check(c, &z, &vals, "build_from_usize") }
            else { let (v, m) = catch(|| UintVecMin0::build_from_usize(&us)).map_err(|p| bad(&p.class(), format!("build_from_usize n={n} panicked at {}: {}", p.loc, p.msg)))?;
                ensure!(m as u64 == mn, "min", "returned min {m} want {mn}"); let want: Vec<u64> = vals.iter().map(|&x| x - mn).collect(); min0_check(c, &v, &want, "build_from_usize") } }); }
    } }
}

const HUGE_SUV: &[&str] = &["huge_delta_at_limit", "huge_delta_over_limit_tail", "huge_dense", "huge_base_at_sample_limit"];
/// sorted, > 65536 elements, n % block_size != 0
fn gen_huge_suv(r: &mut Rng, cfg: &SortedUintVecConfig, fam: usize, n: usize) -> Vec<u64> {
    let bs = 1usize << cfg.log2_block_units; let om = mask_of(cfg.offset_width as u32) as u128; let sm = mask_of(cfg.sample_width as u32) as u128; let nb = (n + bs - 1) / bs; let tail0 = (nb - 1) * bs;
    let mut v: Vec<u128> = Vec::with_capacity(n); let mut base: u128 = r.below(1000) as u128;
    // per-block step budget so that the whole sequence stays below 2^sample_width where the family wants it to
    let per_block: u128 = (sm.min(u64::MAX as u128) / 2) / nb as u128; let off_cap: u128 = om.min((per_block / 2).max(1));
    let step_cap: u128 = if fam == 3 { 0 } else { (per_block / 2).min(4 * (om + 1)) };
    for b in 0..nb { let cnt = bs.min(n - b * bs);
        let mut offs: Vec<u128> = match fam { 2 => { let mut cur = 0u128; (0..cnt).map(|_| { cur = (cur + r.below(2) as u128).min(off_cap); cur }).collect() }
            _ => { let lim = if r.chance(1, 4) { off_cap as u64 } else { r.below(off_cap as u64 + 1) }; let mut o: Vec<u128> = (0..cnt).map(|_| r.below(lim + 1) as u128).collect(); o.sort(); o[0] = 0; o } };
        // deltas exactly at 2^offset_width - 1: in every 97th block and always in the trailing partial block
        if (fam == 0 || fam == 1) && cnt > 1 && (b % 97 == 0 || b == nb - 1) { offs[cnt - 1] = om; }
        for &o in &offs { v.push(base + o); }
        let last = base + offs[cnt - 1]; base = last + if step_cap == 0 { 0 } else { r.below((step_cap.min(u64::MAX as u128) as u64).max(1)) as u128 };
    }
    if fam == 1 { let cnt = n - tail0; let at = if cnt > 1 { tail0 + 1 + r.usize_below(cnt - 1) } else { n - 1 }; // one delta of exactly 2^offset_width (or a little more) in the trailing partial block: must be refused
        if cnt > 1 { let need = (om + 1 + if r.bool() { 0 } else { r.below(3) as u128 }).saturating_sub(v[at] - v[tail0]); for x in v[at..].iter_mut() { *x += need; } } }
    if fam == 3 && cfg.sample_width < 64 { // trailing block's base exactly at 2^sample_width - 1 (fits) or 2^sample_width (does not): shift the whole sequence
        let target = if r.bool() { sm } else { sm + 1 }; let cur = v[tail0]; if target >= cur { let d = target - cur; for x in v.iter_mut() { *x += d; } } else { let d = (cur - target).min(v[0]); for x in v.iter_mut() { *x -= d; } } }
    let over = v.last().map_or(0, |&x| x.saturating_sub(u64::MAX as u128)).min(v[0]);
    v.iter().map(|&x| (x - over).min(u64::MAX as u128) as u64).collect()
}
fn run_huge_suv(ctx: &mut Ctx) {
    let targets: [(&str, Option<SortedUintVecConfig>); 5] = [("suv/default", Some(SortedUintVecConfig::default())), ("suv/performance", Some(SortedUintVecConfig::performance_optimized())), ("suv/memory", Some(SortedUintVecConfig::memory_optimized())), ("suv/log2_4", None), ("suv/log2_8", None)];
    for fam in 0..HUGE_SUV.len() { for idx in 0..ctx.n(3, 20) as u64 { for (t, preset) in targets.iter() {
        ctx.case(t, HUGE_SUV[fam], idx, |c| {
            let cfg = preset.unwrap_or_else(|| SortedUintVecConfig { log2_block_units: if *t == "suv/log2_4" { 4 } else { 8 }, offset_width: *c.rng.pick(&[8u8, 9, 15, 16, 17, 31, 32]), sample_width: *c.rng.pick(&[16u8, 17, 32, 33, 57, 59, 63, 64]), use_simd: c.rng.bool() });
            let bs = 1usize << cfg.log2_block_units; let n0 = huge_len(&mut c.rng, 10); let mut n = not_multiple(&mut c.rng, n0, bs); if n % bs == 1 { n += 1 + c.rng.usize_below(bs - 2); } // trailing partial block of at least two elements
            let vals = gen_huge_suv(&mut c.rng, &cfg, fam, n); c.note("huge_elems", n as u64);
            suv_check(c, cfg, HUGE_SUV[fam], &vals) });
    } } }
}

// ---------------------------------------------------------------------------------------------------------------------
// *_ext families: the rest of the mutating / loading / constructor API of the containers, against the same oracles.
//   UintVecMin0: resize_with_wire_max_val, risk_set_data (load of a packed buffer), compute_mem_size_by_max_val, mem_size
//   ZipIntVec:   clear, resize_with_range, risk_set_data, swap, max_val, is_empty, inner, mem_size
//   SortedUintVec: new / with_pool (empty containers), builder with_pool == plain builder, builder len / is_empty, is_empty,
//                  the length fields of analyze_sequence_patterns / compression_stats
//   IntVec: Clone == original; UintVector: memory_usage (called, noted)
// Elements exposed by a growing resize or by a resize_with_* call are unspecified (None in the model) until written.
// ---------------------------------------------------------------------------------------------------------------------
/// hand `bytes` over as an allocation the library may own and free as a Vec<u8> with len == capacity
fn leak_bytes(bytes: &[u8]) -> *mut u8 { Box::into_raw(bytes.to_vec().into_boxed_slice()) as *mut u8 }

fn min0_check_opt(c: &mut Case, v: &UintVecMin0, model: &[Option<u64>], what: &str, trace: &str) -> Res {
    let n = model.len();
    ensure!(v.size() == n, "len", "{what}: size()={} want {n} [{trace}]", v.size());
    ensure!(v.is_empty() == (n == 0), "len", "{what}: is_empty()={} with size {n} [{trace}]", v.is_empty());
    let (bits, mask) = (v.uintbits(), v.uintmask());
    let plain = UintVecMin0::compute_mem_size(bits, n); let by_max = UintVecMin0::compute_mem_size_by_max_val(mask, n);
    ensure!(plain == by_max, "mem_size_by_max_val", "compute_mem_size_by_max_val({mask},{n})={by_max} but compute_mem_size({bits},{n})={plain}");
    ensure!(v.mem_size() == v.data().len(), "mem_size", "{what}: mem_size()={} data().len()={} [{trace}]", v.mem_size(), v.data().len());
    if n > 0 && v.mem_size() < plain { c.note("mem_size_lt_needed", 1); }
    let mut cur = 0usize; let mut reads = 0u64;
    let res = catch(|| { for i in 0..n { cur = i; let Some(w) = model[i] else { continue };
            let g = v.get(i) as u64; if g != w { return Err(format!("get({i})={g}")); }
            if i + 1 < n { if let Some(w2) = model[i + 1] { let g2 = v.get2(i); if g2[0] as u64 != w || g2[1] as u64 != w2 { return Err(format!("get2({i})={g2:?}")); } } }
            match UintVecMin0::fast_get(v.data(), bits, mask, i) { Ok(x) if x as u64 == w => {}, other => return Err(format!("fast_get({i})={other:?}")) }
            reads += 3; }
        if n > 0 { if let Some(w) = model[n - 1] { if v.back() as u64 != w { return Err(format!("back()={}", v.back())); } } } Ok(()) });
    match res { Ok(Ok(())) => {}, Ok(Err(d)) => return Err(bad("value_mismatch", format!("after {what} (n={n} bits={bits}): {d} want {:?} [{trace}]", model[cur]))),
        Err(p) => return Err(bad("get_panic", format!("after {what} (n={n} bits={bits}): read at {cur} panicked at {}: {} [{trace}]", p.loc, p.msg))) }
    c.ev(reads);
    for k in [n, n + 1] { if let Ok(x) = catch(|| v.get(k)) { return Err(bad("oob_value", format!("after {what}: get({k}) with size {n} returned {x} [{trace}]"))); } }
    Ok(())
}
fn zip_check_opt(c: &mut Case, z: &ZipIntVec, model: &[Option<u64>], what: &str, trace: &str) -> Res {
    let n = model.len(); let min = z.min_val() as u64;
    ensure!(z.size() == n, "len", "{what}: size()={} want {n} [{trace}]", z.size());
    ensure!(z.is_empty() == (n == 0), "len", "{what}: is_empty()={} with size {n} [{trace}]", z.is_empty());
    ensure!(z.inner().size() == n, "len", "{what}: inner().size()={} want {n} [{trace}]", z.inner().size());
    let (bits, mask) = (z.uintbits(), z.uintmask());
    // documented: set() accepts up to min_val + uintmask; max_val() is "the maximum value that can be stored"
    ensure!(z.max_val() as u64 == min.saturating_add(mask as u64), "max_val", "{what}: max_val()={} but min_val {min} + uintmask {mask} [{trace}]", z.max_val());
    if z.mem_size() != z.inner().mem_size() + size_of::<usize>() { c.note("zip_mem_size_ne_inner_plus_8", 1); }
    let mut cur = 0usize; let mut reads = 0u64;
    let res = catch(|| { for i in 0..n { cur = i; let Some(w) = model[i] else { continue };
            let g = z.get(i) as u64; if g != w { return Err(format!("get({i})={g}")); }
            let gi = z.inner().get(i) as u64; if min.checked_add(gi) != Some(w) { return Err(format!("inner().get({i})={gi} (+min {min})")); }
            if i + 1 < n { if let Some(w2) = model[i + 1] { let g2 = z.get2(i); if g2[0] as u64 != w || g2[1] as u64 != w2 { return Err(format!("get2({i})={g2:?}")); } } }
            match ZipIntVec::fast_get(z.data(), bits, mask, z.min_val(), i) { Ok(x) if x as u64 == w => {}, other => return Err(format!("fast_get({i})={other:?}")) }
            if w > z.max_val() as u64 { return Err(format!("max_val()={} below stored element {i}", z.max_val())); }
            reads += 4; }
        if n > 0 { if let Some(w) = model[n - 1] { if z.back() as u64 != w { return Err(format!("back()={}", z.back())); } } } Ok(()) });
    match res { Ok(Ok(())) => {}, Ok(Err(d)) => return Err(bad("value_mismatch", format!("after {what} (n={n} bits={bits} min={min}): {d} want {:?} [{trace}]", model[cur]))),
        Err(p) => return Err(bad("get_panic", format!("after {what} (n={n} bits={bits} min={min}): read at {cur} panicked at {}: {} [{trace}]", p.loc, p.msg))) }
    c.ev(reads);
    for k in [n, n + 1] { if let Ok(x) = catch(|| z.get(k)) { return Err(bad("oob_value", format!("after {what}: get({k}) with size {n} returned {x} [{trace}]"))); } }
    Ok(())
}

fn run_ext_min0_zip(ctx: &mut Ctx) {
    for idx in 0..ctx.n(300, 4000) as u64 {
        ctx.case("uvmin0/history", "ops_ext", idx, |c| {
            let wcap = if c.rng.chance(1, 3) { 8 } else { 57 }; let wmax = 1 + c.rng.below(wcap) as u32;
            let mut model: Vec<Option<u64>> = Vec::new(); let nops = 20 + c.rng.usize_below(100); let mut trace = String::new();
            let mut v = UintVecMin0::new_empty(); c.input_str("wmax", &wmax.to_string());
            for step in 0..nops {
                let curmask = v.uintmask() as u64; let n = model.len(); let roll = c.rng.below(100); let what;
                if roll < 36 || n == 0 && roll < 60 { let x = match c.rng.below(8) { 0 => exact_bits(&mut c.rng, wmax), 1 => curmask, 2 => 0, 3 => 1, _ => c.rng.next() & curmask.max(1) } & mask_of(wmax);
                    what = format!("push_back({x})"); catch(|| v.push_back(x as usize)).map_err(|p| bad(&p.class(), format!("op#{step} {what} panicked at {}: {} [{trace}]", p.loc, p.msg)))?; model.push(Some(x));
                } else if roll < 48 && n > 0 { let i = c.rng.usize_below(n); let x = match c.rng.below(4) { 0 => curmask, 1 => 0, _ => c.rng.next() & curmask }; what = format!("set({i},{x})");
                    catch(|| v.set(i, x as usize)).map_err(|p| bad(&p.class(), format!("op#{step} {what} panicked at {}: {} [{trace}]", p.loc, p.msg)))?; model[i] = Some(x);
                } else if roll < 58 { let k = match c.rng.below(4) { 0 => 0, 1 => n.saturating_sub(1 + c.rng.usize_below(3)), 2 => c.rng.usize_below(n + 1), _ => n + c.rng.usize_below(4) }; what = format!("resize({k})");
                    catch(|| v.resize(k)).map_err(|p| bad(&p.class(), format!("op#{step} {what} panicked at {}: {} [{trace}]", p.loc, p.msg)))?; model.resize(k, None);
                } else if roll < 72 { // new width and size in one call; old contents are not specified afterwards
                    let num = match c.rng.below(4) { 0 => c.rng.usize_below(n + 1), 1 => n + c.rng.usize_below(40), 2 => *c.rng.pick(&[0usize, 1, 63, 64, 65, 128, 129]), _ => c.rng.usize_below(300) };
                    let w = c.rng.below(wmax as u64 + 1) as u32; let mx = exact_bits(&mut c.rng, w); what = format!("resize_with_wire_max_val({num},{mx})");
                    catch(|| v.resize_with_wire_max_val(num, mx as usize)).map_err(|p| bad(&p.class(), format!("op#{step} {what} panicked at {}: {} [{trace}]", p.loc, p.msg)))?;
                    ensure!(v.uintmask() as u64 >= mx, "width", "op#{step} {what}: uintmask()={} cannot hold the stated maximum (bits={}) [{trace}]", v.uintmask(), v.uintbits());
                    ensure!(v.uintbits() == UintVecMin0::compute_uintbits(mx as usize), "width", "op#{step} {what}: uintbits()={} but compute_uintbits({mx})={} [{trace}]", v.uintbits(), UintVecMin0::compute_uintbits(mx as usize));
                    model = vec![None; num];
                    if c.rng.chance(2, 3) { let mut order: Vec<usize> = (0..num).collect(); c.rng.shuffle(&mut order); let keep = if c.rng.bool() { num } else { c.rng.usize_below(num + 1) };
                        for &i in &order[..keep] { let x = match c.rng.below(4) { 0 => mx, 1 => 0, _ => c.rng.below(mx + 1) };
                            catch(|| v.set(i, x as usize)).map_err(|p| bad(&p.class(), format!("op#{step} set({i},{x}) after {what} panicked at {}: {} [{trace}]", p.loc, p.msg)))?; model[i] = Some(x); } }
                } else if roll < 82 { // load: a fresh vector adopts a copy of the packed bytes
                    let bits = v.uintbits(); let need = UintVecMin0::compute_mem_size(bits, n); what = format!("risk_set_data(n={n},bits={bits})");
                    if v.data().len() >= need && bits <= 58 { let p = leak_bytes(&v.data()[..need]); let mut w = UintVecMin0::new_empty();
                        catch(|| unsafe { w.risk_set_data(p, n, bits) }).map_err(|p| bad(&p.class(), format!("op#{step} {what} panicked at {}: {} [{trace}]", p.loc, p.msg)))?; v = w; c.note("loads", 1); }
                } else if roll < 89 { what = "shrink_to_fit".to_string(); v.shrink_to_fit();
                } else if roll < 93 { what = "clear".to_string(); v.clear(); model.clear();
                } else { what = "read".to_string(); }
                if trace.len() < 1500 { trace.push_str(&what); trace.push(' '); }
                min0_check_opt(c, &v, &model, &format!("op#{step} {what}"), &trace)?;
            }
            c.input_str("ops", &trace); c.set_nontrivial(true); Ok(())
        });
        ctx.case("zipint/history", "ops_ext", idx, |c| {
            let wcap = if c.rng.chance(1, 3) { 8 } else { 57 }; let wmax = 1 + c.rng.below(wcap) as u32;
            let pick_min = |r: &mut Rng| -> u64 { match r.below(4) { 0 => 0u64, 1 => r.below(1000), 2 => 1_700_000_000 + r.below(1 << 20), _ => r.next() >> 2 } };
            let nops = 20 + c.rng.usize_below(100); let mut trace = String::new(); c.input_str("wmax", &wmax.to_string());
            // the vector under test and a second one to swap with (built in bulk)
            let mut z = ZipIntVec::new_empty(); let mut model: Vec<Option<u64>> = Vec::new();
            let omin = pick_min(&mut c.rng); let on = c.rng.usize_below(70); let ovals: Vec<u64> = (0..on).map(|_| omin + (c.rng.next() & mask_of(wmax))).collect(); c.input("other_vals_u64_le", &le_bytes(&ovals));
            let mut other = catch(|| ZipIntVec::build_from_usize(&ovals.iter().map(|&x| x as usize).collect::<Vec<usize>>())).map_err(|p| bad(&p.class(), format!("build_from_usize(n={on}) panicked at {}: {}", p.loc, p.msg)))?;
            let mut omodel: Vec<Option<u64>> = ovals.iter().map(|&x| Some(x)).collect();
            for step in 0..nops {
                let min = z.min_val() as u64; let curmask = z.uintmask() as u64; let n = model.len(); let roll = c.rng.below(100); let what;
                if roll < 34 || n == 0 && roll < 55 { let off = match c.rng.below(8) { 0 => exact_bits(&mut c.rng, wmax), 1 => curmask, 2 => 0, 3 => 1, _ => c.rng.next() & curmask.max(1) } & mask_of(wmax); let x = min + off;
                    what = format!("push_back({x})"); catch(|| z.push_back(x as usize)).map_err(|p| bad(&p.class(), format!("op#{step} {what} (min {min}) panicked at {}: {} [{trace}]", p.loc, p.msg)))?; model.push(Some(x));
                } else if roll < 46 && n > 0 { let i = c.rng.usize_below(n); let x = match c.rng.below(4) { 0 => z.max_val() as u64, 1 => min, _ => min + (c.rng.next() & curmask) }; what = format!("set({i},{x})");
                    catch(|| z.set(i, x as usize)).map_err(|p| bad(&p.class(), format!("op#{step} {what} (min {min} max_val {}) panicked at {}: {} [{trace}]", z.max_val(), p.loc, p.msg)))?; model[i] = Some(x);
                } else if roll < 54 { let k = match c.rng.below(4) { 0 => 0, 1 => n.saturating_sub(1 + c.rng.usize_below(3)), 2 => c.rng.usize_below(n + 1), _ => n + c.rng.usize_below(4) }; what = format!("resize({k})");
                    catch(|| z.resize(k)).map_err(|p| bad(&p.class(), format!("op#{step} {what} panicked at {}: {} [{trace}]", p.loc, p.msg)))?; model.resize(k, None);
                } else if roll < 68 { // new range and size; old contents are not specified afterwards
                    let num = match c.rng.below(4) { 0 => c.rng.usize_below(n + 1), 1 => n + c.rng.usize_below(40), 2 => *c.rng.pick(&[0usize, 1, 63, 64, 65, 128, 129]), _ => c.rng.usize_below(300) };
                    let nmin = pick_min(&mut c.rng); let w = 1 + c.rng.below(wmax as u64) as u32; let span = exact_bits(&mut c.rng, w); let nmax = nmin + span; what = format!("resize_with_range({num},{nmin},{nmax})");
                    catch(|| z.resize_with_range(num, nmin as usize, nmax as usize)).map_err(|p| bad(&p.class(), format!("op#{step} {what} panicked at {}: {} [{trace}]", p.loc, p.msg)))?;
                    ensure!(z.min_val() as u64 <= nmin && z.max_val() as u64 >= nmax, "range", "op#{step} {what}: container reports [{}, {}] [{trace}]", z.min_val(), z.max_val());
                    model = vec![None; num];
                    if c.rng.chance(2, 3) { let mut order: Vec<usize> = (0..num).collect(); c.rng.shuffle(&mut order); let keep = if c.rng.bool() { num } else { c.rng.usize_below(num + 1) };
                        for &i in &order[..keep] { let x = match c.rng.below(4) { 0 => nmax, 1 => nmin, _ => nmin + c.rng.below(span + 1) };
                            catch(|| z.set(i, x as usize)).map_err(|p| bad(&p.class(), format!("op#{step} set({i},{x}) after {what} panicked at {}: {} [{trace}]", p.loc, p.msg)))?; model[i] = Some(x); } }
                } else if roll < 76 { what = "swap".to_string(); z.swap(&mut other); std::mem::swap(&mut model, &mut omodel);
                    zip_check_opt(c, &other, &omodel, &format!("op#{step} swap (other side)"), &trace)?;
                } else if roll < 84 { // load: a fresh vector adopts a copy of the packed bytes
                    let bits = z.uintbits(); let need = UintVecMin0::compute_mem_size(bits, n); what = format!("risk_set_data(n={n},min={min},bits={bits})");
                    if z.data().len() >= need && bits <= 58 { let p = leak_bytes(&z.data()[..need]); let mut w = ZipIntVec::new_empty();
                        catch(|| unsafe { w.risk_set_data(p, n, min as usize, bits) }).map_err(|p| bad(&p.class(), format!("op#{step} {what} panicked at {}: {} [{trace}]", p.loc, p.msg)))?; z = w; c.note("loads", 1); }
                } else if roll < 89 { what = "shrink_to_fit".to_string(); z.shrink_to_fit();
                } else if roll < 94 { what = "clear".to_string(); z.clear(); model.clear(); // the value range after clear() is whatever min_val() reports (read at the top of the loop)
                } else { what = "read".to_string(); }
                if trace.len() < 1500 { trace.push_str(&what); trace.push(' '); }
                zip_check_opt(c, &z, &model, &format!("op#{step} {what}"), &trace)?;
            }
            c.input_str("ops", &trace); c.set_nontrivial(true); Ok(())
        });
    }
}

/// every read of a built SortedUintVec against the input (no rng draws)
fn suv_reads(c: &mut Case, sv: &SortedUintVec, cfg: &SortedUintVecConfig, vals: &[u64], what: &str) -> Res {
    let bs = 1usize << cfg.log2_block_units; let n = vals.len(); let nb = (n + bs - 1) / bs;
    ensure!(sv.len() == n, "len", "{what}: len()={} want {n}", sv.len());
    ensure!(sv.is_empty() == (n == 0), "len", "{what}: is_empty()={} with len {n}", sv.is_empty());
    ensure!(sv.num_blocks() == nb, "len", "{what}: num_blocks()={} want {nb}", sv.num_blocks());
    let mut cur = 0usize;
    let res = catch(|| { for i in 0..n { cur = i; match sv.get(i) { Ok(x) if x == vals[i] => {}, other => return Err(format!("get({i})={other:?}")) }
            if i + 1 < n { match sv.get2(i) { Ok((a, b)) if a == vals[i] && b == vals[i + 1] => {}, other => return Err(format!("get2({i})={other:?}")) } } } Ok(()) });
    match res { Ok(Ok(())) => {}, Ok(Err(d)) => return Err(bad("value_mismatch", format!("{what} n={n} cfg={cfg:?}: {d} want {} (block base {})", vals[cur], vals[cur / bs * bs]))),
        Err(p) => return Err(bad("get_panic", format!("{what} n={n} cfg={cfg:?}: read at {cur} panicked at {}: {}", p.loc, p.msg))) }
    c.ev(2 * n as u64);
    let mut out = vec![0xDEAD_BEEFu64; bs];
    for b in 0..nb { let r = catch(|| sv.get_block(b, &mut out)).map_err(|p| bad("get_panic", format!("{what}: get_block({b}) panicked at {}: {}", p.loc, p.msg)))?;
        ensure!(r.is_ok(), "get_block_err", "{what}: get_block({b}) of {nb}: {r:?}"); let cnt = bs.min(n - b * bs);
        for j in 0..cnt { ensure!(out[j] == vals[b * bs + j], "get_block_mismatch", "{what}: get_block({b})[{j}]={} want {} (n={n} cfg={cfg:?})", out[j], vals[b * bs + j]); } c.ev(cnt as u64); }
    for k in [n, n + 1, n + bs] { let g = catch(|| sv.get(k)).map_err(|p| bad("oob_panic", format!("{what}: get({k}) len {n}: {} {}", p.loc, p.msg)))?; ensure!(g.is_err(), "oob_value", "{what}: get({k}) with len {n} returned {g:?}"); }
    for k in [n.saturating_sub(1), n] { let g = catch(|| sv.get2(k)).map_err(|p| bad("oob_panic", format!("{what}: get2({k}) len {n}: {} {}", p.loc, p.msg)))?; ensure!(g.is_err(), "oob_value", "{what}: get2({k}) with len {n} returned {g:?}"); }
    let g = catch(|| sv.get_block(nb, &mut out)).map_err(|p| bad("oob_panic", format!("{what}: get_block({nb}) of {nb}: {} {}", p.loc, p.msg)))?; ensure!(g.is_err(), "oob_value", "{what}: get_block({nb}) with {nb} blocks returned Ok");
    // the length as the analysis / statistics views report it (ratios and sizes are not judged)
    let an = catch(|| sv.analyze_sequence_patterns()).map_err(|p| bad("get_panic", format!("{what}: analyze_sequence_patterns() n={n} cfg={cfg:?} panicked at {}: {}", p.loc, p.msg)))?;
    ensure!(an.total_values == n, "len", "{what}: analyze_sequence_patterns().total_values={} want {n}", an.total_values);
    let st = catch(|| sv.compression_stats()).map_err(|p| bad("get_panic", format!("{what}: compression_stats() n={n} panicked at {}: {}", p.loc, p.msg)))?;
    ensure!(st.num_blocks == nb && st.block_size == bs && st.uncompressed_bytes == 8 * n, "len", "{what}: compression_stats() reports {} blocks of {} and {} plain bytes, want {nb} / {bs} / {}", st.num_blocks, st.block_size, st.uncompressed_bytes, 8 * n);
    if st.compressed_bytes != sv.memory_usage() { c.note("stats_bytes_ne_memory_usage", 1); }
    let ratio = sv.compression_ratio(); if !(ratio.is_finite() && ratio >= 0.0) { c.note("ratio_not_finite", 1); }
    let k = sv.config(); if k.log2_block_units != cfg.log2_block_units || k.offset_width != cfg.offset_width || k.sample_width != cfg.sample_width { c.note("config_differs", 1); }
    Ok(())
}
fn owned_pool() -> Result<zipora::SecureMemoryPool, Fail> {
    let arc = zipora::SecureMemoryPool::new(zipora::SecurePoolConfig::small_secure()).map_err(|e| Fail { oracle: "__inconclusive".into(), detail: format!("SecureMemoryPool::new: {e}") })?;
    std::sync::Arc::try_unwrap(arc).map_err(|_| Fail { oracle: "__inconclusive".into(), detail: "pool is shared".into() })
}
fn run_ext_suv(ctx: &mut Ctx) {
    let presets: [(&str, Option<SortedUintVecConfig>); 8] = [("suv/default", Some(SortedUintVecConfig::default())), ("suv/performance", Some(SortedUintVecConfig::performance_optimized())), ("suv/memory", Some(SortedUintVecConfig::memory_optimized())),
        ("suv/log2_4", None), ("suv/log2_5", None), ("suv/log2_6", None), ("suv/log2_7", None), ("suv/log2_8", None)];
    for idx in 0..ctx.n(40, 400) as u64 { for (ti, (t, preset)) in presets.iter().enumerate() {
        ctx.case(t, "api_ext", idx, |c| {
            let cfg = preset.unwrap_or_else(|| SortedUintVecConfig { log2_block_units: ti as u8 + 1, offset_width: if c.rng.chance(1, 3) { *c.rng.pick(&[8u8, 16, 31, 32]) } else { 8 + c.rng.below(25) as u8 },
                sample_width: match c.rng.below(3) { 0 => *c.rng.pick(&[16u8, 24, 32, 40, 48, 56, 64]), _ => 16 + c.rng.below(42) as u8 }, use_simd: c.rng.bool() });
            let bs = 1usize << cfg.log2_block_units; let kind = *c.rng.pick(&[0usize, 1, 2, 3, 6, 5]);
            let n = match c.rng.below(4) { 0 => *c.rng.pick(&[0usize, 1, 2, bs - 1, bs, bs + 1, 2 * bs - 1, 2 * bs, 2 * bs + 1]), 1 => c.rng.usize_below(3 * bs + 2), _ => c.rng.usize_below(1500) };
            let vals = gen_suv(&mut c.rng, &cfg, kind, n);
            c.input_str("cfg", &format!("{cfg:?}")); c.input_str("kind", SUV_KINDS[kind]); c.input("vals_u64_le", &le_bytes(&vals));
            let nb = (n + bs - 1) / bs;
            if cfg.sample_width < 64 && (0..nb).any(|b| vals[b * bs] > mask_of(cfg.sample_width as u32)) { c.tag("block_base_exceeds_sample_width"); }
            // plain builder, one push at a time: the builder's own length view follows the pushes
            let mut b = SortedUintVecBuilder::with_config(cfg);
            ensure!(b.is_empty() && b.len() == 0, "builder_len", "fresh builder: len()={} is_empty()={}", b.len(), b.is_empty());
            for (k, &x) in vals.iter().enumerate() { match catch(|| b.push(x)) { Ok(Ok(())) => {}, Ok(Err(e)) => return Err(bad("push_err", format!("push #{k} of {x} (sorted input) refused: {e}"))), Err(p) => return Err(bad(&p.class(), format!("push #{k} panicked at {}: {}", p.loc, p.msg))) }
                ensure!(b.len() == k + 1 && !b.is_empty(), "builder_len", "after {} pushes: len()={} is_empty()={}", k + 1, b.len(), b.is_empty()); }
            c.ev(n as u64);
            let plain = catch(|| b.finish()).map_err(|p| bad(&p.class(), format!("finish n={n} cfg={cfg:?} panicked at {}: {}", p.loc, p.msg)))?;
            // the same input through a builder that carries a memory pool
            let pool = owned_pool()?;
            let pooled = catch(|| -> zipora::Result<SortedUintVec> { let mut b = SortedUintVecBuilder::with_config(cfg).with_pool(pool); b.extend(vals.iter().copied())?; b.finish() })
                .map_err(|p| bad(&p.class(), format!("builder with_pool n={n} cfg={cfg:?} panicked at {}: {}", p.loc, p.msg)))?;
            match (&plain, &pooled) { (Ok(_), Err(e)) => { c.note("only_pooled_refused", 1); c.log(format!("pooled err {e}")); } (Err(e), Ok(_)) => { c.note("only_plain_refused", 1); c.log(format!("plain err {e}")); } (Err(_), Err(_)) => { c.note("ctor_err", 1); } _ => {} }
            c.set_nontrivial(n >= 2 && (plain.is_ok() || pooled.is_ok()));
            if let Ok(sv) = &plain { suv_reads(c, sv, &cfg, &vals, "plain builder")?; }
            if let Ok(sv) = &pooled { suv_reads(c, sv, &cfg, &vals, "builder with_pool")?; }
            // empty containers from the direct constructors
            let e1 = catch(|| SortedUintVec::with_pool(cfg, owned_pool_or_panic())).map_err(|p| bad(&p.class(), format!("SortedUintVec::with_pool panicked at {}: {}", p.loc, p.msg)))?;
            match e1 { Ok(sv) => suv_reads(c, &sv, &cfg, &[], "SortedUintVec::with_pool")?, Err(_) => c.note("empty_ctor_err", 1) }
            if idx % 4 == 0 { let e2 = catch(SortedUintVec::new).map_err(|p| bad(&p.class(), format!("SortedUintVec::new panicked at {}: {}", p.loc, p.msg)))?;
                match e2 { Ok(sv) => suv_reads(c, &sv, &SortedUintVecConfig::default(), &[], "SortedUintVec::new")?, Err(e) => return Err(bad("ctor_err", format!("SortedUintVec::new() with the default configuration refused: {e}"))) } }
            Ok(())
        });
    } }
}
fn owned_pool_or_panic() -> zipora::SecureMemoryPool { match owned_pool() { Ok(p) => p, Err(f) => panic!("harness: {}", f.detail) } }

fn run_ext_intvec<T: PackedInt>(ctx: &mut Ctx, tn: &str, tbits: u32) {
    let mask = mask_of(tbits); let target = format!("iv_{tn}/from_slice");
    for idx in 0..ctx.n(30, 300) as u64 {
        ctx.case(&target, "clone_ext", idx, |c| {
            let kind = c.rng.below(NKINDS as u64) as u32; let len = if idx % 6 == 5 { iv_len(&mut c.rng, 1) } else { iv_len(&mut c.rng, 0) };
            let raw = gen_vals(&mut c.rng, kind, len, mask, tbits); let vals: Vec<T> = raw.iter().map(|&x| T::from_u64(x)).collect();
            c.input_str("kind", kind_name(kind)); c.input_str("len", &len.to_string()); c.input("vals_u64_le", &le_bytes(&raw));
            let ctor = *c.rng.pick(&[Ctor::FromSlice, Ctor::FromSlice, Ctor::Bulk, Ctor::Simd]);
            let iv = match catch(|| match ctor { Ctor::FromSlice => IntVec::<T>::from_slice(&vals), Ctor::Bulk => IntVec::<T>::from_slice_bulk(&vals), Ctor::Simd => IntVec::<T>::from_slice_bulk_simd(&vals) }) {
                Ok(Ok(v)) => v, Ok(Err(_)) => { c.note("ctor_err", 1); return Ok(()); } Err(p) => return Err(bad(&p.class(), format!("{ctor:?} n={len} panicked at {}: {}", p.loc, p.msg))) };
            c.set_nontrivial(len >= 2);
            // a copy answers every read like the container it was made from (which the other families compare with the input)
            let cl = catch(|| iv.clone()).map_err(|p| bad(&p.class(), format!("clone of {ctor:?} n={len} panicked at {}: {}", p.loc, p.msg)))?;
            ensure!(cl.len() == iv.len() && cl.is_empty() == iv.is_empty(), "clone_len", "clone len()={} original {}", cl.len(), iv.len());
            let idxs: Vec<usize> = if len > 3000 { let mut v: Vec<usize> = (0..200).chain(len - 200..len).collect(); for _ in 0..200 { v.push(c.rng.usize_below(len)); } v } else { (0..len).collect() };
            let mut cur = 0usize;
            let r = catch(|| { for &i in &idxs { cur = i; let (a, b) = (iv.get(i), cl.get(i)); if a != b { return Err((a, b)); } } Ok(()) }).map_err(|p| bad("get_panic", format!("{ctor:?} n={len}: get({cur}) on original / clone panicked at {}: {}", p.loc, p.msg)))?;
            if let Err((a, b)) = r { return Err(bad("clone_mismatch", format!("{ctor:?} n={len}: get({cur}) original {a:?} clone {b:?} (input {:?})", vals[cur]))); }
            c.ev(idxs.len() as u64);
            for k in [len, len + 1, usize::MAX] { let g = catch(|| cl.get(k)).map_err(|p| bad("oob_panic", format!("clone.get({k}) with len {len}: panic at {}: {}", p.loc, p.msg)))?; ensure!(g.is_none(), "oob_value", "clone.get({k}) with len {len} returned {g:?}"); }
            let ratio = iv.compression_ratio(); if !(ratio.is_finite() && ratio >= 0.0) { c.note("ratio_not_finite", 1); }
            Ok(())
        });
    }
}
fn run_ext_uintvector(ctx: &mut Ctx) {
    for idx in 0..ctx.n(40, 400) as u64 {
        ctx.case("uintvector/build_from", "api_ext", idx, |c| {
            let kind = c.rng.below(NKINDS as u64) as u32; let len = iv_len(&mut c.rng, 0);
            let vals: Vec<u32> = gen_vals(&mut c.rng, kind, len, u32::MAX as u64, 32).iter().map(|&x| x as u32).collect();
            c.input_str("kind", kind_name(kind)); c.input("vals_u32_le", &vals.iter().flat_map(|x| x.to_le_bytes()).collect::<Vec<u8>>());
            let uv = match catch(|| UintVector::build_from(&vals)) { Ok(Ok(v)) => v, Ok(Err(_)) => { c.note("ctor_err", 1); return Ok(()); }, Err(p) => return Err(bad(&p.class(), format!("build_from n={len} panicked at {}: {}", p.loc, p.msg))) };
            c.set_nontrivial(len >= 2);
            let mu = catch(|| uv.memory_usage()).map_err(|p| bad(&p.class(), format!("memory_usage() n={len} panicked at {}: {}", p.loc, p.msg)))?; if mu < size_of::<UintVector>() { c.note("memory_usage_lt_struct", 1); }
            uv_check(c, &uv, &vals, "build_from")
        });
    }
}

pub fn run(ctx: &mut Ctx) {
    run_intvec::<u8>(ctx, "u8", 8); run_intvec::<u16>(ctx, "u16", 16); run_intvec::<u32>(ctx, "u32", 32); run_intvec::<u64>(ctx, "u64", 64);
    run_intvec::<i8>(ctx, "i8", 8); run_intvec::<i16>(ctx, "i16", 16); run_intvec::<i32>(ctx, "i32", 32); run_intvec::<i64>(ctx, "i64", 64);
    run_uintvector(ctx);
    run_min0(ctx);
    run_zip(ctx);
    run_suv(ctx);
    run_oob_extreme(ctx);
    run_witnesses(ctx);
    // large-input families (appended after the existing cases so that their sequence numbers stay what they were)
    run_huge_intvec::<u8>(ctx, "u8", 8); run_huge_intvec::<u16>(ctx, "u16", 16); run_huge_intvec::<u32>(ctx, "u32", 32); run_huge_intvec::<u64>(ctx, "u64", 64);
    run_huge_intvec::<i8>(ctx, "i8", 8); run_huge_intvec::<i16>(ctx, "i16", 16); run_huge_intvec::<i32>(ctx, "i32", 32); run_huge_intvec::<i64>(ctx, "i64", 64);
    run_huge_uintvector(ctx);
    run_huge_min0_zip(ctx);
    run_huge_suv(ctx);
    // *_ext families (appended last)
    run_ext_min0_zip(ctx);
    run_ext_suv(ctx);
    run_ext_intvec::<u8>(ctx, "u8", 8); run_ext_intvec::<u16>(ctx, "u16", 16); run_ext_intvec::<u32>(ctx, "u32", 32); run_ext_intvec::<u64>(ctx, "u64", 64);
    run_ext_intvec::<i8>(ctx, "i8", 8); run_ext_intvec::<i16>(ctx, "i16", 16); run_ext_intvec::<i32>(ctx, "i32", 32); run_ext_intvec::<i64>(ctx, "i64", 64);
    run_ext_uintvector(ctx);
}
