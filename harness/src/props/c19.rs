//! C19 — file-backed structures reopen as written; damaged files are refused.
//!
//! Level: fault_enumeration. The parent process (this driver) writes a structure through the public API, snapshots the
//! file set at every sync point (S_0..S_k, with the logical model at every operation boundary), derives fault states from
//! consecutive snapshots (truncations, single 4 KiB block roll-backs, header/data swaps, zero-filled / extended tails,
//! directory-store record faults) and hands every state to a CHILD process (`zv run --prop C19` with env ZV_C19_CHILD)
//! that performs open + full read-back. A child killed by a signal is a violation `child_crash:<SIG>`.
//!
//! Oracle on a clean state: open Ok and content == model at that sync point.
//! Oracle on a fault state: open Err, or Ok and content == the model at some operation boundary up to the newer snapshot.
//!
//! Targets: mmapvec/<preset>, io_mmap, plain, reorder, zipoffset, sa_dict, dictzip, extsort (in-process, see below).
use crate::ctx::{catch, fail, inconclusive, Case, Ctx, Fail, Res};
use crate::gen;
use crate::rng::Rng;
use serde_json::{json, Value};
use std::collections::{BTreeMap, BTreeSet};
use std::io::Write;
use std::path::{Path, PathBuf};
use zipora::blob_store::{BlobStore, PlainBlobStore, ZReorderMap, ZReorderMapBuilder, ZipOffsetBlobStore, ZipOffsetBlobStoreBuilder, ZipOffsetBlobStoreConfig};
use zipora::blob_store::traits::IterableBlobStore;
use zipora::compression::dict_zip::{DictZipBlobStore, DictZipBlobStoreBuilder, DictZipConfig, SuffixArrayDictionary, SuffixArrayDictionaryConfig};
use zipora::io::{AccessPattern, DataInput, DataOutput, MemoryMappedInput, MemoryMappedOutput};
use zipora::memory::{MmapVec, MmapVecConfig};

const BLK: usize = 4096;
const ENV: &str = "ZV_C19_CHILD";

fn bad(oracle: &str, d: String) -> Fail { Fail { oracle: oracle.to_string(), detail: d } }

// =============================================================================================
// element types for MmapVec<T>
// =============================================================================================
pub trait El: Copy + PartialEq + std::fmt::Debug + 'static {
    const SZ: usize;
    fn mk(x: u64) -> Self;
    fn put(&self, out: &mut Vec<u8>);
}
impl El for u8 { const SZ: usize = 1; fn mk(x: u64) -> u8 { (x % 255) as u8 + 1 } fn put(&self, o: &mut Vec<u8>) { o.push(*self) } }
impl El for u32 { const SZ: usize = 4; fn mk(x: u64) -> u32 { (x as u32) | 0x0101_0101 } fn put(&self, o: &mut Vec<u8>) { o.extend_from_slice(&self.to_le_bytes()) } }
impl El for u64 { const SZ: usize = 8; fn mk(x: u64) -> u64 { x | 0x0101_0101_0101_0101 } fn put(&self, o: &mut Vec<u8>) { o.extend_from_slice(&self.to_le_bytes()) } }
impl El for [u8; 3] { const SZ: usize = 3; fn mk(x: u64) -> [u8; 3] { let y = x | 0x010101; [y as u8, (y >> 8) as u8, (y >> 16) as u8] } fn put(&self, o: &mut Vec<u8>) { o.extend_from_slice(self) } }
fn el_bytes<T: El>(v: &[T]) -> Vec<u8> { let mut o = Vec::with_capacity(v.len() * T::SZ); for x in v { x.put(&mut o); } o }
fn el_size(t: &str) -> usize { match t { "u8" => 1, "u32" => 4, "u64" => 8, _ => 3 } }

fn preset(name: &str) -> MmapVecConfig {
    match name {
        "default" => MmapVecConfig::default(),
        "read_only" => MmapVecConfig::read_only(),
        "persistent_cache" => MmapVecConfig::persistent_cache(),
        "perf" => MmapVecConfig::performance_optimized(),
        "memopt" => MmapVecConfig::memory_optimized(),
        "realtime" => MmapVecConfig::realtime(),
        "large" => MmapVecConfig::large_dataset(),
        s if s.starts_with("bld:") => { // bld:<cap>:<read_only 0/1>:<populate 0/1>:<huge 0/1>  (every MmapVecConfigBuilder setter)
            let p: Vec<&str> = s.split(':').collect();
            let f = |i: usize| p.get(i).map(|x| *x == "1").unwrap_or(false);
            let cap = p.get(1).and_then(|x| x.parse().ok()).unwrap_or(8usize);
            MmapVecConfig::builder().with_initial_capacity(cap).with_growth_factor(1.5).with_read_only(f(2)).with_populate_pages(f(3)).with_huge_pages(f(4)).with_sync_on_write(false).build()
        }
        s => { // small:<cap>:<growth*1000>:<sync_on_write 0/1>
            let p: Vec<&str> = s.split(':').collect();
            let cap = p.get(1).and_then(|x| x.parse().ok()).unwrap_or(8usize);
            let g = p.get(2).and_then(|x| x.parse::<u64>().ok()).unwrap_or(1500) as f64 / 1000.0;
            let sow = p.get(3).map(|x| *x == "1").unwrap_or(false);
            MmapVecConfig::builder().with_initial_capacity(cap).with_growth_factor(g).with_sync_on_write(sow).build()
        }
    }
}

// =============================================================================================
// CHILD side
// =============================================================================================
enum CR { Ok { len: u64, content: Vec<u8>, notes: Vec<(String, u64)> }, Err(String), Incons(String) }

fn line(f: &mut std::fs::File, v: Value) { let mut s = v.to_string(); s.push('\n'); let _ = f.write_all(s.as_bytes()); }

fn child_main(spec: &str) {
    let v: Value = match serde_json::from_str(spec) { Ok(v) => v, Err(_) => return };
    let out = match v["out"].as_str() { Some(o) => o.to_string(), None => return };
    let jobs: Vec<Value> = if let Some(f) = v["jobs_file"].as_str() {
        std::fs::read(f).ok().and_then(|b| serde_json::from_slice(&b).ok()).unwrap_or_default()
    } else { v["jobs"].as_array().cloned().unwrap_or_default() };
    let mut outf = match std::fs::OpenOptions::new().create(true).append(true).open(&out) { Ok(f) => f, Err(_) => return };
    for job in &jobs {
        let j = job["j"].as_u64().unwrap_or(0);
        line(&mut outf, json!({"j": j, "st": "begin"}));
        let r = catch(|| child_job(job, j, &mut outf));
        match r {
            Ok(CR::Ok { len, content, notes }) => {
                if let Some(cf) = job["cfile"].as_str() { let _ = std::fs::write(cf, &content); }
                let n: BTreeMap<String, u64> = notes.into_iter().collect();
                line(&mut outf, json!({"j": j, "st": "done", "r": "ok", "len": len, "clen": content.len(), "notes": n}));
            }
            Ok(CR::Err(e)) => line(&mut outf, json!({"j": j, "st": "done", "r": "err", "msg": e.chars().take(300).collect::<String>()})),
            Ok(CR::Incons(e)) => line(&mut outf, json!({"j": j, "st": "done", "r": "incons", "msg": e})),
            Err(p) => line(&mut outf, json!({"j": j, "st": "done", "r": "panic", "msg": format!("{} @ {}", p.msg.chars().take(200).collect::<String>(), p.loc), "class": p.class()})),
        }
    }
}

fn child_job(job: &Value, j: u64, outf: &mut std::fs::File) -> CR {
    let path = PathBuf::from(job["path"].as_str().unwrap_or(""));
    match job["k"].as_str().unwrap_or("") {
        "mmapvec" => { let open = job["open"].as_str().unwrap_or("default"); match job["t"].as_str().unwrap_or("u8") {
            "u8" => child_mmapvec::<u8>(&path, open, j, outf), "u32" => child_mmapvec::<u32>(&path, open, j, outf),
            "u64" => child_mmapvec::<u64>(&path, open, j, outf), _ => child_mmapvec::<[u8; 3]>(&path, open, j, outf) } }
        "io" => child_io(&path, job),
        "plain" => child_plain(&path),
        "reorder" => child_reorder(&path, j, outf),
        "zipoffset" => child_zipoffset(&path),
        "sadict" => child_sadict(&path, job),
        "dictzip" => child_dictzip(&path, job),
        "io_api" => child_io_api(&path, job),
        "reorder_cursor" => child_reorder_cursor(&path, j, outf),
        "zipoffset_cached" => child_zipoffset_cached(&path),
        "sadict_m" => child_sadict_m(&path, job),
        "dictzip_load" => child_dictzip_load(&path, job),
        k => CR::Incons(format!("unknown job kind {k}")),
    }
}

fn child_mmapvec<T: El>(path: &Path, open: &str, j: u64, outf: &mut std::fs::File) -> CR {
    let v = match MmapVec::<T>::open(path, preset(open)) { Ok(v) => v, Err(e) => return CR::Err(e.to_string()) };
    let len = v.len(); let cap = v.capacity();
    line(outf, json!({"j": j, "st": "opened", "len": len as u64, "cap": cap as u64}));
    if (len as u128) * (T::SZ as u128) > (1u128 << 31) { return CR::Incons(format!("absurd_len {len}")); }
    let mut out = Vec::with_capacity(len * T::SZ);
    for i in 0..len { match v.get(i) { Some(x) => x.put(&mut out), None => return CR::Incons(format!("get({i}) is None with len {len}")) } }
    if v.get(len).is_some() { return CR::Incons(format!("get(len={len}) is Some")); }
    let s = v.as_slice();
    if s.len() != len { return CR::Incons(format!("as_slice().len()={} len()={len}", s.len())); }
    if el_bytes(s) != out { return CR::Incons("as_slice differs from get(i)".into()); }
    let it: Vec<T> = (&v).into_iter().copied().collect();
    if el_bytes(&it) != out { return CR::Incons("iteration differs from get(i)".into()); }
    if v.is_empty() != (len == 0) { return CR::Incons("is_empty".into()); }
    let st = v.stats(); if st.len != len || st.capacity != cap { return CR::Incons("stats() disagrees with len()/capacity()".into()); }
    CR::Ok { len: len as u64, content: out, notes: vec![("cap".into(), cap as u64)] }
}

/// typed record codes used by the io_mmap target: b=u8 h=u16 w=u32 q=u64 v=varint s=length-prefixed string
fn child_io(path: &Path, job: &Value) -> CR {
    let pat = match job["pat"].as_str().unwrap_or("unk") { "seq" => AccessPattern::Sequential, "rand" => AccessPattern::Random, "mixed" => AccessPattern::Mixed, _ => AccessPattern::Unknown };
    let mut inp = match MemoryMappedInput::from_path_with_pattern(path, pat) { Ok(i) => i, Err(e) => return CR::Err(e.to_string()) };
    let n = inp.len();
    let strat = format!("{:?}", inp.strategy());
    // raw read in uneven chunks
    let mut raw = Vec::with_capacity(n);
    let mut k = 0usize;
    while inp.remaining() > 0 { let want = [1usize, 7, 64, 4096, 3, 1000, 65536][k % 7].min(inp.remaining()); k += 1;
        match inp.read_slice(want) { Ok(d) => { if d.len() != want { return CR::Incons("read_slice short".into()); } raw.extend_from_slice(&d) } Err(e) => return CR::Incons(format!("read_slice({want}) inside len failed at {}: {e}", inp.position())) } }
    if raw.len() != n { return CR::Incons(format!("read {} of len {}", raw.len(), n)); }
    if inp.read_slice(1).is_ok() { return CR::Incons("read past end succeeded".into()); }
    // structured read
    let mut recs: Vec<u8> = Vec::new(); let mut nrec = 0u64;
    if inp.seek(0).is_err() { return CR::Incons("seek(0) failed".into()); }
    for ch in job["types"].as_str().unwrap_or("").chars() {
        let r: Result<Vec<u8>, String> = match ch {
            'b' => inp.read_u8().map(|x| vec![x]).map_err(|e| e.to_string()),
            'h' => inp.read_u16().map(|x| x.to_le_bytes().to_vec()).map_err(|e| e.to_string()),
            'w' => inp.read_u32().map(|x| x.to_le_bytes().to_vec()).map_err(|e| e.to_string()),
            'q' => inp.read_u64().map(|x| x.to_le_bytes().to_vec()).map_err(|e| e.to_string()),
            'v' => inp.read_var_int().map(|x| x.to_le_bytes().to_vec()).map_err(|e| e.to_string()),
            _ => inp.read_length_prefixed_string().map(|s| s.into_bytes()).map_err(|e| e.to_string()),
        };
        match r { Ok(b) => { recs.push(ch as u8); recs.extend_from_slice(&(b.len() as u32).to_le_bytes()); recs.extend_from_slice(&b); nrec += 1; } Err(_) => break }
    }
    drop(inp);
    // writer-side reopen: capacity must be the file length
    let flen = std::fs::metadata(path).map(|m| m.len()).unwrap_or(0);
    let mut notes = vec![(format!("strategy:{strat}"), 1u64), ("nrec".to_string(), nrec)];
    match MemoryMappedOutput::open(path) { Ok(o) => { if o.capacity() as u64 != flen || o.position() != 0 { return CR::Incons(format!("Output::open capacity {} file {}", o.capacity(), flen)); } notes.push(("out_open_ok".into(), 1)); } Err(_) => notes.push(("out_open_err".into(), 1)) }
    let mut content = (raw.len() as u64).to_le_bytes().to_vec(); content.extend_from_slice(&raw); content.extend_from_slice(&recs);
    CR::Ok { len: n as u64, content, notes }
}

fn child_plain(path: &Path) -> CR {
    let store = match PlainBlobStore::new(path) { Ok(s) => s, Err(e) => return CR::Err(e.to_string()) };
    let ids: Vec<u32> = store.iter_ids().collect();
    if store.len() != ids.len() { return CR::Incons(format!("len()={} iter_ids={}", store.len(), ids.len())); }
    let mut out = Vec::new();
    for &id in &ids {
        if !store.contains(id) { return CR::Incons(format!("iter_ids yields {id} but contains() is false")); }
        let d = match store.get(id) { Ok(d) => d, Err(e) => return CR::Incons(format!("get({id}) of listed id failed: {e}")) };
        match store.size(id) { Ok(Some(n)) if n == d.len() => {} other => return CR::Incons(format!("size({id})={other:?} get len {}", d.len())) }
        out.extend_from_slice(&id.to_le_bytes()); out.extend_from_slice(&(d.len() as u64).to_le_bytes()); out.extend_from_slice(&d);
    }
    CR::Ok { len: ids.len() as u64, content: out, notes: vec![] }
}

fn child_reorder(path: &Path, j: u64, outf: &mut std::fs::File) -> CR {
    let mut m = match ZReorderMap::open(path) { Ok(m) => m, Err(e) => return CR::Err(e.to_string()) };
    let size = m.size();
    line(outf, json!({"j": j, "st": "opened", "len": size as u64, "cap": 0}));
    let mut out = Vec::new(); let mut n = 0usize;
    while n < 50_000_000 { match m.next() { Some(v) => { out.extend_from_slice(&(v as u64).to_le_bytes()); n += 1; } None => break } }
    let mut notes = vec![("declared".to_string(), size as u64), ("yielded".to_string(), n as u64)];
    if !m.eof() { notes.push(("not_eof_after_none".into(), 1)); }
    CR::Ok { len: size as u64, content: out, notes }
}

fn canon_blobs<S: BlobStore>(s: &S) -> Result<Vec<u8>, String> {
    let mut out = (s.len() as u64).to_le_bytes().to_vec();
    for i in 0..s.len() { let d = s.get(i as u32).map_err(|e| format!("get({i}) failed: {e}"))?; out.extend_from_slice(&(d.len() as u64).to_le_bytes()); out.extend_from_slice(&d); }
    Ok(out)
}
fn child_zipoffset(path: &Path) -> CR {
    let s = match ZipOffsetBlobStore::load_from_file(path) { Ok(s) => s, Err(e) => return CR::Err(e.to_string()) };
    match canon_blobs(&s) { Ok(c) => CR::Ok { len: s.len() as u64, content: c, notes: vec![] }, Err(e) => CR::Incons(e) }
}

fn read_probes(job: &Value) -> Vec<Vec<u8>> {
    let mut v = Vec::new();
    if let Some(p) = job["aux"].as_str() { if let Ok(b) = std::fs::read(p) { let mut i = 0; while i + 4 <= b.len() { let n = u32::from_le_bytes([b[i], b[i + 1], b[i + 2], b[i + 3]]) as usize; i += 4; if i + n > b.len() { break; } v.push(b[i..i + n].to_vec()); i += n; } } }
    v
}
fn write_probes(path: &Path, probes: &[Vec<u8>]) { let mut b = Vec::new(); for p in probes { b.extend_from_slice(&(p.len() as u32).to_le_bytes()); b.extend_from_slice(p); } let _ = std::fs::write(path, b); }

/// canonical logical content of a dictionary: text, pattern-length bounds, longest-match length for every probe
fn canon_dict(d: &mut SuffixArrayDictionary, probes: &[Vec<u8>]) -> Result<Vec<u8>, String> {
    let mut out = Vec::new();
    let t = d.dictionary_text().to_vec();
    out.extend_from_slice(&(t.len() as u64).to_le_bytes()); out.extend_from_slice(&t);
    out.extend_from_slice(&(d.config().min_pattern_length as u64).to_le_bytes()); out.extend_from_slice(&(d.config().max_pattern_length as u64).to_le_bytes());
    if d.data() != &t[..] || d.dictionary_size() != t.len() { return Err("data()/dictionary_size() disagree with dictionary_text()".into()); }
    for p in probes {
        let m = d.find_longest_match(p, 0, p.len()).map_err(|e| format!("find_longest_match failed: {e}"))?;
        let l = match m { Some(m) => { if m.dict_position + m.length > t.len() || t[m.dict_position..m.dict_position + m.length] != p[..m.length.min(p.len())] { return Err(format!("match (pos {}, len {}) does not equal the probe prefix", m.dict_position, m.length)); } m.length as u64 } None => u64::MAX };
        out.extend_from_slice(&l.to_le_bytes());
    }
    Ok(out)
}
fn child_sadict(path: &Path, job: &Value) -> CR {
    let mut d = match SuffixArrayDictionary::load_from_file(path) { Ok(d) => d, Err(e) => return CR::Err(e.to_string()) };
    let probes = read_probes(job);
    match canon_dict(&mut d, &probes) { Ok(c) => CR::Ok { len: d.dictionary_size() as u64, content: c, notes: vec![("cache_states".into(), d.cache_states() as u64)] }, Err(e) => CR::Incons(e) }
}
fn child_dictzip(path: &Path, job: &Value) -> CR {
    let mut s = match DictZipBlobStore::from_dictionary_file(path, DictZipConfig::default()) { Ok(s) => s, Err(e) => return CR::Err(e.to_string()) };
    let probes = read_probes(job);
    let mut out = Vec::new();
    for p in &probes {
        let ok = match s.put(p) { Ok(id) => matches!(s.get(id), Ok(ref d) if d == p), Err(_) => false };
        out.push(ok as u8);
    }
    CR::Ok { len: probes.len() as u64, content: out, notes: vec![] }
}

// =============================================================================================
// PARENT side: child runner
// =============================================================================================
#[derive(Debug)]
enum Out {
    Crash { sig: String, opened: Option<u64> },
    Timeout,
    Err(String),
    Panic { class: String, msg: String },
    Incons(String),
    Ok { len: u64, content: Vec<u8>, notes: BTreeMap<String, u64> },
    Lost(String),
}

fn sig_name(s: i32) -> String { match s { 11 => "SIGSEGV".into(), 7 => "SIGBUS".into(), 6 => "SIGABRT".into(), 4 => "SIGILL".into(), 8 => "SIGFPE".into(), 9 => "SIGKILL".into(), n => format!("SIG{n}") } }

/// Run all jobs in child processes (one process handles as many jobs as it survives; after a crash the rest is
/// resumed in a fresh child). `jobs[i]` gets "j" and "cfile" filled in.
fn run_jobs(dir: &Path, jobs: &mut Vec<Value>, verbose: bool) -> Vec<Out> {
    use std::os::unix::process::ExitStatusExt;
    let n = jobs.len();
    for (i, j) in jobs.iter_mut().enumerate() { j["j"] = json!(i as u64); j["cfile"] = json!(dir.join(format!("c{i}.out")).to_string_lossy().to_string()); }
    let mut outs: Vec<Option<Out>> = (0..n).map(|_| None).collect();
    let exe = match std::env::current_exe() { Ok(e) => e, Err(e) => { return (0..n).map(|_| Out::Lost(format!("current_exe: {e}"))).collect(); } };
    let mut start = 0usize; let mut round = 0u32;
    while start < n {
        round += 1;
        // a job marked "solo" gets a fresh process of its own (an earlier job's leaked mappings must not turn a wild read into a quiet one)
        let end = if jobs[start]["solo"].as_bool().unwrap_or(false) { start + 1 } else { (start + 1..n).find(|&i| jobs[i]["solo"].as_bool().unwrap_or(false)).unwrap_or(n) };
        let jf = dir.join(format!("jobs{round}.json")); let of = dir.join(format!("res{round}.jsonl"));
        if std::fs::write(&jf, serde_json::to_vec(&jobs[start..end]).unwrap_or_default()).is_err() { for o in outs.iter_mut().skip(start) { *o = Some(Out::Lost("cannot write jobs file".into())); } break; }
        let spec = json!({"out": of.to_string_lossy(), "jobs_file": jf.to_string_lossy()}).to_string();
        let mut cmd = std::process::Command::new(&exe);
        cmd.args(["run", "--prop", "C19"]).env(ENV, &spec).stdin(std::process::Stdio::null()).stdout(std::process::Stdio::null());
        if !verbose { cmd.stderr(std::process::Stdio::null()); }
        let mut child = match cmd.spawn() { Ok(c) => c, Err(e) => { for o in outs.iter_mut().skip(start) { *o = Some(Out::Lost(format!("spawn: {e}"))); } break; } };
        let t0 = std::time::Instant::now(); let limit = std::time::Duration::from_secs(120);
        let mut sleep_us = 200u64;
        let status = loop {
            match child.try_wait() { Ok(Some(s)) => break Some(s), Ok(None) => {}, Err(_) => break None }
            if t0.elapsed() > limit { let _ = child.kill(); let _ = child.wait(); break None; }
            std::thread::sleep(std::time::Duration::from_micros(sleep_us)); sleep_us = (sleep_us * 2).min(5000);
        };
        // parse the result lines
        let text = std::fs::read_to_string(&of).unwrap_or_default();
        let mut begun: Option<u64> = None; let mut opened: BTreeMap<u64, u64> = BTreeMap::new(); let mut last_done: Option<u64> = None;
        for l in text.lines() {
            let v: Value = match serde_json::from_str(l) { Ok(v) => v, Err(_) => continue };
            let j = v["j"].as_u64().unwrap_or(u64::MAX); if j as usize >= n { continue; }
            match v["st"].as_str().unwrap_or("") {
                "begin" => begun = Some(j),
                "opened" => { opened.insert(j, v["len"].as_u64().unwrap_or(0)); }
                "done" => {
                    last_done = Some(j);
                    let o = match v["r"].as_str().unwrap_or("") {
                        "ok" => { let cf = jobs[j as usize]["cfile"].as_str().unwrap_or("").to_string(); let content = std::fs::read(&cf).unwrap_or_default(); let _ = std::fs::remove_file(&cf);
                            let mut notes = BTreeMap::new(); if let Some(m) = v["notes"].as_object() { for (k, x) in m { notes.insert(k.clone(), x.as_u64().unwrap_or(0)); } }
                            if content.len() as u64 != v["clen"].as_u64().unwrap_or(0) { Out::Lost("content file length mismatch".into()) } else { Out::Ok { len: v["len"].as_u64().unwrap_or(0), content, notes } } }
                        "err" => Out::Err(v["msg"].as_str().unwrap_or("").to_string()),
                        "panic" => Out::Panic { class: v["class"].as_str().unwrap_or("panic").to_string(), msg: v["msg"].as_str().unwrap_or("").to_string() },
                        _ => Out::Incons(v["msg"].as_str().unwrap_or("").to_string()),
                    };
                    outs[j as usize] = Some(o);
                }
                _ => {}
            }
        }
        let _ = std::fs::remove_file(&jf); let _ = std::fs::remove_file(&of);
        // where did the child stop?
        let open_job = match (begun, last_done) { (Some(b), Some(d)) if b == d => None, (Some(b), _) => Some(b as usize), _ => None };
        match (status, open_job) {
            (Some(s), None) if s.success() && outs[start..end].iter().all(|o| o.is_some()) => { start = end; }
            (Some(s), Some(k)) => {
                let what = if let Some(sg) = s.signal() { sig_name(sg) } else { format!("exit_code_{}", s.code().unwrap_or(-1)) };
                outs[k] = Some(Out::Crash { sig: what, opened: opened.get(&(k as u64)).cloned() });
                for i in start..k { if outs[i].is_none() { outs[i] = Some(Out::Lost("no result line".into())); } }
                start = k + 1;
            }
            (None, Some(k)) => { outs[k] = Some(Out::Timeout); for i in start..k { if outs[i].is_none() { outs[i] = Some(Out::Lost("no result line".into())); } } start = k + 1; }
            (s, None) => {
                // child ended without an open job but results are missing (died between jobs / before the first one)
                let first_missing = (start..end).find(|&i| outs[i].is_none());
                match first_missing { Some(k) => { let what = match s { Some(s) => if let Some(sg) = s.signal() { sig_name(sg) } else { format!("exit_code_{}", s.code().unwrap_or(-1)) }, None => "timeout".into() };
                        outs[k] = Some(Out::Lost(format!("child ended ({what}) before job {k}"))); start = k + 1; }
                    None => start = end }
            }
        }
        if round > 5000 { break; }
    }
    outs.into_iter().map(|o| o.unwrap_or(Out::Lost("not run".into()))).collect()
}

// =============================================================================================
// fault states
// =============================================================================================
#[derive(Clone)]
struct Snap { bytes: Vec<u8>, upto: usize, model: usize }
/// history of one single-file structure: snapshots at sync points, models at every operation boundary
struct Hist { snaps: Vec<Snap>, models: Vec<Vec<u8>>, hdr: usize, esz: usize, dirty: Option<(Vec<u8>, usize)>, extra: Vec<(String, Vec<u8>)> }
/// one state handed to the child: file bytes + acceptable models[lo..hi]
struct FState { desc: String, bytes: Vec<u8>, lo: usize, hi: usize, clean: bool, solo: bool }

fn trunc_lens(n: usize, hdr: usize, esz: usize, rng: &mut Rng, cap: usize, all_upto: usize) -> Vec<usize> {
    if n == 0 { return vec![]; }
    if n <= all_upto { return (0..n).collect(); }
    let esz = esz.max(1);
    let mut must = BTreeSet::new();
    for x in 0..=(hdr + 2 * esz + 1).min(n - 1) { must.insert(x); }
    let nb = n / BLK; let step = (nb / 12).max(1);
    let mut k = 1; while k <= nb { for d in [-1i64, 0, 1] { let p = (k * BLK) as i64 + d; if p >= 0 && (p as usize) < n { must.insert(p as usize); } } k += step; }
    for p in [65535usize, 65536, 65537, 65536 + hdr, n - 1, n.saturating_sub(2), n.saturating_sub(esz), n.saturating_sub(esz + 1)] { if p < n { must.insert(p); } }
    if n > hdr { for _ in 0..10 { let k = rng.usize_below((n - hdr) / esz + 1); for d in [-1i64, 0, 1] { let p = (hdr + k * esz) as i64 + d; if p >= 0 && (p as usize) < n { must.insert(p as usize); } } } }
    let mut v: Vec<usize> = must.into_iter().collect();
    if v.len() > cap {
        let keep: Vec<usize> = v.iter().cloned().filter(|&x| x <= hdr + 1).collect();
        let mut rest: Vec<usize> = v.into_iter().filter(|&x| x > hdr + 1).collect(); rng.shuffle(&mut rest); rest.truncate(cap.saturating_sub(keep.len()).max(8));
        v = keep; v.extend(rest);
    } else { while v.len() < cap { v.push(rng.usize_below(n)); } }
    v.sort(); v.dedup(); v
}

fn blocks_differ(a: &[u8], b: &[u8], k: usize) -> bool { let (s, e) = (k * BLK, ((k + 1) * BLK)); let sa = &a[s.min(a.len())..e.min(a.len())]; let sb = &b[s.min(b.len())..e.min(b.len())]; sa != sb }
fn with_block(base: &[u8], from: &[u8], k: usize) -> Vec<u8> { let mut v = base.to_vec(); let (s, e) = (k * BLK, ((k + 1) * BLK).min(base.len()).min(from.len())); if s < e { v[s..e].copy_from_slice(&from[s..e]); } v }
fn resized(mut v: Vec<u8>, n: usize) -> Vec<u8> { v.resize(n, 0); v }

/// Fault states of one family for the snapshot pair ending at index `i` (A = snaps[i-1] if any, B = snaps[i]).
fn fault_states(fam: &str, h: &Hist, i: usize, rng: &mut Rng, quick: bool) -> Vec<FState> {
    let b = &h.snaps[i]; let a = if i > 0 { Some(&h.snaps[i - 1]) } else { None };
    let hi = b.upto; let n = b.bytes.len();
    let big = n > 256 * 1024;
    let cap = match (quick, big) { (true, false) => 140, (true, true) => 20, (false, false) => 600, (false, true) => 60 };
    let mut out = Vec::new();
    let mut push = |desc: String, bytes: Vec<u8>| out.push(FState { desc, bytes, lo: 0, hi, clean: false, solo: false });
    match fam {
        "trunc" => { for l in trunc_lens(n, h.hdr, h.esz, rng, cap, if quick { 600 } else { 4096 }) { push(format!("S{i} truncated to {l} of {n}"), b.bytes[..l].to_vec()); } }
        "block_rollback" => { if let Some(a) = a {
            let nb = (n.min(a.bytes.len()) + BLK - 1) / BLK; let mut ks: Vec<usize> = (0..nb).filter(|&k| blocks_differ(&a.bytes, &b.bytes, k)).collect();
            rng.shuffle(&mut ks); ks.truncate(cap / 2); ks.sort();
            for &k in &ks { push(format!("S{i} with 4K block {k} rolled back to S{}", i - 1), with_block(&b.bytes, &a.bytes, k)); }
            for &k in &ks { push(format!("S{} with 4K block {k} already new (S{i})", i - 1), with_block(&a.bytes, &b.bytes, k)); }
        } }
        "hdr_swap" => { if let Some(a) = a { let hd = h.hdr.max(1); if a.bytes.len() >= hd && n >= hd {
            let mut hn = b.bytes[..hd].to_vec(); hn.extend_from_slice(&a.bytes[hd..]);
            push(format!("header of S{i} + data and length of S{}", i - 1), hn.clone());
            push(format!("header of S{i} + data of S{} + length of S{i} (zero fill)", i - 1), resized(hn, n));
            let mut ho = a.bytes[..hd].to_vec(); ho.extend_from_slice(&b.bytes[hd..]);
            push(format!("header of S{} + data and length of S{i}", i - 1), ho.clone());
            push(format!("header of S{} + data of S{i} cut/padded to the length of S{}", i - 1, i - 1), resized(ho, a.bytes.len()));
            // partial header update: only the first / second half of the header is new
            if hd >= 16 { let mut p1 = a.bytes.clone(); p1[..hd / 2].copy_from_slice(&b.bytes[..hd / 2]); push(format!("S{} with first half of the header from S{i}", i - 1), p1);
                let mut p2 = b.bytes.clone(); p2[..hd / 2].copy_from_slice(&a.bytes[..hd / 2]); push(format!("S{i} with first half of the header from S{}", i - 1), p2); }
        } } }
        "extend_zero" => {
            if let Some(a) = a { if a.bytes.len() < n { push(format!("S{} extended with zeros to the length of S{i}", i - 1), resized(a.bytes.clone(), n)); } }
            push(format!("S{i} extended by one zero block"), resized(b.bytes.clone(), n + BLK));
            let mut offs: BTreeSet<usize> = BTreeSet::new();
            for p in [h.hdr, h.hdr + h.esz.max(1), n / 2, n.saturating_sub(h.esz.max(1)), n.saturating_sub(1)] { if p < n { offs.insert(p); } }
            for k in 1..=(n / BLK).min(6) { offs.insert(k * BLK); }
            for _ in 0..6 { if n > 0 { offs.insert(rng.usize_below(n)); } }
            for o in offs { if o < n { let mut v = b.bytes.clone(); for x in &mut v[o..] { *x = 0; } push(format!("S{i} with tail from byte {o} zero-filled"), v); } }
        }
        _ => {}
    }
    out
}

fn clean_states(h: &Hist) -> Vec<FState> {
    let mut v: Vec<FState> = h.snaps.iter().enumerate().map(|(i, s)| FState { desc: format!("clean S{i}"), bytes: s.bytes.clone(), lo: s.model, hi: s.model + 1, clean: true, solo: false }).collect();
    // never synced at all: there is no sync point to vouch for anything, a refusal is fine
    if let Some((bytes, lo)) = &h.dirty { v.push(FState { desc: "dropped without final sync".into(), bytes: bytes.clone(), lo: *lo, hi: h.models.len(), clean: !h.snaps.is_empty(), solo: false }); }
    v
}

// =============================================================================================
// evaluation
// =============================================================================================
#[derive(Default)]
struct Agg { states: u64, open_err: u64, ok_match: u64, timeouts: u64, lost: u64, viol: BTreeMap<String, (u64, String)>, mismatch_class: &'static str, crashes_norm: BTreeMap<String, u64> }
impl Agg { fn for_family(fam: &str) -> Agg { let mut a = Agg::default(); a.mismatch_class = match fam { "trunc" | "sync_fsize_limit" => "content_mismatch", "newest_trunc" | "newest_zero" | "put_fsize_limit" => "partial_record_visible", _ => "torn_state_accepted" }; a } }
impl Agg {
    fn v(&mut self, class: &str, d: String) { let e = self.viol.entry(class.to_string()).or_insert((0, d)); e.0 += 1; }
    fn prio(class: &str) -> u32 { if class == "declared_count_not_delivered" { 3 } else if class.starts_with("child_crash") { 9 } else if class.starts_with("panic") || class == "read_panic" { 8 } else if class == "api_inconsistent" { 7 } else if class == "clean_reopen_err" { 6 } else if class == "exposes_beyond_file" { 5 } else if class == "clean_mismatch" { 4 } else { 1 } }
    fn finish(self, c: &mut Case) -> Res {
        c.ev(self.states); c.note("states", self.states); c.note("open_err", self.open_err); c.note("open_ok_match", self.ok_match);
        for (k, (n, _)) in &self.viol { c.note(&format!("viol:{k}"), *n); }
        for (k, n) in &self.crashes_norm { c.note(&format!("crash:{k}"), *n); }
        if !self.viol.is_empty() {
            let top = self.viol.keys().max_by_key(|k| (Agg::prio(k), std::cmp::Reverse((*k).clone()))).unwrap().clone();
            let total: u64 = self.viol.values().map(|x| x.0).sum();
            let mut d = format!("{total} of {} states violate. ", self.states);
            for (k, (n, first)) in &self.viol { d.push_str(&format!("[{k} x{n}; first: {first}] ")); }
            return Err(bad(&top, d));
        }
        if self.timeouts > 0 || self.lost > 0 { return inconclusive(format!("{} child timeouts, {} lost results", self.timeouts, self.lost)); }
        Ok(())
    }
}

fn first_diff(a: &[u8], b: &[u8]) -> usize { a.iter().zip(b.iter()).position(|(x, y)| x != y).unwrap_or(a.len().min(b.len())) }

/// Judge one child outcome. `models` = all operation-boundary models; acceptable = models[st.lo..st.hi].
/// `vec_hdr_esz` = Some((hdr, esz)) for element containers whose child reports the element count (exposes_beyond_file check).
fn judge(agg: &mut Agg, st: &FState, o: &Out, models: &[Vec<u8>], vec_hdr_esz: Option<(usize, usize)>) { judge2(agg, st, o, models, vec_hdr_esz, None) }
/// `decl` = Some(bytes per declared element): the child reports the declared element count as `len`; fewer delivered elements get their own class
fn judge2(agg: &mut Agg, st: &FState, o: &Out, models: &[Vec<u8>], vec_hdr_esz: Option<(usize, usize)>, decl: Option<usize>) {
    agg.states += 1;
    let flen = st.bytes.len();
    match o {
        Out::Crash { sig, opened } => {
            let d = format!("{} (file {flen} bytes; open returned Ok with len {:?} before the child died with {sig})", st.desc, opened);
            // whether a read beyond the mapping faults depends on the address-space layout; for states that are flagged from the
            // input alone (header-declared data ends beyond the mapping, `solo`) the class is therefore always exposes_beyond_file
            // and the signal is kept as a counter (note `crash:<SIG>`) and in the detail
            if st.solo && vec_hdr_esz.is_some() && opened.is_some() { agg.crashes_norm.entry(sig.clone()).and_modify(|x| *x += 1).or_insert(1); agg.v("exposes_beyond_file", d); } else { agg.v(&format!("child_crash:{sig}"), d); }
        }
        Out::Timeout => agg.timeouts += 1,
        Out::Lost(_) => agg.lost += 1,
        Out::Panic { class, msg } => agg.v(class, format!("{}: panic in open/read: {msg}", st.desc)),
        Out::Incons(m) => agg.v("api_inconsistent", format!("{}: {m}", st.desc)),
        Out::Err(e) => { if st.clean { agg.v("clean_reopen_err", format!("{}: open failed: {e}", st.desc)); } else { agg.open_err += 1; } }
        Out::Ok { len, content, .. } => {
            if models[st.lo..st.hi.min(models.len())].iter().any(|m| m == content) { agg.ok_match += 1; return; }
            let nearest = &models[(st.hi.min(models.len())).saturating_sub(1)];
            let d = format!("{}: open Ok, {} elements / {} content bytes; equals no model in [{}..{}); vs newest model ({} bytes) first difference at content byte {}", st.desc, len, content.len(), st.lo, st.hi, nearest.len(), first_diff(content, nearest));
            if st.clean { agg.v("clean_mismatch", d); return; }
            if let Some(e) = decl { if (*len as usize).saturating_mul(e) != content.len() { agg.v("declared_count_not_delivered", format!("{d}; {} elements declared, {} delivered, no error reported", len, content.len() / e)); return; } }
            if let Some((hdr, esz)) = vec_hdr_esz { if hdr as u64 + len * esz as u64 > flen as u64 { agg.v("exposes_beyond_file", format!("{d}; header-declared data ends at byte {} but the file has {flen}", hdr as u64 + len * esz as u64)); return; } }
            let cls = if agg.mismatch_class.is_empty() { "content_mismatch" } else { agg.mismatch_class }; agg.v(cls, d);
        }
    }
}

/// materialise states as files `dir/f<i>`, run the children, judge
fn run_file_states(c: &mut Case, dir: &Path, states: &[FState], mk_job: &dyn Fn(&Path) -> Value, models: &[Vec<u8>], vec_hdr_esz: Option<(usize, usize)>, agg: &mut Agg) -> Vec<Out> { run_file_states2(c, dir, states, mk_job, models, vec_hdr_esz, None, agg) }
fn run_file_states2(c: &mut Case, dir: &Path, states: &[FState], mk_job: &dyn Fn(&Path) -> Value, models: &[Vec<u8>], vec_hdr_esz: Option<(usize, usize)>, decl: Option<usize>, agg: &mut Agg) -> Vec<Out> {
    let mut jobs = Vec::new();
    for (i, s) in states.iter().enumerate() { let p = dir.join(format!("f{i}")); let _ = std::fs::write(&p, &s.bytes); let mut j = mk_job(&p); if s.solo { j["solo"] = json!(true); } jobs.push(j); }
    let outs = run_jobs(dir, &mut jobs, c.verbose);
    for (s, o) in states.iter().zip(outs.iter()) { judge2(agg, s, o, models, vec_hdr_esz, decl); if c.verbose { c.log(format!("{} -> {}", s.desc, match o { Out::Ok { len, .. } => format!("Ok len {len}"), other => format!("{other:?}").chars().take(160).collect() })); } }
    for i in 0..states.len() { let _ = std::fs::remove_file(dir.join(format!("f{i}"))); }
    outs
}

// =============================================================================================
// target: MmapVec<T>
// =============================================================================================
const MMAPVEC_HDR: usize = 80; // magic u64, version u32, element_size u32, length u64, capacity u64, reserved [u64; 6]

fn vals<T: El>(c: &mut Case, n: usize) -> Vec<T> { let k = c.rng.below(gen::INT_KINDS as u64) as u32; gen::ints_kind(&mut c.rng, k, n, u64::MAX).into_iter().map(T::mk).collect() }

/// Random operation history on a fresh MmapVec; explicit sync() calls are the snapshot points.
fn mmapvec_history<T: El>(c: &mut Case, path: &Path, preset_name: &str, big: bool, end_synced: bool, limit_sync: bool, huge: bool) -> Result<Hist, Fail> {
    let cfg = preset(preset_name);
    let sow = cfg.sync_on_write;
    let mut v = match catch(|| MmapVec::<T>::create(path, cfg)) { Ok(Ok(v)) => v, Ok(Err(e)) => return Err(bad("create_err", format!("create failed: {e}"))), Err(p) => return Err(bad(&p.class(), format!("create panicked at {}: {}", p.loc, p.msg))) };
    let mut cur: Vec<T> = Vec::new();
    let mut models: Vec<Vec<u8>> = vec![vec![]];
    let mut snaps: Vec<Snap> = Vec::new();
    let mut prog = String::new();
    // huge_ families: scripted history (op code, argument, sync afterwards) that crosses 65 536 / 131 072 live elements,
    // changes the capacity while empty (reserve / shrink_to_fit / clear) and shrinks back
    let script: Option<Vec<(u64, Option<usize>, bool)>> = if huge {
        let r = c.rng.usize_below(5000);
        let cap2 = *c.rng.pick(&[131_073usize, 196_609, 262_145]);
        Some(vec![(21, Some(65_537), false), (11, None, true), (21, Some(65_536), true), (2, Some(65_535), true), (0, Some(1), false), (0, Some(2), true),
            (22, None, false), (2, Some(65_536 + r), true), (7, Some(usize::MAX - 3), false), (11, None, true), (20, None, false), (11, None, true),
            (21, Some(cap2), false), (9, Some(100_001 + r), true), (22, None, false), (8, Some(65_537), false), (5, Some(if sow { 5 } else { 300 }), true)])
    } else { None };
    let nops = if let Some(s) = &script { s.len() } else if sow { c.rng.urange(3, 8) } else { c.rng.urange(4, 16) };
    let mut last_sync_model = 0usize; let mut synced_at_end = false;
    macro_rules! okop { ($r:expr, $what:expr) => { match catch(|| $r) { Ok(Ok(x)) => x, Ok(Err(e)) => return Err(bad("op_err", format!("{} failed: {e} (program: {prog})", $what))), Err(p) => return Err(bad(&p.class(), format!("{} panicked at {}: {} (program: {prog})", $what, p.loc, p.msg))) } } }
    for opi in 0..nops {
        let (op, arg, sync_after): (u64, Option<usize>, Option<bool>) = if let Some(s) = &script { (s[opi].0, s[opi].1, Some(s[opi].2)) } else if opi == 0 { (if big { 100 } else { 2 }, None, None) } else { (c.rng.below(15), None, None) };
        synced_at_end = false;
        match op {
            100 => { let n = if preset_name == "large" { 600_000 + c.rng.usize_below(400_000) } else { (70_000 / T::SZ) + c.rng.usize_below(30_000 / T::SZ + 1) }; let it = vals::<T>(c, n); prog.push_str(&format!("bulk{n};")); okop!(v.push_bulk_simd(&it), "push_bulk_simd"); cur.extend_from_slice(&it); models.push(el_bytes(&cur)); }
            0 | 1 => { let k = match arg { Some(a) => a, None => 1 + c.rng.usize_below(if sow { 4 } else { 20 }) }; let it = vals::<T>(c, k); prog.push_str(&format!("push{k};")); for x in it { okop!(v.push(x), "push"); cur.push(x); models.push(el_bytes(&cur)); } }
            2 | 3 | 4 => { let n = match arg { Some(a) => a, None => if c.rng.chance(1, 3) { *c.rng.pick(gen::LENS) % 3000 } else { c.rng.usize_below(200) } }; let it = vals::<T>(c, n); prog.push_str(&format!("bulk{n};")); okop!(v.push_bulk_simd(&it), "push_bulk_simd"); cur.extend_from_slice(&it); models.push(el_bytes(&cur)); }
            5 => { let n = match arg { Some(a) => a, None => c.rng.usize_below(if sow { 12 } else { 300 }) }; let it = vals::<T>(c, n); prog.push_str(&format!("extend{n};")); okop!(v.extend(it.clone().into_iter()), "extend");
                for x in it { cur.push(x); if sow { models.push(el_bytes(&cur)); } } models.push(el_bytes(&cur)); }
            6 => { let k = 1 + c.rng.usize_below(6); prog.push_str(&format!("pop{k};")); for _ in 0..k { let got = match catch(|| v.pop()) { Ok(g) => g, Err(p) => return Err(bad(&p.class(), format!("pop panicked at {}", p.loc))) }; let want = cur.pop(); if got != want { return Err(bad("inmem_diverged", format!("pop returned {got:?} want {want:?} (program: {prog})"))); } models.push(el_bytes(&cur)); } }
            7 => { let k = match arg { Some(a) => cur.len().saturating_sub(usize::MAX - a), None => c.rng.usize_below(cur.len() + 1).min(500) }; prog.push_str(&format!("popbulk{k};")); let got = okop!(v.pop_bulk_simd(k), "pop_bulk_simd"); let want = cur.split_off(cur.len() - k); if got != want { return Err(bad("inmem_diverged", format!("pop_bulk_simd({k}) returned wrong elements (program: {prog})"))); } models.push(el_bytes(&cur)); }
            8 => { let n = match arg { Some(a) => a, None => c.rng.usize_below(cur.len() + 3) }; prog.push_str(&format!("trunc{n};")); okop!(v.truncate(n), "truncate"); cur.truncate(n); models.push(el_bytes(&cur)); }
            9 => { let n = match arg { Some(a) => a, None => if c.rng.bool() { c.rng.usize_below(cur.len() + 1) } else { cur.len() + c.rng.usize_below(400) } }; let x = T::mk(c.rng.next()); prog.push_str(&format!("resize{n};")); okop!(v.resize(n, x), "resize"); cur.resize(n, x); models.push(el_bytes(&cur)); }
            10 => { if c.rng.chance(1, 3) { prog.push_str("clear;"); okop!(v.clear(), "clear"); cur.clear(); } else { let n = c.rng.usize_below(2000); prog.push_str(&format!("reserve{n};")); okop!(v.reserve(n), "reserve"); } models.push(el_bytes(&cur)); }
            20 => { prog.push_str("clear;"); okop!(v.clear(), "clear"); cur.clear(); models.push(el_bytes(&cur)); }
            21 => { let n = arg.unwrap_or(0); prog.push_str(&format!("reserve{n};")); okop!(v.reserve(n), "reserve"); models.push(el_bytes(&cur)); }
            11 => { prog.push_str("shrink;"); okop!(v.shrink_to_fit(), "shrink_to_fit"); models.push(el_bytes(&cur)); }
            _ => { // in-place modification of existing elements (makes old and new blocks differ at the same offsets)
                if cur.is_empty() { prog.push_str("nop;"); } else {
                    let how = c.rng.below(3);
                    let m = 1 + c.rng.usize_below(cur.len().min(40));
                    prog.push_str(&format!("modify{how}x{m};"));
                    if how == 2 { let s = c.rng.usize_below(cur.len()); let e = (s + m * 8).min(cur.len()); let x = T::mk(c.rng.next()); okop!(v.fill_range_simd(s..e, x), "fill_range_simd"); for y in &mut cur[s..e] { *y = x; } }
                    else { for _ in 0..m { let i = c.rng.usize_below(cur.len()); let x = T::mk(c.rng.next());
                        if how == 0 { match v.get_mut(i) { Some(r) => *r = x, None => return Err(bad("op_err", format!("get_mut({i}) is None with len {}", cur.len()))) } } else { let s = v.as_mut_slice(); if s.len() != cur.len() { return Err(bad("inmem_diverged", format!("as_mut_slice len {} want {}", s.len(), cur.len()))); } s[i] = x; }
                        cur[i] = x; } }
                }
                models.push(el_bytes(&cur)); }
        }
        let last = opi + 1 == nops;
        let do_sync = match sync_after { Some(b) => b || (last && end_synced), None => (last && end_synced) || (!last && c.rng.chance(1, 3)) };
        if do_sync {
            prog.push_str("SYNC;");
            okop!(v.sync(), "sync");
            if el_bytes(v.as_slice()) != *models.last().unwrap() || v.len() != cur.len() { return Err(bad("inmem_diverged", format!("in-memory content differs from the model before reopen (len {} want {}; program: {prog})", v.len(), cur.len()))); }
            let bytes = std::fs::read(path).map_err(|e| bad("harness_io", format!("read back: {e}")))?;
            c.log(format!("sync after '{prog}': file {} bytes, len {} cap {}", bytes.len(), v.len(), v.capacity()));
            snaps.push(Snap { bytes, upto: models.len(), model: models.len() - 1 });
            last_sync_model = models.len() - 1; synced_at_end = true;
        }
    }
    // writer-executed interruption: sync() under a file-size limit (the rewrite of the file is cut short by the kernel)
    let mut extra: Vec<(String, Vec<u8>)> = Vec::new();
    if limit_sync && !sow {
        for _ in 0..4 {
            let nn = 1 + c.rng.usize_below(40); let it = vals::<T>(c, nn); for x in it { if v.push(x).is_ok() { cur.push(x); models.push(el_bytes(&cur)); } }
            let full = MMAPVEC_HDR + v.capacity() * T::SZ; let used = MMAPVEC_HDR + cur.len() * T::SZ;
            let lim = *c.rng.pick(&[0usize, 17, 31, MMAPVEC_HDR, MMAPVEC_HDR + 1, used / 2, used.saturating_sub(1), used, full.saturating_sub(1)]);
            let r = match catch(|| with_fsize_limit(lim as u64, || v.sync())) { Ok(r) => r, Err(p) => return Err(bad(&p.class(), format!("sync under file-size limit panicked at {}: {}", p.loc, p.msg))) };
            prog.push_str(&format!("push;SYNC@limit{lim}->{};", if r.is_ok() { "Ok" } else { "Err" }));
            if r.is_err() { c.note("sync_interrupted", 1); }
            if let Ok(b) = std::fs::read(path) { extra.push((format!("file left by sync() cut at {lim} of {full} bytes by RLIMIT_FSIZE"), b)); }
        }
    }
    let cap = v.capacity();
    drop(v);
    c.input_str("program", &prog); c.hash_more(&models.last().unwrap()[..models.last().unwrap().len().min(256)]);
    c.note("final_len", cur.len() as u64); c.note("final_cap", cap as u64); c.note("snapshots", snaps.len() as u64);
    let dirty = if !synced_at_end { std::fs::read(path).ok().map(|b| (b, if sow { 0 } else { last_sync_model })) } else { None };
    Ok(Hist { snaps, models, hdr: MMAPVEC_HDR, esz: T::SZ, dirty, extra })
}

/// input-only root-cause predicates for MmapVec fault files: parse the header of the materialised file
fn mmapvec_tags(c: &mut Case, states: &mut [FState], esz: usize) {
    for s in states.iter_mut() {
        let flen = s.bytes.len(); if flen < 8 { continue; } let mut hb = [0u8; 32]; let k = flen.min(32); hb[..k].copy_from_slice(&s.bytes[..k]); let b = &hb[..]; // the reader sees zeros past EOF
        let magic = u64::from_le_bytes(b[0..8].try_into().unwrap()); if magic != 0x4D4D41505F564543 { continue; }
        let len = u64::from_le_bytes(b[16..24].try_into().unwrap()); let cap = u64::from_le_bytes(b[24..32].try_into().unwrap());
        if len > cap { continue; }
        let end = MMAPVEC_HDR as u128 + len as u128 * esz as u128;
        if len > 0 && end > flen as u128 { c.tag("hdr_len_beyond_file"); if end > (flen.max(65536) as u128 + 4095) / 4096 * 4096 { c.tag("hdr_len_beyond_mapping"); s.solo = true; } }
    }
}

fn mmapvec_case_t<T: El>(c: &mut Case, fam: &str, preset_name: &str, tname: &str) -> Res {
    let (huge, fam) = match fam.strip_prefix("huge_") { Some(f) => (true, f), None => (false, fam) };
    if huge { c.input_str("huge", "1"); }
    let td = tempfile::tempdir().map_err(|e| bad("harness_io", e.to_string()))?;
    let path = td.path().join("vec.mmap");
    let big = !huge && if preset_name == "large" { c.rng.chance(1, 2) } else { c.rng.chance(1, 4) };
    let end_synced = fam != "clean" || c.rng.chance(2, 3);
    c.input_str("elem", tname); c.input_str("preset", preset_name); c.input_str("big", &big.to_string());
    let h = mmapvec_history::<T>(c, &path, preset_name, big, end_synced, fam == "sync_fsize_limit", huge)?;
    let mut rng = c.rng.fork();
    let mut states = if fam == "clean" { clean_states(&h) } else if fam == "sync_fsize_limit" {
        h.extra.iter().map(|(d, b)| FState { desc: d.clone(), bytes: b.clone(), lo: 0, hi: h.models.len(), clean: false, solo: false }).collect()
    } else {
        if h.snaps.is_empty() { c.set_nontrivial(false); return Ok(()); }
        let need_pair = fam == "block_rollback" || fam == "hdr_swap";
        if need_pair && h.snaps.len() < 2 { c.set_nontrivial(false); return Ok(()); }
        let i = if need_pair { 1 + rng.usize_below(h.snaps.len() - 1) } else if rng.bool() { h.snaps.len() - 1 } else { rng.usize_below(h.snaps.len()) };
        fault_states(fam, &h, i, &mut rng, c.tier == crate::ctx::Tier::Quick)
    };
    c.tag(&format!("f:{fam}")); if matches!(fam, "block_rollback" | "hdr_swap" | "extend_zero") { c.tag(fam); }
    mmapvec_tags(c, &mut states, T::SZ);
    let open = if fam == "clean" { *rng.pick(&["default", "read_only", "same"]) } else { *rng.pick(&["default", "read_only"]) };
    let open = if open == "same" { preset_name.to_string() } else { open.to_string() };
    c.input_str("open_preset", &open);
    let mut agg = Agg::for_family(fam);
    let tn = tname.to_string();
    let mk = move |p: &Path| json!({"k": "mmapvec", "t": tn, "open": open, "path": p.to_string_lossy()});
    run_file_states(c, td.path(), &states, &mk, &h.models, Some((MMAPVEC_HDR, T::SZ)), &mut agg);
    c.set_nontrivial(!states.is_empty() && h.models.iter().any(|m| !m.is_empty()));
    agg.finish(c)
}
fn mmapvec_case(c: &mut Case, fam: &str, preset_name: &str) -> Res {
    let t = if preset_name == "large" { "u8" } else { *c.rng.pick(&["u8", "u32", "u64", "u64", "b3"]) };
    match t { "u8" => mmapvec_case_t::<u8>(c, fam, preset_name, t), "u32" => mmapvec_case_t::<u32>(c, fam, preset_name, t), "u64" => mmapvec_case_t::<u64>(c, fam, preset_name, t), _ => mmapvec_case_t::<[u8; 3]>(c, fam, preset_name, t) }
}


/// `huge_<family>` generator names select the large-input variant of a family
fn split_huge(fam: &str) -> (bool, &str) { match fam.strip_prefix("huge_") { Some(f) => (true, f), None => (false, fam) } }
/// sizes just above 16-bit / 17-bit / 20-bit limits
const HUGE_SIZES: &[usize] = &[65_535, 65_536, 65_537, 131_071, 131_072, 131_073, 131_074, 196_609, 262_145, 1_048_575, 1_048_576, 1_048_577];
/// byte shapes for large payloads: dominant symbol, all equal, long runs / short period (> 1000:1), X c X d, random
fn huge_bytes(r: &mut Rng, len: usize) -> (&'static str, Vec<u8>) {
    match r.below(6) {
        0 => { let dom = r.next() as u8; let pct = 60 + r.below(40); ("dominant", (0..len).map(|_| if r.below(100) < pct { dom } else { r.next() as u8 }).collect()) }
        1 => ("all_equal", vec![r.next() as u8; len]),
        2 => { let mut v = Vec::with_capacity(len); while v.len() < len { let b = r.next() as u8; let n = 20_000 + r.usize_below(80_000); for _ in 0..n.min(len - v.len()) { v.push(b); } } ("long_runs", v) }
        3 => { let p = 1 + r.usize_below(7); let pat = r.bytes(p); ("short_period", (0..len).map(|i| pat[i % p]).collect()) }
        4 => { let h = (len.saturating_sub(2)) / 2; let x = r.bytes(h); let mut v = x.clone(); v.push(b'c'); v.extend_from_slice(&x); v.push(b'd'); v.resize(len, 0xEE); ("xcxd", v) }
        _ => ("uniform", r.bytes(len)),
    }
}

// =============================================================================================
// generic driver for single-file targets whose history builder returns a Hist
// =============================================================================================
fn single_file_case(c: &mut Case, fam: &str, h: &Hist, dir: &Path, mk: &dyn Fn(&Path) -> Value, decl: Option<usize>) -> Res {
    let mut rng = c.rng.fork();
    let states = if fam == "clean" { clean_states(h) } else {
        if h.snaps.is_empty() { c.set_nontrivial(false); return Ok(()); }
        let need_pair = fam == "block_rollback" || fam == "hdr_swap";
        if need_pair && h.snaps.len() < 2 { c.set_nontrivial(false); return Ok(()); }
        let i = if need_pair { 1 + rng.usize_below(h.snaps.len() - 1) } else if rng.bool() { h.snaps.len() - 1 } else { rng.usize_below(h.snaps.len()) };
        fault_states(fam, h, i, &mut rng, c.tier == crate::ctx::Tier::Quick)
    };
    c.tag(&format!("f:{fam}")); if matches!(fam, "block_rollback" | "hdr_swap" | "extend_zero") { c.tag(fam); }
    let mut agg = Agg::for_family(fam);
    let outs = run_file_states2(c, dir, &states, mk, &h.models, None, decl, &mut agg);
    for o in &outs { if let Out::Ok { notes, .. } = o { for (k, v) in notes { if k.starts_with("strategy:") || k.starts_with("out_open") || k == "not_eof_after_none" { c.note(k, *v); } } } }
    c.set_nontrivial(!states.is_empty() && h.models.iter().any(|m| m.len() > 8));
    agg.finish(c)
}

// =============================================================================================
// target: io::mmap MemoryMappedOutput -> MemoryMappedInput
// =============================================================================================
/// The model of the output file is kept independently: a zero-initialised byte vector of `capacity` bytes, writes at
/// `position`, growth to max(required, cap + cap/2), truncate() cuts to position.
/// The canonical content is [len u64][raw bytes][decoded typed records]; for a fault state the expected content is
/// computed from the fault file itself (a header-less byte stream vouches only for its own bytes): the oracle is that
/// reads return exactly the bytes of the file and the typed records decode to a prefix of what a reference decoder yields.
fn io_ref_content(bytes: &[u8], types: &str) -> Vec<u8> {
    let mut out = (bytes.len() as u64).to_le_bytes().to_vec(); out.extend_from_slice(bytes);
    let mut pos = 0usize;
    let take = |pos: &mut usize, n: usize| -> Option<&[u8]> { if *pos + n <= bytes.len() { let s = &bytes[*pos..*pos + n]; *pos += n; Some(s) } else { None } };
    for ch in types.chars() {
        let rec: Option<Vec<u8>> = match ch {
            'b' => take(&mut pos, 1).map(|s| s.to_vec()), 'h' => take(&mut pos, 2).map(|s| s.to_vec()), 'w' => take(&mut pos, 4).map(|s| s.to_vec()), 'q' => take(&mut pos, 8).map(|s| s.to_vec()),
            'v' | 's' => { // LEB128, at most 10 bytes
                let mut r = 0u64; let mut sh = 0u32; let mut ok = None;
                for _ in 0..10 { match take(&mut pos, 1) { Some(b) => { r |= ((b[0] & 0x7f) as u64) << sh; if b[0] & 0x80 == 0 { ok = Some(r); break; } sh += 7; if sh >= 64 { break; } } None => break } }
                match (ch, ok) { ('v', Some(r)) => Some(r.to_le_bytes().to_vec()), ('s', Some(l)) => { let l = l as usize; if l <= bytes.len() { take(&mut pos, l).and_then(|s| std::str::from_utf8(s).ok().map(|x| x.as_bytes().to_vec())) } else { None } } _ => None }
            }
            _ => None,
        };
        match rec { Some(b) => { out.push(ch as u8); out.extend_from_slice(&(b.len() as u32).to_le_bytes()); out.extend_from_slice(&b); } None => break }
    }
    out
}

fn io_case(c: &mut Case, fam: &str) -> Res {
    let (force_huge, fam) = split_huge(fam);
    let td = tempfile::tempdir().map_err(|e| bad("harness_io", e.to_string()))?;
    let path = td.path().join("out.bin");
    let init = *c.rng.pick(&[1usize, 16, 100, 1000, 4000, 4096, 4097, 5000, 70_000]);
    let huge = force_huge || c.rng.chance(1, 25);
    let init = if force_huge { *c.rng.pick(&[65_535usize, 65_537, 131_073, 1_048_575, 1_048_577, 1_100_000]) } else if huge { 1_100_000 } else { init };
    c.input_str("initial_size", &init.to_string());
    let mut o = match MemoryMappedOutput::create(&path, init) { Ok(o) => o, Err(e) => return Err(bad("create_err", format!("create({init}) failed: {e}"))) };
    let mut model = vec![0u8; init]; let mut pos = 0usize; let mut types = String::new(); let mut prog = String::new();
    let mut snaps: Vec<Snap> = Vec::new(); let mut models: Vec<Vec<u8>> = Vec::new(); let mut tstrs: Vec<String> = Vec::new();
    let rounds = c.rng.urange(2, 4);
    macro_rules! okw { ($r:expr, $what:expr) => { match catch(|| $r) { Ok(Ok(x)) => x, Ok(Err(e)) => return Err(bad("op_err", format!("{} failed: {e} ({prog})", $what))), Err(p) => return Err(bad(&p.class(), format!("{} panicked at {}: {} ({prog})", $what, p.loc, p.msg))) } } }
    for round in 0..rounds {
        if round > 0 && c.rng.chance(1, 2) { // rewrite from the start: same record types, new values (in-place overwrite)
            okw!(o.seek(0), "seek"); pos = 0; prog.push_str("seek0;"); }
        let rewriting = pos == 0 && !types.is_empty();
        let tlist: Vec<char> = if rewriting { types.chars().collect() } else { let n = c.rng.urange(3, if huge { 12 } else { 60 }); (0..n).map(|_| *c.rng.pick(&['b', 'h', 'w', 'q', 'v', 's', 's'])).collect() };
        for (k, &ch) in tlist.iter().enumerate() {
            let mut w: Vec<u8> = Vec::new();
            match ch {
                'b' => { let x = c.rng.next() as u8; okw!(o.write_u8(x), "write_u8"); w.push(x); }
                'h' => { let x = c.rng.next() as u16; okw!(o.write_u16(x), "write_u16"); w.extend_from_slice(&x.to_le_bytes()); }
                'w' => { let x = c.rng.next() as u32; okw!(o.write_u32(x), "write_u32"); w.extend_from_slice(&x.to_le_bytes()); }
                'q' => { let x = c.rng.next(); okw!(o.write_u64(x), "write_u64"); w.extend_from_slice(&x.to_le_bytes()); }
                'v' => { let x = c.rng.next() >> c.rng.below(64); okw!(o.write_var_int(x), "write_var_int"); let mut y = x; loop { let mut b = (y & 0x7f) as u8; y >>= 7; if y != 0 { b |= 0x80; } w.push(b); if y == 0 { break; } } }
                _ => { let l = if rewriting { // keep the record length so the following records stay aligned
                            // (length of the string previously written at this index is unknown here; use a fixed per-index length)
                            (k * 7) % 90 } else { (k * 7) % 90 };
                    let l = if huge && k == 1 { 200_000 } else { l };
                    let s: String = (0..l).map(|_| (b'a' + c.rng.below(26) as u8) as char).collect(); okw!(o.write_length_prefixed_string(&s), "write_length_prefixed_string");
                    let mut y = l as u64; loop { let mut b = (y & 0x7f) as u8; y >>= 7; if y != 0 { b |= 0x80; } w.push(b); if y == 0 { break; } } w.extend_from_slice(s.as_bytes()); }
            }
            // one ensure_capacity per write_slice call: a length-prefixed string is two calls (prefix, body)
            let split = if ch == 's' { let mut k = 0; while w[k] & 0x80 != 0 { k += 1; } k + 1 } else { w.len() };
            for part in [&w[..split], &w[split..]] { let req = pos + part.len(); if req > model.len() { let ns = req.max(model.len() + model.len() / 2); model.resize(ns, 0); } model[pos..req].copy_from_slice(part); pos = req; }
        }
        if !rewriting { types.extend(tlist.iter()); }
        prog.push_str(&format!("write{};", tlist.len()));
        if c.rng.chance(1, 3) && pos >= types_min_len(&types) { okw!(o.truncate(), "truncate"); model.truncate(pos); prog.push_str("truncate;"); }
        okw!(o.flush(), "flush"); prog.push_str("flush;");
        if o.position() != pos || o.capacity() != model.len() { return Err(bad("inmem_diverged", format!("position/capacity {}/{} want {}/{} ({prog})", o.position(), o.capacity(), pos, model.len()))); }
        let bytes = std::fs::read(&path).map_err(|e| bad("harness_io", e.to_string()))?;
        models.push(model.clone()); tstrs.push(types.clone());
        snaps.push(Snap { bytes, upto: models.len(), model: models.len() - 1 });
    }
    drop(o); let _ = &tstrs;
    // models are decoded with the final record-type list (the child gets the same list)
    let models: Vec<Vec<u8>> = models.iter().map(|m| io_ref_content(m, &types)).collect();
    c.input_str("program", &prog); c.input_str("types", &types);
    // clean: reopened content == independent model. faults: expected content derived from the fault file (see io_ref_content).
    let mut rng = c.rng.fork();
    let h = Hist { snaps, models, hdr: 0, esz: 1, dirty: None, extra: vec![] };
    let mut states = if fam == "clean" { clean_states(&h) } else { let need_pair = fam == "block_rollback"; if need_pair && h.snaps.len() < 2 { return Ok(()); }
        let i = if need_pair { 1 + rng.usize_below(h.snaps.len() - 1) } else { h.snaps.len() - 1 }; fault_states(fam, &h, i, &mut rng, c.tier == crate::ctx::Tier::Quick) };
    if huge { states.truncate(6); }
    c.tag(&format!("f:{fam}"));
    let mut models = h.models.clone();
    if fam != "clean" { for s in states.iter_mut() { models.push(io_ref_content(&s.bytes, &types)); s.lo = models.len() - 1; s.hi = models.len(); } }
    let pat = *rng.pick(&["seq", "rand", "mixed", "unk"]); c.input_str("pattern", pat);
    let ty = types.clone();
    let mk = move |p: &Path| json!({"k": "io", "pat": pat, "types": ty, "path": p.to_string_lossy()});
    let mut agg = Agg::for_family(fam);
    let outs = run_file_states(c, td.path(), &states, &mk, &models, None, &mut agg);
    for o in &outs { if let Out::Ok { notes, .. } = o { for (k, v) in notes { if k.starts_with("strategy:") || k.starts_with("out_open") { c.note(k, *v); } } } }
    c.set_nontrivial(!states.is_empty());
    agg.finish(c)
}
fn types_min_len(_t: &str) -> usize { 0 }

// =============================================================================================
// target: ZReorderMapBuilder -> ZReorderMap::open
// =============================================================================================
/// > 13 200 entries (encoded body > 64 KiB, optionally > 128 KiB): mostly single entries, plus runs longer than 65 536 / 131 072
fn reorder_values_huge(c: &mut Case, sign: i64) -> Vec<usize> {
    const MAXV: usize = 0x7F_FFFF_FFFF;
    let entries = *c.rng.pick(&[13_200usize, 13_300, 14_000, 26_300, 27_000, 40_000]) + c.rng.usize_below(50);
    let long_at = [c.rng.usize_below(entries), c.rng.usize_below(entries)];
    let mut v: Vec<usize> = Vec::with_capacity(entries + 300_000);
    for e in 0..entries {
        let base = 1_000_000 + c.rng.usize_below(MAXV - 2_000_000);
        let run = if e == long_at[0] { 65_536 + c.rng.usize_below(3) } else if e == long_at[1] { 131_072 + c.rng.usize_below(3) } else if c.rng.chance(1, 50) { 2 + c.rng.usize_below(200) } else { 1 };
        for k in 0..run { v.push(if sign > 0 { base + k } else { base - k }); }
    }
    v
}
fn reorder_values(c: &mut Case, sign: i64) -> Vec<usize> {
    let mut v: Vec<usize> = Vec::new();
    let target = match c.rng.below(5) { 0 => c.rng.usize_below(4), 1 => 1 + c.rng.usize_below(40), 2 => 900 + c.rng.usize_below(600), _ => 1 + c.rng.usize_below(400) };
    const MAXV: usize = 0x7F_FFFF_FFFF;
    while v.len() < target {
        let run = match c.rng.below(4) { 0 => 1, 1 => 2 + c.rng.usize_below(3), 2 => 1 + c.rng.usize_below(300), _ => 1 };
        let run = run.min(target - v.len());
        let base = match c.rng.below(6) { 0 => MAXV, 1 => 0, 2 => c.rng.usize_below(300), _ => c.rng.usize_below(MAXV) };
        for k in 0..run { let x = if sign > 0 { base.checked_add(k) } else { base.checked_sub(k) }; match x { Some(x) if x <= MAXV => v.push(x), _ => break } }
    }
    v
}
fn reorder_case(c: &mut Case, fam: &str) -> Res { reorder_case_k(c, fam, "reorder") }
fn reorder_case_k(c: &mut Case, fam: &str, kind: &'static str) -> Res {
    let (huge, fam) = split_huge(fam);
    let td = tempfile::tempdir().map_err(|e| bad("harness_io", e.to_string()))?;
    let path = td.path().join("reorder.map");
    let mut snaps = Vec::new(); let mut models: Vec<Vec<u8>> = Vec::new();
    for ver in 0..2 {
        let sign: i64 = if c.rng.bool() { 1 } else { -1 };
        let vals = if huge { reorder_values_huge(c, sign) } else { reorder_values(c, sign) };
        let mut raw = Vec::new(); for x in &vals { raw.extend_from_slice(&(*x as u64).to_le_bytes()); }
        c.input_str(&format!("sign{ver}"), &sign.to_string()); c.input(&format!("values{ver}"), &raw);
        let r = catch(|| -> zipora::error::Result<()> { let mut b = ZReorderMapBuilder::new(&path, vals.len(), sign)?; for &x in &vals { b.push(x)?; } b.finish() });
        match r { Ok(Ok(())) => {} Ok(Err(e)) => return Err(bad("op_err", format!("builder failed: {e}"))), Err(p) => return Err(bad(&p.class(), format!("builder panicked at {}: {}", p.loc, p.msg))) }
        models.push(raw);
        snaps.push(Snap { bytes: std::fs::read(&path).map_err(|e| bad("harness_io", e.to_string()))?, upto: models.len(), model: models.len() - 1 });
    }
    let h = Hist { snaps, models, hdr: 16, esz: 5, dirty: None, extra: vec![] };
    if fam == "trunc" { c.tag("reorder_cut_after_first_entry"); }
    let mk = move |p: &Path| json!({"k": kind, "path": p.to_string_lossy()});
    single_file_case(c, fam, &h, td.path(), &mk, Some(8))
}

// =============================================================================================
// target: ZipOffsetBlobStore save_to_file / load_from_file
// =============================================================================================
fn zipoffset_case(c: &mut Case, fam: &str) -> Res {
    let (huge, fam) = split_huge(fam);
    let td = tempfile::tempdir().map_err(|e| bad("harness_io", e.to_string()))?;
    let path = td.path().join("store.zo");
    let mut snaps = Vec::new(); let mut models: Vec<Vec<u8>> = Vec::new(); let mut added = 0usize;
    for ver in 0..2 {
        let cfg = match c.rng.below(4) { 0 => ZipOffsetBlobStoreConfig::default(), 1 => ZipOffsetBlobStoreConfig::performance_optimized(), 2 => ZipOffsetBlobStoreConfig::compression_optimized(), _ => ZipOffsetBlobStoreConfig { compress_level: 0, checksum_level: 0, ..ZipOffsetBlobStoreConfig::default() } };
        c.input_str(&format!("cfg{ver}"), &format!("{}/{}", cfg.compress_level, cfg.checksum_level));
        let n = if huge { 2 + c.rng.usize_below(3) } else { c.rng.usize_below(30) };
        let recs: Vec<Vec<u8>> = (0..n).map(|_| if huge { let l = *c.rng.pick(&HUGE_SIZES[..9]); huge_bytes(&mut c.rng, l).1 } else { gen::bytes_any(&mut c.rng, 600).1 }).collect();
        for r in &recs { c.input("rec", r); }
        let r = catch(|| -> zipora::error::Result<ZipOffsetBlobStore> { let mut b = ZipOffsetBlobStoreBuilder::with_config(cfg)?; for r in &recs { b.add_record(r)?; } b.finish() });
        let store = match r { Ok(Ok(s)) => s,
            // huge records: a refusal by the builder (e.g. the 12-bit offset width of compression_optimized cannot index records >= 4 KiB) is an Err on the
            // write side; the property conditions on a successful write
            Ok(Err(_)) if huge => { c.note("builder_refused", 1); c.set_nontrivial(false); return Ok(()); }
            Ok(Err(e)) => return Err(bad("op_err", format!("builder failed: {e}"))), Err(p) => return Err(bad(&p.class(), format!("builder panicked at {}", p.loc))) };
        added += n;
        // the model is what the in-memory store presents at save time
        let m = canon_blobs(&store).map_err(|e| bad("inmem_read_err", e))?;
        c.note("records_added", n as u64); c.note("records_in_store_at_save", store.len() as u64);
        match catch(|| store.save_to_file(&path)) { Ok(Ok(())) => {} Ok(Err(e)) => return Err(bad("op_err", format!("save_to_file failed: {e}"))), Err(p) => return Err(bad(&p.class(), format!("save panicked at {}", p.loc))) }
        models.push(m);
        snaps.push(Snap { bytes: std::fs::read(&path).map_err(|e| bad("harness_io", e.to_string()))?, upto: models.len(), model: models.len() - 1 });
    }
    let _ = added;
    let h = Hist { snaps, models, hdr: 128, esz: 1, dirty: None, extra: vec![] };
    let mk = |p: &Path| json!({"k": "zipoffset", "path": p.to_string_lossy()});
    single_file_case(c, fam, &h, td.path(), &mk, None)
}

// =============================================================================================
// targets: SuffixArrayDictionary save_to_file/load_from_file, DictZipBlobStore dictionary file
// =============================================================================================
fn dict_text(c: &mut Case, max: usize) -> Vec<u8> {
    let kind = *c.rng.pick(&[10u32, 10, 8, 5, 9, 0, 3]); let len = 16 + c.rng.usize_below(max);
    gen::bytes_kind(&mut c.rng, kind, len)
}
fn dict_probes(c: &mut Case, texts: &[Vec<u8>]) -> Vec<Vec<u8>> {
    let mut p = Vec::new();
    for t in texts { for _ in 0..6 { if t.len() > 8 { let a = c.rng.usize_below(t.len() - 4); let n = 4 + c.rng.usize_below((t.len() - a - 4).min(60) + 1); let mut x = t[a..a + n].to_vec(); if c.rng.chance(1, 3) { x.extend(c.rng.bytes(5)); } p.push(x); } } }
    p.push(c.rng.bytes(20)); p.push(b"the quick brown fox".to_vec());
    p
}
fn sadict_case(c: &mut Case, fam: &str) -> Res {
    let (huge, fam) = split_huge(fam);
    let td = tempfile::tempdir().map_err(|e| bad("harness_io", e.to_string()))?;
    let path = td.path().join("dict.bin"); let aux = td.path().join("probes.bin");
    let texts: Vec<Vec<u8>> = if huge { (0..2).map(|_| { let n = *c.rng.pick(&[65_535usize, 65_537, 131_073]) + c.rng.usize_below(3); let (k, t) = huge_bytes(&mut c.rng, n); c.input_str("shape", k); t }).collect() } else { (0..2).map(|_| dict_text(c, 5000)).collect() };
    let probes = dict_probes(c, &texts); write_probes(&aux, &probes);
    let mut snaps = Vec::new(); let mut models: Vec<Vec<u8>> = Vec::new();
    for (ver, t) in texts.iter().enumerate() {
        c.input(&format!("text{ver}"), t);
        let cfg = SuffixArrayDictionaryConfig { use_memory_pool: c.rng.chance(1, 4), min_frequency: 2 + c.rng.below(3) as u32, max_bfs_depth: 2 + c.rng.below(3) as u32, min_pattern_length: 2 + c.rng.usize_below(4), max_pattern_length: 32 + c.rng.usize_below(300), ..Default::default() };
        let mut d = match catch(|| SuffixArrayDictionary::new(t, cfg)) { Ok(Ok(d)) => d, Ok(Err(e)) => return Err(bad("op_err", format!("dictionary build failed: {e}"))), Err(p) => return Err(bad(&p.class(), format!("dictionary build panicked at {}: {}", p.loc, p.msg))) };
        let m = match catch(|| canon_dict(&mut d, &probes)) { Ok(Ok(m)) => m, Ok(Err(e)) => return inconclusive(format!("in-memory dictionary fails its own read-back: {e}")), Err(p) => return inconclusive(format!("in-memory dictionary read-back panicked at {}", p.loc)) };
        c.note("cache_states_inmem", d.cache_states() as u64);
        match catch(|| d.save_to_file(&path)) { Ok(Ok(())) => {} Ok(Err(e)) => return Err(bad("op_err", format!("save_to_file failed: {e}"))), Err(p) => return Err(bad(&p.class(), format!("save panicked at {}", p.loc))) }
        models.push(m);
        snaps.push(Snap { bytes: std::fs::read(&path).map_err(|e| bad("harness_io", e.to_string()))?, upto: models.len(), model: models.len() - 1 });
    }
    let h = Hist { snaps, models, hdr: 8, esz: 1, dirty: None, extra: vec![] };
    let auxs = aux.to_string_lossy().to_string();
    let mk = move |p: &Path| json!({"k": "sadict", "aux": auxs, "path": p.to_string_lossy()});
    single_file_case(c, fam, &h, td.path(), &mk, None)
}
fn dictzip_case(c: &mut Case, fam: &str) -> Res {
    let (huge, fam) = split_huge(fam);
    let td = tempfile::tempdir().map_err(|e| bad("harness_io", e.to_string()))?;
    let path = td.path().join("dz.dict"); let aux = td.path().join("probes.bin");
    let texts: Vec<Vec<u8>> = if huge { (0..2).map(|_| { let n = *c.rng.pick(&[65_537usize, 70_000]); let k = *c.rng.pick(&[10u32, 5, 9]); gen::bytes_kind(&mut c.rng, k, n) }).collect() } else { (0..2).map(|_| dict_text(c, 3000)).collect() };
    let mut probes = dict_probes(c, &texts); probes.push(texts[0][..texts[0].len().min(70_000)].to_vec());
    write_probes(&aux, &probes);
    let mut snaps = Vec::new(); let mut models: Vec<Vec<u8>> = Vec::new();
    let external = c.rng.bool(); c.input_str("external_dictionary", &external.to_string());
    for (ver, t) in texts.iter().enumerate() {
        c.input(&format!("text{ver}"), t);
        let mut cfg = DictZipConfig::default(); cfg.dict_builder_config.use_parallel = false; cfg.dict_builder_config.enable_progress = false;
        if external { cfg = cfg.with_external_dictionary(&path); }
        let r = catch(|| -> zipora::error::Result<DictZipBlobStore> { let mut b = DictZipBlobStoreBuilder::with_config(cfg)?; for ch in t.chunks(400) { b.add_training_sample(ch)?; } b.finish() });
        let mut store = match r { Ok(Ok(s)) => s, Ok(Err(e)) => return Err(bad("op_err", format!("dictzip build failed: {e}"))), Err(p) => return Err(bad(&p.class(), format!("dictzip build panicked at {}: {}", p.loc, p.msg))) };
        if !external { match catch(|| store.save_dictionary(&path)) { Ok(Ok(())) => {} Ok(Err(e)) => return Err(bad("op_err", format!("save_dictionary failed: {e}"))), Err(p) => return Err(bad(&p.class(), format!("save_dictionary panicked at {}", p.loc))) } }
        // model: round-trip behaviour of the probes on the store that wrote the dictionary
        let m = match catch(|| probes.iter().map(|p| match store.put(p) { Ok(id) => matches!(store.get(id), Ok(ref d) if d == p) as u8, Err(_) => 0u8 }).collect::<Vec<u8>>()) { Ok(m) => m, Err(p) => return inconclusive(format!("in-memory store put/get panicked at {}", p.loc)) };
        c.note("probe_roundtrips_ok_inmem", m.iter().filter(|&&x| x == 1).count() as u64);
        models.push(m);
        snaps.push(Snap { bytes: std::fs::read(&path).map_err(|e| bad("harness_io", format!("dictionary file missing: {e}")))?, upto: models.len(), model: models.len() - 1 });
    }
    let h = Hist { snaps, models, hdr: 8, esz: 1, dirty: None, extra: vec![] };
    let auxs = aux.to_string_lossy().to_string();
    let mk = move |p: &Path| json!({"k": "dictzip", "aux": auxs, "path": p.to_string_lossy()});
    single_file_case(c, fam, &h, td.path(), &mk, None)
}

// =============================================================================================
// target: PlainBlobStore directory
// =============================================================================================
type DirSnap = BTreeMap<String, Vec<u8>>;
fn snap_dir(d: &Path) -> DirSnap { let mut m = BTreeMap::new(); if let Ok(rd) = std::fs::read_dir(d) { for e in rd.flatten() { if let Ok(b) = std::fs::read(e.path()) { m.insert(e.file_name().to_string_lossy().to_string(), b); } } } m }
fn plain_model(recs: &BTreeMap<u32, Vec<u8>>) -> Vec<u8> { let mut o = Vec::new(); for (id, d) in recs { o.extend_from_slice(&id.to_le_bytes()); o.extend_from_slice(&(d.len() as u64).to_le_bytes()); o.extend_from_slice(d); } o }

/// Run `f` with RLIMIT_FSIZE lowered to `limit` bytes (SIGXFSZ ignored): a write crossing the limit is cut short and fails
/// with EFBIG, i.e. the library itself executes an interrupted write and leaves exactly the on-disk state that produces.
fn with_fsize_limit<R>(limit: u64, f: impl FnOnce() -> R) -> R {
    unsafe {
        libc::signal(libc::SIGXFSZ, libc::SIG_IGN);
        let mut old = libc::rlimit { rlim_cur: 0, rlim_max: 0 };
        libc::getrlimit(libc::RLIMIT_FSIZE, &mut old);
        let new = libc::rlimit { rlim_cur: limit.min(old.rlim_max), rlim_max: old.rlim_max };
        libc::setrlimit(libc::RLIMIT_FSIZE, &new);
        let r = f();
        libc::setrlimit(libc::RLIMIT_FSIZE, &old);
        r
    }
}

/// Under which name does an interrupted put() leave its partial data? Probed by letting the library execute a put
/// that the kernel cuts short (RLIMIT_FSIZE) in a scratch store: returns the file-name pattern with `{}` for the id
/// ("{}" for an in-place writer, e.g. "{}.tmp" for a write-then-rename writer), or None when nothing is left behind.
fn plain_partial_name_pattern() -> Option<String> {
    let td = tempfile::tempdir().ok()?; let d = td.path().join("probe");
    let mut st = PlainBlobStore::new(&d).ok()?;
    let blob = vec![0x5au8; 64];
    let r = catch(|| with_fsize_limit(10, || st.put(&blob)));
    if matches!(r, Ok(Ok(_))) { return Some("{}".into()); } // not interrupted at all: treat as in-place
    let names: Vec<String> = snap_dir(&d).keys().cloned().collect();
    let n = names.iter().find(|n| n.contains('1'))?;
    Some(n.replacen('1', "{}", 1))
}
struct DState { desc: String, files: DirSnap, lo: usize, hi: usize, clean: bool, #[allow(dead_code)] solo: bool }

fn plain_case(c: &mut Case, fam: &str) -> Res {
    let (huge, fam) = split_huge(fam);
    let td = tempfile::tempdir().map_err(|e| bad("harness_io", e.to_string()))?;
    let sdir = td.path().join("store");
    let mut store = PlainBlobStore::new(&sdir).map_err(|e| bad("op_err", format!("new: {e}")))?;
    let mut recs: BTreeMap<u32, Vec<u8>> = BTreeMap::new();
    let mut models: Vec<Vec<u8>> = vec![plain_model(&recs)];
    let mut snaps: Vec<(DirSnap, usize)> = vec![(snap_dir(&sdir), 0)];      // (files, model index) after every operation
    let mut puts: Vec<(usize, u32)> = Vec::new();                           // (snapshot index after the put, id)
    let nops = if huge { c.rng.urange(2, 4) } else { c.rng.urange(2, 12) }; let mut prog = String::new();
    for _ in 0..nops {
        match c.rng.below(10) {
            0 | 1 if !recs.is_empty() => { let ids: Vec<u32> = recs.keys().cloned().collect(); let id = *c.rng.pick(&ids); prog.push_str(&format!("rm{id};"));
                match catch(|| store.remove(id)) { Ok(Ok(())) => {} Ok(Err(e)) => return Err(bad("op_err", format!("remove({id}) failed: {e}"))), Err(p) => return Err(bad(&p.class(), format!("remove panicked at {}", p.loc))) } recs.remove(&id); }
            2 => { prog.push_str("reopen;"); store = PlainBlobStore::new(&sdir).map_err(|e| bad("op_err", format!("reopen in writer: {e}")))?; }
            _ => { let (kn, d): (String, Vec<u8>) = if huge { let l = *c.rng.pick(HUGE_SIZES); let (k, d) = huge_bytes(&mut c.rng, l); (k.to_string(), d) } else { let max = if c.rng.chance(1, 6) { 9000 } else { 700 }; let (k, d) = gen::bytes_any(&mut c.rng, max); (gen::byte_kind_name(k).to_string(), d) }; c.input(&format!("blob_{kn}"), &d);
                let id = match catch(|| store.put(&d)) { Ok(Ok(id)) => id, Ok(Err(e)) => return Err(bad("op_err", format!("put failed: {e}"))), Err(p) => return Err(bad(&p.class(), format!("put panicked at {}", p.loc))) };
                prog.push_str(&format!("put{}->{id};", d.len()));
                if recs.contains_key(&id) { return Err(bad("id_reused_live", format!("put returned id {id} which is still live ({prog})"))); }
                recs.insert(id, d); puts.push((snaps.len(), id)); }
        }
        models.push(plain_model(&recs)); snaps.push((snap_dir(&sdir), models.len() - 1));
    }
    let mut states: Vec<DState> = Vec::new();
    if fam == "put_fsize_limit" {
        // the writer itself is interrupted: put() under a file-size limit smaller than the blob
        for round in 0..3 {
            let d = if huge { let l = *c.rng.pick(HUGE_SIZES); huge_bytes(&mut c.rng, l).1 } else { let n = 2 + c.rng.usize_below(3000); let k = c.rng.below(gen::BYTE_KINDS as u64) as u32; gen::bytes_kind(&mut c.rng, k, n) };
            let lim = if huge { *c.rng.pick(&[65_535usize, 65_536, d.len() / 2, d.len() - 1]) } else { *c.rng.pick(&[0usize, 1, d.len() / 2, d.len() - 1]) };
            c.input(&format!("limited_blob{round}_limit{lim}"), &d);
            let r = match catch(|| with_fsize_limit(lim as u64, || store.put(&d))) { Ok(r) => r, Err(p) => return Err(bad(&p.class(), format!("put under file-size limit panicked at {}: {}", p.loc, p.msg))) };
            prog.push_str(&format!("put{}@limit{lim}->{};", d.len(), if r.is_ok() { "Ok" } else { "Err" }));
            if let Ok(id) = r { // the write was not cut (should not happen): then it is an ordinary successful put
                recs.insert(id, d); models.push(plain_model(&recs)); }
            else { c.note("put_interrupted", 1); }
            states.push(DState { desc: format!("after put cut at {lim} bytes by RLIMIT_FSIZE ({})", prog.clone()), files: snap_dir(&sdir), lo: 0, hi: models.len(), clean: false, solo: false });
        }
        c.tag("plain_partial_newest_record");
    }
    drop(store);
    c.input_str("program", &prog);
    let mut rng = c.rng.fork();
    if fam == "put_fsize_limit" {
    } else if fam == "clean" {
        let (f, m) = snaps.last().unwrap().clone(); states.push(DState { desc: "clean final directory".into(), files: f, lo: m, hi: m + 1, clean: true, solo: false });
        if snaps.len() > 2 { let k = rng.usize_below(snaps.len()); let (f, m) = snaps[k].clone(); states.push(DState { desc: format!("clean directory after op {k}"), files: f, lo: m, hi: m + 1, clean: true, solo: false }); }
    } else {
        if puts.is_empty() { c.set_nontrivial(false); return Ok(()); }
        // the interrupted operation: one of the puts (prefer the last)
        let (si, id) = if rng.bool() { *puts.last().unwrap() } else { *rng.pick(&puts) };
        let before = &snaps[si - 1].0; let after = &snaps[si].0; let hi = snaps[si].1 + 1;
        let name = format!("{id}"); let data = after.get(&name).cloned().unwrap_or_default(); let n = data.len();
        // partial data of the interrupted put lives under the name the writer really uses while writing
        let pat = if fam == "newest_trunc" || fam == "newest_zero" { plain_partial_name_pattern() } else { Some("{}".to_string()) };
        c.input_str("partial_name_pattern", pat.as_deref().unwrap_or("<nothing left>"));
        let pname = pat.map(|p| p.replace("{}", &name));
        let mut add = |desc: String, files: DirSnap| states.push(DState { desc, files, lo: 0, hi, clean: false, solo: false });
        match fam {
            "newest_trunc" => {
                add(format!("record {id} missing (put not started)"), before.clone());
                let mut lens: BTreeSet<usize> = BTreeSet::new(); for l in [0usize, 1, 2, n / 2, n.saturating_sub(1), 4095, 4096, 4097, 8192, 65_535, 65_536, 65_537, 131_072, 1_048_576] { if l < n { lens.insert(l); } } for _ in 0..4 { if n > 0 { lens.insert(rng.usize_below(n)); } }
                if let Some(pn) = &pname { for l in lens { let mut f = before.clone(); f.insert(pn.clone(), data[..l].to_vec()); add(format!("record {id} cut to {l} of {n} bytes, left as file '{pn}'"), f); } }
                c.tag("plain_partial_newest_record");
            }
            "newest_zero" => {
                for o in [0usize, n / 2, n.saturating_sub(1), 4096] { if o < n { let mut d2 = data.clone(); for x in &mut d2[o..] { *x = 0; } if d2 != data { if let Some(pn) = &pname { let mut f = before.clone(); f.insert(pn.clone(), d2); add(format!("record {id} with tail from {o} zero-filled, left as file '{pn}'"), f); } } } }
                c.tag("plain_partial_newest_record");
            }
            _ => { // stray temporary files next to a consistent directory
                for (base, bn) in [(before, "before"), (after, "after")] {
                    let mut f = base.clone(); f.insert(format!("{id}.tmp"), data[..n / 2].to_vec()); add(format!("{bn} + stray {id}.tmp"), f);
                    let mut f = base.clone(); f.insert(format!(".{id}.swp"), data.clone()); f.insert(format!("{}.tmp", id + 1), vec![]); add(format!("{bn} + stray .{id}.swp and empty {}.tmp", id + 1), f);
                    let mut f = base.clone(); f.insert("tmp_1234".into(), vec![1, 2, 3]); f.insert("LOCK".into(), vec![]); add(format!("{bn} + stray tmp_1234 and LOCK"), f);
                }
            }
        }
    }
    c.tag(&format!("f:{fam}"));
    // materialise directories
    let mut jobs = Vec::new();
    for (i, s) in states.iter().enumerate() { let d = td.path().join(format!("d{i}")); let _ = std::fs::create_dir_all(&d); for (n, b) in &s.files { let _ = std::fs::write(d.join(n), b); } jobs.push(json!({"k": "plain", "path": d.to_string_lossy()})); }
    let outs = run_jobs(td.path(), &mut jobs, c.verbose);
    let mut agg = Agg::for_family(fam);
    for (s, o) in states.iter().zip(outs.iter()) { let total: usize = s.files.values().map(|b| b.len()).sum(); let fs = FState { desc: s.desc.clone(), bytes: vec![0u8; total.min(1)], lo: s.lo, hi: s.hi, clean: s.clean, solo: false }; judge(&mut agg, &fs, o, &models, None); }
    c.set_nontrivial(!states.is_empty() && !recs.is_empty());
    agg.finish(c)
}

// =============================================================================================
// target: external-sort run files (in-process: the run files are private to one sort() call; a run file that was
// already finished and fsynced is cut short from inside the caller-supplied input iterator, i.e. between the
// write of the run and its read-back by the merge phase)
// =============================================================================================
struct FaultIter { items: std::vec::IntoIter<u64>, dir: PathBuf, cut_frac: (u64, u64), which: u64, fired: bool, log: std::rc::Rc<std::cell::RefCell<Option<String>>> }
impl Iterator for FaultIter {
    type Item = u64;
    fn next(&mut self) -> Option<u64> {
        let x = self.items.next();
        if x.is_none() && !self.fired {
            self.fired = true;
            let mut files: Vec<(u64, PathBuf)> = Vec::new();
            if let Ok(rd) = std::fs::read_dir(&self.dir) { for e in rd.flatten() { let n = e.file_name().to_string_lossy().to_string(); if let Some(stem) = n.strip_suffix(".tmp") { if let Some(idx) = stem.rsplit('_').next().and_then(|s| s.parse::<u64>().ok()) { files.push((idx, e.path())); } } } }
            files.sort();
            if files.len() >= 2 { files.pop(); // the highest-numbered run is still being written
                let (idx, p) = &files[(self.which % files.len() as u64) as usize];
                if let Ok(md) = std::fs::metadata(p) { let n = md.len(); let cut = if self.cut_frac.1 == 0 { n.saturating_sub(self.cut_frac.0.min(n)) } else { n * self.cut_frac.0 / self.cut_frac.1 };
                    if cut < n { if let Ok(f) = std::fs::OpenOptions::new().write(true).open(p) { if f.set_len(cut).is_ok() { *self.log.borrow_mut() = Some(format!("finished run {idx} cut from {n} to {cut} bytes ({} runs on disk)", files.len() + 1)); } } } }
            }
        }
        x
    }
}
fn extsort_case(c: &mut Case, fam: &str) -> Res {
    let (huge, fam) = split_huge(fam);
    use zipora::algorithms::{ReplaceSelectSort, ReplaceSelectSortConfig};
    let td = tempfile::tempdir().map_err(|e| bad("harness_io", e.to_string()))?;
    let nmax = if c.rng.chance(1, 8) { 900 } else { 300 }; let n = 20 + c.rng.usize_below(nmax);
    let kind = *c.rng.pick(&[3u32, 3, 2, 1, 8, 5]); let mut input: Vec<u64> = { let mut v = gen::ints_kind(&mut c.rng, kind, n, u64::MAX); if c.rng.chance(1, 6) { v.reverse(); } v };
    let mut mem_items = 2 + c.rng.usize_below(30) + n / 25;
    if huge {
        // (a) many runs (> 256 run files), (b) > 65 536 / > 10^5 elements in a few long ascending blocks (run files > 1 MiB, long merge), (c) one run of > 65 536 equal keys
        match c.rng.below(3) {
            0 => { let n = 600 + c.rng.usize_below(80); input = (0..n).map(|_| c.rng.next()).collect(); mem_items = 4 + c.rng.usize_below(60); c.input_str("huge_shape", "many_runs"); }
            1 => { let blocks = 2 + c.rng.usize_below(4); let per = (*c.rng.pick(&[65_537usize, 100_001, 131_073])) / blocks + 1; input = Vec::new(); for b in 0..blocks { let start = c.rng.below(1 << 40); for i in 0..per { input.push(start + (i as u64) * 3 + b as u64); } } mem_items = 16 + c.rng.usize_below(2000); c.input_str("huge_shape", "long_blocks"); }
            _ => { let n = 65_537 + c.rng.usize_below(40_000); let k = c.rng.next(); input = (0..n).map(|i| if i % 20_000 == 19_999 { k.wrapping_sub(1 + (i as u64 % 7)) } else { k }).collect(); mem_items = 8 + c.rng.usize_below(500); c.input_str("huge_shape", "dominant_key"); }
        }
    }
    let raw: Vec<u8> = input.iter().flat_map(|x| x.to_le_bytes()).collect(); c.input("input", &raw); c.input_str("kind", gen::int_kind_name(kind)); c.input_str("mem_items", &mem_items.to_string());
    let cfg = ReplaceSelectSortConfig { memory_buffer_size: mem_items * 8, temp_dir: td.path().to_path_buf(), use_secure_memory: false, compress_temp_files: false, merge_ways: 16, cleanup_temp_files: true };
    let cut_frac = match c.rng.below(6) { 0 => (0, 1), 1 => (1, 2), 2 => (1, 0), 3 => (7, 0), 4 => (9, 10), _ => (c.rng.below(100), 100) };
    let log = std::rc::Rc::new(std::cell::RefCell::new(None));
    let which = c.rng.next();
    c.input_str("cut", &format!("{}/{}", cut_frac.0, cut_frac.1));
    let mut expect = input.clone(); expect.sort();
    let faulty = fam != "clean";
    let it = FaultIter { items: input.clone().into_iter(), dir: td.path().to_path_buf(), cut_frac, which, fired: !faulty, log: log.clone() };
    let r = catch(|| { let mut s = ReplaceSelectSort::<u64>::new(cfg); let r = s.sort(it); (r, s.stats().runs_generated) });
    let (r, runs) = match r { Ok(x) => x, Err(p) => { let applied = log.borrow().clone(); return Err(bad(&p.class(), format!("sort panicked at {}: {} (fault: {applied:?})", p.loc, p.msg))) } };
    c.note("runs", runs as u64); c.ev(1);
    let applied = log.borrow().clone();
    c.tag(&format!("f:{fam}"));
    c.set_nontrivial(runs >= 2);
    match (applied, r) {
        (None, Ok(v)) => { c.note("no_fault_applied", 1); ensure!(v == expect, "clean_mismatch", "sort through {} run files returned {} elements, want {} (first diff at {})", runs, v.len(), expect.len(), v.iter().zip(expect.iter()).position(|(a, b)| a != b).unwrap_or(v.len().min(expect.len()))); Ok(()) }
        (None, Err(e)) => fail("clean_reopen_err", format!("sort failed without any fault: {e}")),
        (Some(_), Err(_)) => { c.note("open_err", 1); Ok(()) }
        (Some(f), Ok(v)) => { c.tag("extsort_finished_run_cut"); if v == expect { c.note("open_ok_match", 1); Ok(()) } else { fail("silent_data_loss", format!("{f}: sort returned Ok with {} of {} elements (sorted prefix property: {})", v.len(), expect.len(), v.windows(2).all(|w| w[0] <= w[1]))) } }
    }
}


// =============================================================================================
// GAP families (appended): alternative constructors / cursors / zero-copy reads / bulk copies / caches of the same
// file-backed structures. Only `clean` and `trunc` state families are used.
// =============================================================================================
use zipora::blob_store::{NestLoudsTrieBlobStore, TrieBlobStoreConfig};
use zipora::compression::dict_zip::ConcurrentSuffixArrayDictionary;
type Nlt = NestLoudsTrieBlobStore<zipora::RankSelectInterleaved256>;

// ---- io_mmap: from_path / new(File), is_empty, position, peek_slice, peek_slice_zero_copy, read_slice_zero_copy; Output::remaining
fn child_io_api(path: &Path, job: &Value) -> CR {
    let r = if job["via_file"].as_bool().unwrap_or(false) { match std::fs::File::open(path) { Ok(f) => MemoryMappedInput::new(f), Err(e) => return CR::Err(e.to_string()) } } else { MemoryMappedInput::from_path(path) };
    let mut inp = match r { Ok(i) => i, Err(e) => return CR::Err(e.to_string()) };
    let n = inp.len();
    if inp.is_empty() != (n == 0) { return CR::Incons(format!("is_empty()={} with len {n}", inp.is_empty())); }
    if inp.position() != 0 || inp.remaining() != n { return CR::Incons(format!("fresh input: position {} remaining {} len {n}", inp.position(), inp.remaining())); }
    let strat = format!("{:?}", inp.strategy());
    let mapped = strat != "BufferedIO"; // the buffered strategy documents peek / zero-copy as not supported
    let mut raw = Vec::with_capacity(n); let mut k = 0usize; let (mut zc, mut pk) = (0u64, 0u64);
    while inp.remaining() > 0 {
        let pos = inp.position();
        let want = [1usize, 5, 64, 4096, 3, 1000, 65536, 17][k % 8].min(inp.remaining()); k += 1;
        let p1 = inp.peek_slice(want).map_err(|e| e.to_string());
        let p2 = inp.peek_slice_zero_copy(want).map(|s| s.to_vec()).map_err(|e| e.to_string());
        if inp.position() != pos { return CR::Incons("peek moved the cursor".into()); }
        let mut d: Option<Vec<u8>> = None;
        if k % 2 == 0 { match inp.read_slice_zero_copy(want) { Ok(s) => { zc += 1; d = Some(s.to_vec()); } Err(e) => { if mapped { return CR::Incons(format!("read_slice_zero_copy({want}) inside len failed at {pos}: {e}")); } if inp.position() != pos { return CR::Incons("failed zero-copy read moved the cursor".into()); } } } }
        let d = match d { Some(d) => d, None => match inp.read_slice(want) { Ok(d) => d, Err(e) => return CR::Incons(format!("read_slice({want}) inside len failed at {pos}: {e}")) } };
        if d.len() != want || inp.position() != pos + want || inp.remaining() != n - pos - want { return CR::Incons(format!("after reading {want} at {pos}: got {} bytes, position {}, remaining {}", d.len(), inp.position(), inp.remaining())); }
        for (name, p) in [("peek_slice", &p1), ("peek_slice_zero_copy", &p2)] { match p { Ok(x) => { if *x != d { return CR::Incons(format!("{name}({want}) at {pos} differs from the read that follows")); } pk += 1; } Err(e) => if mapped { return CR::Incons(format!("{name}({want}) inside len failed at {pos}: {e}")); } } }
        raw.extend_from_slice(&d);
    }
    if inp.peek_slice(1).is_ok() || inp.peek_slice_zero_copy(1).is_ok() || inp.read_slice_zero_copy(1).is_ok() { return CR::Incons("peek / zero-copy read past the end succeeded".into()); }
    if n > 0 { let h = n / 2; if inp.seek(h).is_err() || inp.position() != h || inp.remaining() != n - h { return CR::Incons("seek(len/2)".into()); }
        let w = (n - h).min(9); if mapped { match inp.peek_slice_zero_copy(w) { Ok(x) if x == &raw[h..h + w] => {} _ => return CR::Incons("peek after seek differs from the bytes read sequentially".into()) } } }
    let mut content = (raw.len() as u64).to_le_bytes().to_vec(); content.extend_from_slice(&raw);
    CR::Ok { len: n as u64, content, notes: vec![(format!("strategy:{strat}"), 1), ("zero_copy_reads".into(), zc), ("peeks".into(), pk)] }
}
fn io_api_case(c: &mut Case, fam: &str) -> Res {
    let td = tempfile::tempdir().map_err(|e| bad("harness_io", e.to_string()))?;
    let path = td.path().join("out.bin");
    let mut snaps: Vec<Snap> = Vec::new(); let mut models: Vec<Vec<u8>> = Vec::new();
    for ver in 0..2 {
        let n = match c.rng.below(4) { 0 => *c.rng.pick(&[1usize, 4095, 4096, 4097, 8192]), 1 => 4097 + c.rng.usize_below(70_000), _ => 1 + c.rng.usize_below(6000) };
        let kind = c.rng.below(gen::BYTE_KINDS as u64) as u32; let data = gen::bytes_kind(&mut c.rng, kind, n);
        let init = *c.rng.pick(&[1usize, 16, 4096, 5000]);
        c.input(&format!("data{ver}_init{init}"), &data);
        let r = catch(|| -> Result<(), Fail> {
            let mut o = MemoryMappedOutput::create(&path, init).map_err(|e| bad("create_err", format!("create({init}) failed: {e}")))?;
            let mut pos = 0usize;
            for ch in data.chunks((data.len() / 3).max(1)) { o.write_slice(ch).map_err(|e| bad("op_err", format!("write_slice failed: {e}")))?; pos += ch.len();
                if o.position() != pos || o.remaining() != o.capacity() - pos { return Err(bad("inmem_diverged", format!("position {} remaining {} capacity {} after writing {pos} bytes", o.position(), o.remaining(), o.capacity()))); } }
            o.truncate().map_err(|e| bad("op_err", format!("truncate failed: {e}")))?;
            if o.remaining() != 0 { return Err(bad("inmem_diverged", format!("remaining() = {} after truncate()", o.remaining()))); }
            o.flush().map_err(|e| bad("op_err", format!("flush failed: {e}")))
        });
        match r { Ok(Ok(())) => {} Ok(Err(f)) => return Err(f), Err(p) => return Err(bad(&p.class(), format!("writer panicked at {}: {}", p.loc, p.msg))) }
        models.push(io_ref_content(&data, ""));
        snaps.push(Snap { bytes: std::fs::read(&path).map_err(|e| bad("harness_io", e.to_string()))?, upto: models.len(), model: models.len() - 1 });
    }
    let mut rng = c.rng.fork();
    let h = Hist { snaps, models, hdr: 0, esz: 1, dirty: None, extra: vec![] };
    let mut states = if fam == "api_clean" { clean_states(&h) } else { fault_states("trunc", &h, 1, &mut rng, c.tier == crate::ctx::Tier::Quick) };
    if states.len() > 40 { rng.shuffle(&mut states); states.truncate(40); }
    c.tag(&format!("f:{fam}"));
    // a header-less byte stream vouches only for its own bytes
    let mut models = h.models.clone();
    if fam != "api_clean" { for s in states.iter_mut() { models.push(io_ref_content(&s.bytes, "")); s.lo = models.len() - 1; s.hi = models.len(); } }
    let via_file = rng.bool(); c.input_str("via_file", &via_file.to_string());
    let mk = move |p: &Path| json!({"k": "io_api", "via_file": via_file, "path": p.to_string_lossy()});
    let mut agg = Agg::for_family(if fam == "api_clean" { "clean" } else { "trunc" });
    let outs = run_file_states(c, td.path(), &states, &mk, &models, None, &mut agg);
    for o in &outs { if let Out::Ok { notes, .. } = o { for (k, v) in notes { c.note(k, *v); } } }
    c.set_nontrivial(!states.is_empty());
    agg.finish(c)
}

// ---- reorder: cursor API (index / current) and rewind
fn child_reorder_cursor(path: &Path, j: u64, outf: &mut std::fs::File) -> CR {
    let mut m = match ZReorderMap::open(path) { Ok(m) => m, Err(e) => return CR::Err(e.to_string()) };
    let size = m.size();
    line(outf, json!({"j": j, "st": "opened", "len": size as u64, "cap": 0}));
    let mut passes: Vec<Vec<u8>> = Vec::new();
    for pass in 0..2 {
        let mut out = Vec::new(); let mut n = 0usize;
        while !m.eof() && n < 50_000_000 {
            let (i, cur) = (m.index(), m.current());
            if i != n { return CR::Incons(format!("pass {pass}: index() = {i} before element {n}")); }
            match m.next() { Some(v) => { if v != cur { return CR::Incons(format!("pass {pass}: current() = {cur} but next() = {v} at element {n}")); } out.extend_from_slice(&(v as u64).to_le_bytes()); n += 1; } None => return CR::Incons(format!("pass {pass}: next() is None while !eof() at element {n}")) }
        }
        if m.next().is_some() { return CR::Incons("next() is Some at eof()".into()); }
        passes.push(out);
        if pass == 0 { if let Err(e) = m.rewind() { return CR::Incons(format!("rewind() of an opened map failed: {e}")); } if m.size() != size { return CR::Incons("size() changed by rewind()".into()); } }
    }
    if passes[0] != passes[1] { return CR::Incons("second pass after rewind() differs from the first".into()); }
    let n = passes[0].len() as u64 / 8;
    CR::Ok { len: size as u64, content: passes.swap_remove(0), notes: vec![("declared".to_string(), size as u64), ("yielded".to_string(), n)] }
}

// ---- zipoffset: offset cache == no cache; security_optimized preset; empty store from new(); NestLoudsTrieBlobStore's inner store
fn child_zipoffset_cached(path: &Path) -> CR {
    let mut s = match ZipOffsetBlobStore::load_from_file(path) { Ok(s) => s, Err(e) => return CR::Err(e.to_string()) };
    let plain = match canon_blobs(&s) { Ok(c) => c, Err(e) => return CR::Incons(e) };
    s.enable_offset_cache(); s.enable_offset_cache();
    let cached = match canon_blobs(&s) { Ok(c) => c, Err(e) => return CR::Incons(format!("with offset cache: {e}")) };
    if cached != plain { return CR::Incons("content read with the offset cache enabled differs from the uncached content".into()); }
    for i in (0..s.len()).rev() { match s.get(i as u32) { Ok(d) => { if s.size(i as u32).ok().flatten() != Some(d.len()) { return CR::Incons(format!("size({i}) disagrees with get({i}).len() = {}", d.len())); } } Err(e) => return CR::Incons(format!("reverse get({i}) with offset cache failed: {e}")) } }
    if s.get(s.len() as u32).is_ok() { return CR::Incons("get(len) succeeded".into()); }
    CR::Ok { len: s.len() as u64, content: plain, notes: vec![] }
}
fn zipoffset_cached_case(c: &mut Case, fam: &str) -> Res {
    let td = tempfile::tempdir().map_err(|e| bad("harness_io", e.to_string()))?;
    let path = td.path().join("store.zo");
    let mut snaps = Vec::new(); let mut models: Vec<Vec<u8>> = Vec::new();
    for ver in 0..2 {
        let which = c.rng.below(5);
        let cfg = match which { 0 | 1 => ZipOffsetBlobStoreConfig::security_optimized(), 2 => ZipOffsetBlobStoreConfig::default(), 3 => ZipOffsetBlobStoreConfig::performance_optimized(), _ => ZipOffsetBlobStoreConfig::default() };
        let empty_new = which == 4 && ver == 0 && c.rng.chance(1, 2);
        c.input_str(&format!("cfg{ver}"), &format!("{which}/{empty_new}"));
        let n = 1 + c.rng.usize_below(40);
        let recs: Vec<Vec<u8>> = (0..n).map(|_| gen::bytes_any(&mut c.rng, 500).1).collect();
        for r in &recs { c.input("rec", r); }
        let r = catch(|| -> zipora::error::Result<ZipOffsetBlobStore> { if empty_new { return ZipOffsetBlobStore::new(); } let mut b = ZipOffsetBlobStoreBuilder::with_config(cfg)?; for r in &recs { b.add_record(r)?; } b.finish() });
        let store = match r { Ok(Ok(s)) => s, Ok(Err(e)) => return Err(bad("op_err", format!("builder failed: {e}"))), Err(p) => return Err(bad(&p.class(), format!("builder panicked at {}", p.loc))) };
        let m = canon_blobs(&store).map_err(|e| bad("inmem_read_err", e))?;
        if empty_new && store.len() != 0 { return fail("inmem_diverged", format!("ZipOffsetBlobStore::new() has {} records", store.len())); }
        match catch(|| store.save_to_file(&path)) { Ok(Ok(())) => {} Ok(Err(e)) => return Err(bad("op_err", format!("save_to_file failed: {e}"))), Err(p) => return Err(bad(&p.class(), format!("save panicked at {}", p.loc))) }
        models.push(m);
        snaps.push(Snap { bytes: std::fs::read(&path).map_err(|e| bad("harness_io", e.to_string()))?, upto: models.len(), model: models.len() - 1 });
    }
    let h = Hist { snaps, models, hdr: 128, esz: 1, dirty: None, extra: vec![] };
    let mk = |p: &Path| json!({"k": "zipoffset_cached", "path": p.to_string_lossy()});
    single_file_case(c, if fam == "cached_clean" { "clean" } else { "trunc" }, &h, td.path(), &mk, None)
}

fn nlt_keys(c: &mut Case, n: usize) -> Vec<Vec<u8>> {
    let mut set: BTreeSet<Vec<u8>> = BTreeSet::new();
    let roots: [&[u8]; 4] = [b"user/", b"usr/", b"u", b"data/log/"];
    let mut guard = 0;
    while set.len() < n && guard < 10 * n + 10 { guard += 1;
        let mut k = c.rng.pick(&roots).to_vec(); let l = 1 + c.rng.usize_below(8);
        for _ in 0..l { k.push(*c.rng.pick(b"abcde/xyz01")); }
        set.insert(k); }
    let mut v: Vec<Vec<u8>> = set.into_iter().collect(); c.rng.shuffle(&mut v); v
}
fn nlt_cfg(c: &mut Case) -> (String, TrieBlobStoreConfig) {
    match c.rng.below(5) {
        0 => ("new".into(), TrieBlobStoreConfig::new()), 1 => ("perf".into(), TrieBlobStoreConfig::performance_optimized()), 2 => ("mem".into(), TrieBlobStoreConfig::memory_optimized()), 3 => ("sec".into(), TrieBlobStoreConfig::security_optimized()),
        _ => { let (kc, bo, st, ks) = (c.rng.bool(), c.rng.bool(), c.rng.bool(), *c.rng.pick(&[0usize, 1, 4, 1024]));
            let b = TrieBlobStoreConfig::builder().trie_config(zipora::ZiporaTrieConfig::default()).blob_config(if c.rng.bool() { ZipOffsetBlobStoreConfig::default() } else { ZipOffsetBlobStoreConfig::security_optimized() })
                .memory_config(zipora::memory::SecurePoolConfig::small_secure()).key_compression(kc).batch_optimization(bo).key_cache_size(ks).statistics(st);
            (format!("builder:{kc}/{bo}/{st}/{ks}"), b.build().unwrap_or_else(|_| TrieBlobStoreConfig::new())) }
    }
}
/// keyed read-back of a store against the (distinct-key) pairs it was built from
fn nlt_check(store: &mut Nlt, pairs: &[(Vec<u8>, Vec<u8>)], c: &mut Case) -> Res {
    let by_key: BTreeMap<&[u8], &[u8]> = pairs.iter().map(|(k, v)| (&k[..], &v[..])).collect();
    for (k, v) in pairs {
        ensure!(store.contains_key(k), "nlt_key_lost", "contains_key({:?}) is false", String::from_utf8_lossy(k));
        match store.get_by_key(k) { Ok(d) => ensure!(&d == v, "nlt_value_mismatch", "get_by_key({:?}) returned {} bytes, want {}", String::from_utf8_lossy(k), d.len(), v.len()), Err(e) => return fail("nlt_key_lost", format!("get_by_key({:?}) failed: {e}", String::from_utf8_lossy(k))) }
        c.ev(2);
    }
    let want: Vec<Vec<u8>> = by_key.keys().map(|k| k.to_vec()).collect();
    match store.keys() { Ok(ks) => ensure!(ks == want, "nlt_keys_mismatch", "keys() returned {} keys, want {}", ks.len(), want.len()), Err(e) => return fail("nlt_keys_mismatch", format!("keys() failed: {e}")) }
    for prefix in [&b"user/"[..], b"u", b"usr/a", b"data/log/x", b"zzz", b""] {
        let wk: Vec<Vec<u8>> = want.iter().filter(|k| k.starts_with(prefix)).cloned().collect();
        match store.keys_with_prefix(prefix) { Ok(ks) => ensure!(ks == wk, "nlt_prefix_mismatch", "keys_with_prefix({:?}) returned {} keys, want {}", String::from_utf8_lossy(prefix), ks.len(), wk.len()), Err(e) => return fail("nlt_prefix_mismatch", format!("keys_with_prefix failed: {e}")) }
        match store.get_by_prefix(prefix) { Ok(kv) => { let w: Vec<(Vec<u8>, Vec<u8>)> = wk.iter().map(|k| (k.clone(), by_key[&k[..]].to_vec())).collect(); ensure!(kv == w, "nlt_prefix_mismatch", "get_by_prefix({:?}) returned {} pairs, want {}", String::from_utf8_lossy(prefix), kv.len(), w.len()) } Err(e) => return fail("nlt_prefix_mismatch", format!("get_by_prefix failed: {e}")) }
        c.ev(2);
    }
    if store.config().enable_statistics { c.note("key_count_eq_n", (store.key_count() == pairs.len()) as u64); }
    ensure!(!store.contains_key(b"user/~absent~"), "nlt_phantom_key", "contains_key of an absent key is true");
    Ok(())
}
/// NestLoudsTrieBlobStore built four ways; the inner ZipOffsetBlobStore (blob_store()) is the file-backed part: saved, reopened in the child
fn nlt_case(c: &mut Case, fam: &str) -> Res {
    let td = tempfile::tempdir().map_err(|e| bad("harness_io", e.to_string()))?;
    let path = td.path().join("nlt.zo");
    let mut snaps = Vec::new(); let mut models: Vec<Vec<u8>> = Vec::new();
    for ver in 0..2 {
        let n = 1 + c.rng.usize_below(24);
        let keys = nlt_keys(c, n);
        let route = c.rng.below(6);
        let pairs: Vec<(Vec<u8>, Vec<u8>)> = keys.into_iter().map(|k| { let v = if route >= 4 { k.clone() } else { let mut v = gen::bytes_any(&mut c.rng, 300).1; v.push(7); v }; (k, v) }).collect();
        for (k, v) in &pairs { c.input("key", k); c.input("val", v); }
        let (cname, cfg) = nlt_cfg(c);
        c.input_str(&format!("route{ver}"), &format!("{route}/{cname}"));
        let sorted = cfg.enable_batch_optimization;
        let tcfg = zipora::config::nest_louds_trie::NestLoudsTrieConfig::default();
        let mut progress = 0usize; let alt = c.rng.bool();
        let built = catch(|| -> zipora::error::Result<(Nlt, bool)> { Ok(match route {
            0 => { let mut s = Nlt::new(cfg.clone())?; let h = pairs.len() / 2; let mut ids = Vec::new(); for (k, v) in &pairs[..h] { ids.push(s.put_with_key(k, v)?); } ids.extend(s.put_batch_with_keys(pairs[h..].iter().cloned())?);
                if ids != (0..pairs.len() as u32).collect::<Vec<u32>>() { return Err(zipora::error::ZiporaError::invalid_data("ZV: record ids are not 0..n in put order")); } (s, false) }
            1 => { let mut b = Nlt::builder(cfg.clone())?; b.reserve(pairs.len()); let h = pairs.len() / 2; for (k, v) in &pairs[..h] { b.add(k, v)?; } b.add_batch(pairs[h..].iter().cloned())?;
                if b.len() != pairs.len() || b.is_empty() { return Err(zipora::error::ZiporaError::invalid_data("ZV: builder len()")); } (b.finish()?, sorted) }
            2 => { let mut b = Nlt::builder(cfg.clone())?; b.add_batch(pairs.iter().cloned())?; (b.finish_with_progress(|cur, _tot| { progress = cur; })?, sorted) }
            3 => { let mut b = if alt { Nlt::builder_default()? } else { zipora::blob_store::NestLoudsTrieBlobStoreBuilder::<zipora::RankSelectInterleaved256>::default()? }; for (k, v) in &pairs { b.add(k, v)?; } b.sort_entries(); (b.finish()?, true) }
            4 => { let mut sv = zipora::containers::specialized::SortableStrVec::new(); for (k, _) in &pairs { sv.push_str(std::str::from_utf8(k).unwrap_or("x"))?; } (Nlt::build_from_sortable_str_vec(&sv, &tcfg)?, false) }
            _ => (Nlt::build_from_key_value_pairs(&pairs, &tcfg)?, false),
        }) });
        let (mut store, is_sorted) = match built { Ok(Ok(x)) => x, Ok(Err(e)) if e.to_string().contains("ZV:") => return fail("nlt_inmem_diverged", e.to_string()), Ok(Err(_)) => { c.note("builder_refused", 1); c.set_nontrivial(false); return Ok(()); } Err(p) => return Err(bad(&p.class(), format!("NestLoudsTrieBlobStore build (route {route}) panicked at {}: {}", p.loc, p.msg))) };
        if route == 2 { ensure!(progress == pairs.len(), "nlt_inmem_diverged", "finish_with_progress last reported {} of {}", progress, pairs.len()); }
        let mut order = pairs.clone(); if is_sorted { order.sort_by(|a, b| a.0.cmp(&b.0)); }
        if let Err(p) = catch(|| store.finalize()).map_err(|p| bad(&p.class(), format!("finalize panicked at {}", p.loc))).and_then(|r| r.map_err(|e| bad("op_err", format!("finalize failed: {e}")))) { if p.oracle == "op_err" { c.note("builder_refused", 1); c.set_nontrivial(false); return Ok(()); } return Err(p); }
        ensure!(store.is_finalized(), "nlt_inmem_diverged", "is_finalized() false after finalize()");
        match catch(|| nlt_check(&mut store, &pairs, c)) { Ok(r) => r?, Err(p) => return Err(bad(&p.class(), format!("keyed read-back panicked at {}: {}", p.loc, p.msg))) }
        // model: the records in record-id order
        let mut m = (order.len() as u64).to_le_bytes().to_vec(); for (_, v) in &order { m.extend_from_slice(&(v.len() as u64).to_le_bytes()); m.extend_from_slice(v); }
        let outer = canon_blobs(&store).map_err(|e| bad("inmem_read_err", e))?;
        ensure!(outer == m, "nlt_inmem_diverged", "get(id) over 0..len() of the trie store differs from the values in insertion order (route {})", route);
        let inner = match store.blob_store() { Some(b) => b, None => return fail("nlt_inmem_diverged", "blob_store() is None after finalize()") };
        let im = canon_blobs(inner).map_err(|e| bad("inmem_read_err", format!("inner store: {e}")))?;
        // ZipOffsetBlobStoreBuilder::finish() is a documented placeholder (returns an empty store): as in the zipoffset target the
        // model of the FILE is what the in-memory inner store presents at save time; the difference is kept as a counter
        c.note("records_put", order.len() as u64); c.note("records_in_inner_store_at_save", inner.len() as u64);
        let m = im;
        match catch(|| inner.save_to_file(&path)) { Ok(Ok(())) => {} Ok(Err(e)) => return Err(bad("op_err", format!("save_to_file failed: {e}"))), Err(p) => return Err(bad(&p.class(), format!("save panicked at {}", p.loc))) }
        models.push(m);
        snaps.push(Snap { bytes: std::fs::read(&path).map_err(|e| bad("harness_io", e.to_string()))?, upto: models.len(), model: models.len() - 1 });
    }
    let h = Hist { snaps, models, hdr: 128, esz: 1, dirty: None, extra: vec![] };
    let mk = |p: &Path| json!({"k": "zipoffset_cached", "path": p.to_string_lossy()});
    single_file_case(c, if fam == "nlt_clean" { "clean" } else { "trunc" }, &h, td.path(), &mk, None)
}

/// single_file_case with at most `cap` fault states (expensive child jobs)
fn single_file_case_cap(c: &mut Case, fam: &str, h: &Hist, dir: &Path, mk: &dyn Fn(&Path) -> Value, cap: usize) -> Res {
    let mut rng = c.rng.fork();
    let mut states = if fam == "clean" { clean_states(h) } else { if h.snaps.is_empty() { c.set_nontrivial(false); return Ok(()); } let i = if rng.bool() { h.snaps.len() - 1 } else { rng.usize_below(h.snaps.len()) }; fault_states(fam, h, i, &mut rng, true) };
    if states.len() > cap { let head: Vec<FState> = states.drain(..cap / 3).collect(); rng.shuffle(&mut states); states.truncate(cap - head.len()); let mut v = head; v.extend(states); states = v; }
    c.tag(&format!("f:{fam}"));
    let mut agg = Agg::for_family(fam);
    let outs = run_file_states2(c, dir, &states, mk, &h.models, None, None, &mut agg);
    for o in &outs { if let Out::Ok { notes, .. } = o { for (k, v) in notes { c.note(k, *v); } } }
    c.set_nontrivial(!states.is_empty() && h.models.iter().any(|m| m.len() > 8));
    agg.finish(c)
}

// ---- sa_dict: find_all_matches, is_external_mode, ConcurrentSuffixArrayDictionary
fn canon_dict_m(d: &mut SuffixArrayDictionary, probes: &[Vec<u8>]) -> Result<Vec<u8>, String> {
    let mut out = canon_dict(d, probes)?;
    let t = d.dictionary_text().to_vec();
    for p in probes { if p.is_empty() { continue; }
        let truth = if p.len() <= t.len() { t.windows(p.len()).filter(|w| *w == &p[..]).count() } else { 0 };
        for maxm in [1usize, 64] {
            let ms = d.find_all_matches(p, maxm).map_err(|e| format!("find_all_matches failed: {e}"))?;
            if ms.len() > maxm || ms.len() > truth { return Err(format!("find_all_matches(len {}, max {maxm}) returned {} matches; the text holds {truth} occurrences", p.len(), ms.len())); }
            let mut seen = BTreeSet::new();
            for m in &ms { if m.length != p.len() || m.dict_position + m.length > t.len() || t[m.dict_position..m.dict_position + m.length] != p[..] { return Err(format!("find_all_matches: match (pos {}, len {}) is not an occurrence of the {}-byte pattern", m.dict_position, m.length, p.len())); }
                if !seen.insert(m.dict_position) { return Err(format!("find_all_matches: position {} reported twice", m.dict_position)); } }
            out.extend_from_slice(&(ms.len() as u64).to_le_bytes());
        }
    }
    Ok(out)
}
fn child_sadict_m(path: &Path, job: &Value) -> CR {
    let mut d = match SuffixArrayDictionary::load_from_file(path) { Ok(d) => d, Err(e) => return CR::Err(e.to_string()) };
    let probes = read_probes(job);
    match canon_dict_m(&mut d, &probes) { Ok(c) => CR::Ok { len: d.dictionary_size() as u64, content: c, notes: vec![("external_mode_after_load".into(), d.is_external_mode() as u64)] }, Err(e) => CR::Incons(e) }
}
fn sadict_m_case(c: &mut Case, fam: &str) -> Res {
    let td = tempfile::tempdir().map_err(|e| bad("harness_io", e.to_string()))?;
    let path = td.path().join("dict.bin"); let aux = td.path().join("probes.bin");
    let texts: Vec<Vec<u8>> = (0..2).map(|_| dict_text(c, 3000)).collect();
    let probes = dict_probes(c, &texts); write_probes(&aux, &probes);
    let mut snaps = Vec::new(); let mut models: Vec<Vec<u8>> = Vec::new();
    for (ver, t) in texts.iter().enumerate() {
        c.input(&format!("text{ver}"), t);
        let ext = c.rng.bool();
        let cfg = SuffixArrayDictionaryConfig { external_mode: ext, use_memory_pool: false, min_frequency: 2 + c.rng.below(3) as u32, max_bfs_depth: 2 + c.rng.below(3) as u32, min_pattern_length: 2 + c.rng.usize_below(4), max_pattern_length: 32 + c.rng.usize_below(300), ..Default::default() };
        c.input_str(&format!("cfg{ver}"), &format!("ext={ext} min={} max={}", cfg.min_pattern_length, cfg.max_pattern_length));
        let mut d = match catch(|| SuffixArrayDictionary::new(t, cfg.clone())) { Ok(Ok(d)) => d, Ok(Err(e)) => return Err(bad("op_err", format!("dictionary build failed: {e}"))), Err(p) => return Err(bad(&p.class(), format!("dictionary build panicked at {}: {}", p.loc, p.msg))) };
        ensure!(d.is_external_mode() == ext, "inmem_diverged", "is_external_mode() = {} for external_mode = {}", d.is_external_mode(), ext);
        let m = match catch(|| canon_dict_m(&mut d, &probes)) { Ok(Ok(m)) => m, Ok(Err(e)) => return inconclusive(format!("in-memory dictionary fails its own read-back: {e}")), Err(p) => return inconclusive(format!("in-memory dictionary read-back panicked at {}", p.loc)) };
        // the lock-wrapped dictionary over the same text answers like the plain one
        match catch(|| -> Result<(), String> { let cd = ConcurrentSuffixArrayDictionary::new(t, cfg.clone()).map_err(|e| format!("new failed: {e}"))?;
            for p in &probes { let a = cd.find_longest_match(p, 0, p.len()).map_err(|e| e.to_string())?.map(|m| (m.length, m.dict_position)); let b = d.find_longest_match(p, 0, p.len()).map_err(|e| e.to_string())?.map(|m| (m.length, m.dict_position)); if a != b { return Err(format!("{a:?} vs {b:?} for a {}-byte probe", p.len())); } }
            let _ = cd.match_stats(); Ok(()) }) { Ok(Ok(())) => c.ev(probes.len() as u64), Ok(Err(e)) => return fail("concurrent_dict_differs", e), Err(p) => return Err(bad(&p.class(), format!("ConcurrentSuffixArrayDictionary panicked at {}", p.loc))) }
        match catch(|| d.save_to_file(&path)) { Ok(Ok(())) => {} Ok(Err(e)) => return Err(bad("op_err", format!("save_to_file failed: {e}"))), Err(p) => return Err(bad(&p.class(), format!("save panicked at {}", p.loc))) }
        models.push(m);
        snaps.push(Snap { bytes: std::fs::read(&path).map_err(|e| bad("harness_io", e.to_string()))?, upto: models.len(), model: models.len() - 1 });
    }
    let h = Hist { snaps, models, hdr: 8, esz: 1, dirty: None, extra: vec![] };
    let auxs = aux.to_string_lossy().to_string();
    let mk = move |p: &Path| json!({"k": "sadict_m", "aux": auxs, "path": p.to_string_lossy()});
    single_file_case_cap(c, if fam == "matches_clean" { "clean" } else { "trunc" }, &h, td.path(), &mk, 40)
}

// ---- dictzip: load_dictionary into a live store; builder setters, presets, build_from_* constructors; iter_ids_vec / iter_blobs_vec
fn child_dictzip_load(path: &Path, job: &Value) -> CR {
    let base = job["base"].as_str().unwrap_or("");
    let mut s = match DictZipBlobStore::from_dictionary_file(base, DictZipConfig::default()) { Ok(s) => s, Err(e) => return CR::Incons(format!("harness: base dictionary does not load: {e}")) };
    let _ = s.put(b"a record stored before the dictionary is replaced, a record stored before");
    if let Err(e) = s.load_dictionary(path) { return CR::Err(e.to_string()); }
    let stale = s.iter_ids_vec().len() as u64;
    let probes = read_probes(job);
    let mut out = Vec::new();
    for p in &probes { let ok = match s.put(p) { Ok(id) => matches!(s.get(id), Ok(ref d) if d == p), Err(_) => false }; out.push(ok as u8); }
    CR::Ok { len: probes.len() as u64, content: out, notes: vec![("records_surviving_load".into(), stale)] }
}
fn dictzip_load_case(c: &mut Case, fam: &str) -> Res {
    let td = tempfile::tempdir().map_err(|e| bad("harness_io", e.to_string()))?;
    let path = td.path().join("dz.dict"); let aux = td.path().join("probes.bin"); let base = td.path().join("base.dict"); let tf = td.path().join("train.bin");
    let texts: Vec<Vec<u8>> = (0..2).map(|_| dict_text(c, 2500)).collect();
    let probes = dict_probes(c, &texts); write_probes(&aux, &probes);
    let mut snaps = Vec::new(); let mut models: Vec<Vec<u8>> = Vec::new();
    let tcfg = zipora::config::nest_louds_trie::NestLoudsTrieConfig::default();
    for (ver, t) in texts.iter().enumerate() {
        c.input(&format!("text{ver}"), t);
        let route = c.rng.below(6); let preset = c.rng.below(5);
        let mut cfg = match preset { 0 => DictZipConfig::default(), 1 => DictZipConfig::text_compression(), 2 => DictZipConfig::binary_compression(), 3 => DictZipConfig::log_compression(), _ => DictZipConfig::realtime_compression() };
        cfg.dict_builder_config.use_parallel = false; cfg.dict_builder_config.enable_progress = false;
        let cfg = cfg.with_cache_size_mb(1 + c.rng.usize_below(4)).with_min_compression_size(*c.rng.pick(&[16usize, 32, 64, 256]));
        let mf = 1 + c.rng.below(4) as u32;
        c.input_str(&format!("route{ver}"), &format!("{route}/preset{preset}/mf{mf}"));
        // the NestLoudsTrieConfig-mapped constructors use deep BFS presets: keep their training text short (cost)
        let t: &Vec<u8> = &(if route >= 4 { t[..t.len().min(400)].to_vec() } else if route == 3 { t[..t.len().min(1200)].to_vec() } else { t.clone() });
        let chunks: Vec<Vec<u8>> = t.chunks(400).map(|x| x.to_vec()).collect();
        let calls = std::sync::Arc::new(std::sync::atomic::AtomicU64::new(0)); let calls2 = calls.clone(); let t0 = std::time::Instant::now();
        let r = catch(|| -> zipora::error::Result<DictZipBlobStore> { match route {
            0 => { let mut b = DictZipBlobStoreBuilder::with_config(cfg)?; b.add_training_samples(chunks.clone())?; if b.training_stats() != (chunks.len(), t.len()) { return Err(zipora::error::ZiporaError::invalid_data("ZV: training_stats()")); } b.set_min_frequency(mf)?; b.finish() }
            1 => { std::fs::write(&tf, t)?; let mut b = DictZipBlobStoreBuilder::with_config(cfg)?; b.add_training_file(&tf)?; if b.training_stats() != (1, t.len()) { return Err(zipora::error::ZiporaError::invalid_data("ZV: training_stats()")); } b.set_dict_size_mb(1)?; b.enable_advanced_caching()?; b.set_progress_callback(move |_p| { calls2.fetch_add(1, std::sync::atomic::Ordering::Relaxed); }); b.finish() }
            2 => { let mut b = DictZipBlobStoreBuilder::new()?; for ch in &chunks { b.add_training_sample(ch)?; } b.finish() }
            3 => DictZipBlobStore::build_from_training_samples(&chunks, &tcfg),
            4 => DictZipBlobStore::build_from_vec_u8(t, &tcfg),
            _ => { let mut sv = zipora::containers::specialized::SortableStrVec::new(); for ch in t.chunks(60) { sv.push_str(&String::from_utf8_lossy(ch))?; } DictZipBlobStore::build_from_sortable_str_vec(&sv, &tcfg) }
        } });
        let mut store = match r { Ok(Ok(s)) => s, Ok(Err(e)) if e.to_string().contains("ZV:") => return fail("inmem_diverged", e.to_string()), Ok(Err(_)) => { c.note("builder_refused", 1); c.set_nontrivial(false); return Ok(()); } Err(p) => return Err(bad(&p.class(), format!("dictzip build (route {route}) panicked at {}: {}", p.loc, p.msg))) };
        c.log(format!("dictzip_load: route {route} preset {preset} built in {:?}", t0.elapsed()));
        if route == 1 { c.note("progress_callbacks", calls.load(std::sync::atomic::Ordering::Relaxed)); }
        match catch(|| store.save_dictionary(&path)) { Ok(Ok(())) => {} Ok(Err(e)) => return Err(bad("op_err", format!("save_dictionary failed: {e}"))), Err(p) => return Err(bad(&p.class(), format!("save_dictionary panicked at {}", p.loc))) }
        let mut ids: Vec<(u32, usize)> = Vec::new();
        let m = match catch(|| probes.iter().enumerate().map(|(i, p)| match store.put(p) { Ok(id) => { ids.push((id, i)); matches!(store.get(id), Ok(ref d) if d == p) as u8 } Err(_) => 0u8 }).collect::<Vec<u8>>()) { Ok(m) => m, Err(p) => return inconclusive(format!("in-memory store put/get panicked at {}", p.loc)) };
        c.log(format!("dictzip_load: save+probes done at {:?}", t0.elapsed()));
        // listing == the puts made
        let mut listed = store.iter_ids_vec(); listed.sort(); let mut put_ids: Vec<u32> = ids.iter().map(|x| x.0).collect(); put_ids.sort();
        ensure!(listed == put_ids, "iter_ids_mismatch", "iter_ids_vec() lists {} ids, {} puts succeeded", listed.len(), put_ids.len());
        if m.iter().all(|&b| b == 1) { match catch(|| store.iter_blobs_vec()) { Ok(Ok(mut bl)) => { bl.sort(); let mut want: Vec<(u32, Vec<u8>)> = ids.iter().map(|(id, i)| (*id, probes[*i].clone())).collect(); want.sort(); ensure!(bl == want, "iter_blobs_mismatch", "iter_blobs_vec() returned {} pairs that differ from the {} records put", bl.len(), want.len()); c.ev(1); }
            Ok(Err(e)) => return fail("iter_blobs_mismatch", format!("iter_blobs_vec() failed although every get(id) succeeds: {e}")), Err(p) => return Err(bad(&p.class(), format!("iter_blobs_vec panicked at {}", p.loc))) } }
        match catch(|| (store.validate().is_ok(), store.optimize().is_ok())) { Ok((v, o)) => { c.note("validate_ok", v as u64); c.note("optimize_ok", o as u64); } Err(p) => return Err(bad(&p.class(), format!("validate/optimize panicked at {}", p.loc))) }
        c.log(format!("dictzip_load: iter+validate done at {:?}", t0.elapsed()));
        c.note("probe_roundtrips_ok_inmem", m.iter().filter(|&&x| x == 1).count() as u64);
        models.push(m);
        let bytes = std::fs::read(&path).map_err(|e| bad("harness_io", format!("dictionary file missing: {e}")))?;
        if ver == 0 { std::fs::write(&base, &bytes).map_err(|e| bad("harness_io", e.to_string()))?; }
        snaps.push(Snap { bytes, upto: models.len(), model: models.len() - 1 });
    }
    let h = Hist { snaps, models, hdr: 8, esz: 1, dirty: None, extra: vec![] };
    let auxs = aux.to_string_lossy().to_string(); let bases = base.to_string_lossy().to_string();
    let mk = move |p: &Path| json!({"k": "dictzip_load", "aux": auxs, "base": bases, "path": p.to_string_lossy()});
    single_file_case_cap(c, if fam == "load_clean" { "clean" } else { "trunc" }, &h, td.path(), &mk, 14)
}

// ---- mmapvec: with_capacity_simd, copy_from_simd, compare_range_simd, path(), every MmapVecConfigBuilder setter
fn mmapvec_simd_case_t<T: El>(c: &mut Case, fam: &str, tname: &str) -> Res {
    let td = tempfile::tempdir().map_err(|e| bad("harness_io", e.to_string()))?;
    let path = td.path().join("vec.mmap");
    let wcfg = format!("bld:{}:0:{}:{}", *c.rng.pick(&[0usize, 1, 8, 100]), c.rng.bool() as u8, c.rng.bool() as u8);
    c.input_str("elem", tname); c.input_str("writer_cfg", &wcfg);
    let mut prog = String::new();
    let mut models: Vec<Vec<u8>> = vec![vec![]]; let mut snaps: Vec<Snap> = Vec::new();
    macro_rules! okop { ($r:expr, $what:expr) => { match catch(|| $r) { Ok(Ok(x)) => x, Ok(Err(e)) => return Err(bad("op_err", format!("{} failed: {e} (program: {prog})", $what))), Err(p) => return Err(bad(&p.class(), format!("{} panicked at {}: {} (program: {prog})", $what, p.loc, p.msg))) } } }
    let mut v = okop!(MmapVec::<T>::create(&path, preset(&wcfg)), "create");
    ensure!(v.path() == path.as_path(), "inmem_diverged", "path() = {:?}, created at {:?}", v.path(), path);
    let rounds = 2 + c.rng.usize_below(3);
    for round in 0..rounds {
        let n = match c.rng.below(4) { 0 => *c.rng.pick(&[0usize, 1, 15, 16, 17, 63, 64, 65]), 1 => 1000 + c.rng.usize_below(9000), _ => c.rng.usize_below(300) };
        let cap = if c.rng.bool() { n } else { c.rng.usize_below(2 * n + 2) };
        let items = vals::<T>(c, n);
        prog.push_str(&format!("src(cap{cap},len{n});"));
        let mut src = okop!(MmapVec::<T>::with_capacity_simd(cap), "with_capacity_simd");
        ensure!(src.len() == 0 && src.capacity() >= cap, "inmem_diverged", "with_capacity_simd({}) has len {} capacity {}", cap, src.len(), src.capacity());
        okop!(src.push_bulk_simd(&items), "push_bulk_simd");
        // some unrelated content first, so that the copy both shrinks and grows the destination
        if c.rng.bool() { let k = c.rng.usize_below(2 * n + 20); let pre = vals::<T>(c, k); okop!(v.push_bulk_simd(&pre), "push_bulk_simd"); prog.push_str(&format!("pre{k};")); }
        okop!(v.copy_from_simd(&src), "copy_from_simd"); prog.push_str("copy_from;");
        ensure!(el_bytes(v.as_slice()) == el_bytes(&items), "inmem_diverged", "after copy_from_simd the destination has {} elements, source {} (program: {})", v.len(), n, prog);
        // compare_range_simd over prefixes 0..k (self[0..k] against other[0..k])
        for k in [n, n / 2, n.min(7)] { let eq = okop!(v.compare_range_simd(0..k, &src), "compare_range_simd"); ensure!(eq, "inmem_diverged", "compare_range_simd(0..{}) is false for identical content (program: {})", k, prog); c.ev(1); }
        if n > 0 { let i = c.rng.usize_below(n); let old = items[i]; let mut x = T::mk(c.rng.next()); if x == old { x = T::mk(c.rng.next() ^ 0x5555); }
            if x != old { if let Some(r) = v.get_mut(i) { *r = x; } let eq = okop!(v.compare_range_simd(0..n, &src), "compare_range_simd"); ensure!(!eq, "inmem_diverged", "compare_range_simd(0..{}) is true although element {} differs (program: {})", n, i, prog);
                if let Some(r) = v.get_mut(i) { *r = old; } } }
        ensure!(v.compare_range_simd(0..n + 1, &src).is_err(), "inmem_diverged", "compare_range_simd beyond len is not refused");
        models.push(el_bytes(&items));
        if round + 1 == rounds || c.rng.bool() { okop!(v.sync(), "sync"); prog.push_str("SYNC;"); snaps.push(Snap { bytes: std::fs::read(&path).map_err(|e| bad("harness_io", e.to_string()))?, upto: models.len(), model: models.len() - 1 }); }
        drop(src);
    }
    drop(v);
    c.input_str("program", &prog); c.hash_more(&models.last().unwrap()[..models.last().unwrap().len().min(256)]);
    let h = Hist { snaps, models, hdr: MMAPVEC_HDR, esz: T::SZ, dirty: None, extra: vec![] };
    let mut rng = c.rng.fork();
    let mut states = if fam == "simd_clean" { clean_states(&h) } else { let i = h.snaps.len() - 1; fault_states("trunc", &h, i, &mut rng, c.tier == crate::ctx::Tier::Quick) };
    if states.len() > 60 { let keep: Vec<FState> = states.drain(..).enumerate().filter(|(i, _)| i % 3 == 0 || *i < 20).map(|x| x.1).collect(); states = keep; }
    c.tag(&format!("f:{fam}"));
    mmapvec_tags(c, &mut states, T::SZ);
    let open = format!("bld:8:{}:{}:{}", rng.bool() as u8, rng.bool() as u8, rng.bool() as u8); c.input_str("open_preset", &open);
    let mut agg = Agg::for_family(if fam == "simd_clean" { "clean" } else { "trunc" });
    let tn = tname.to_string();
    let mk = move |p: &Path| json!({"k": "mmapvec", "t": tn, "open": open, "path": p.to_string_lossy()});
    run_file_states(c, td.path(), &states, &mk, &h.models, Some((MMAPVEC_HDR, T::SZ)), &mut agg);
    c.set_nontrivial(!states.is_empty() && h.models.iter().any(|m| !m.is_empty()));
    agg.finish(c)
}
fn mmapvec_simd_case(c: &mut Case, fam: &str) -> Res {
    let t = *c.rng.pick(&["u8", "u32", "u64", "b3"]);
    match t { "u8" => mmapvec_simd_case_t::<u8>(c, fam, t), "u32" => mmapvec_simd_case_t::<u32>(c, fam, t), "u64" => mmapvec_simd_case_t::<u64>(c, fam, t), _ => mmapvec_simd_case_t::<[u8; 3]>(c, fam, t) }
}

// ---- plain: create_new (must leave no earlier record behind), base_dir
fn plain_create_new_case(c: &mut Case) -> Res {
    let td = tempfile::tempdir().map_err(|e| bad("harness_io", e.to_string()))?;
    let sdir = td.path().join("store");
    let mut prog = String::new();
    let pre_exists = c.rng.chance(3, 4);
    if pre_exists { let mut st = PlainBlobStore::new(&sdir).map_err(|e| bad("op_err", format!("new: {e}")))?; let k = c.rng.usize_below(6);
        for _ in 0..k { let d = gen::bytes_any(&mut c.rng, 300).1; c.input("old_blob", &d); st.put(&d).map_err(|e| bad("op_err", format!("put failed: {e}")))?; } prog.push_str(&format!("new;put*{k};drop;"));
        if c.rng.chance(1, 3) { let _ = std::fs::write(sdir.join("77.tmp"), b"stray"); prog.push_str("stray77.tmp;"); } }
    let mut store = match catch(|| PlainBlobStore::create_new(&sdir)) { Ok(Ok(s)) => s, Ok(Err(e)) => return Err(bad("op_err", format!("create_new failed: {e}"))), Err(p) => return Err(bad(&p.class(), format!("create_new panicked at {}", p.loc))) };
    prog.push_str("create_new;");
    ensure!(store.base_dir() == sdir.as_path(), "inmem_diverged", "base_dir() = {:?}, want {:?}", store.base_dir(), sdir);
    ensure!(store.len() == 0 && store.iter_ids().next().is_none(), "create_new_not_empty", "create_new() store lists {} records", store.iter_ids().count());
    let mut recs: BTreeMap<u32, Vec<u8>> = BTreeMap::new(); let mut models = vec![plain_model(&recs)];
    let mut states: Vec<DState> = vec![DState { desc: "directory right after create_new".into(), files: snap_dir(&sdir), lo: 0, hi: 1, clean: true, solo: false }];
    let k = c.rng.usize_below(6);
    for _ in 0..k { let d = gen::bytes_any(&mut c.rng, 700).1; c.input("blob", &d);
        let id = match catch(|| store.put(&d)) { Ok(Ok(id)) => id, Ok(Err(e)) => return Err(bad("op_err", format!("put failed: {e}"))), Err(p) => return Err(bad(&p.class(), format!("put panicked at {}", p.loc))) };
        if recs.contains_key(&id) { return Err(bad("id_reused_live", format!("put returned id {id} which is still live ({prog})"))); }
        prog.push_str(&format!("put{}->{id};", d.len())); recs.insert(id, d); models.push(plain_model(&recs)); }
    drop(store);
    states.push(DState { desc: "clean final directory".into(), files: snap_dir(&sdir), lo: models.len() - 1, hi: models.len(), clean: true, solo: false });
    c.input_str("program", &prog); c.tag("f:create_new");
    let mut jobs = Vec::new();
    for (i, s) in states.iter().enumerate() { let d = td.path().join(format!("d{i}")); let _ = std::fs::create_dir_all(&d); for (n, b) in &s.files { let _ = std::fs::write(d.join(n), b); } jobs.push(json!({"k": "plain", "path": d.to_string_lossy()})); }
    let outs = run_jobs(td.path(), &mut jobs, c.verbose);
    let mut agg = Agg::for_family("clean");
    for (s, o) in states.iter().zip(outs.iter()) { let total: usize = s.files.values().map(|b| b.len()).sum(); let fs = FState { desc: s.desc.clone(), bytes: vec![0u8; total.min(1)], lo: s.lo, hi: s.hi, clean: s.clean, solo: false }; judge(&mut agg, &fs, o, &models, None); }
    c.set_nontrivial(pre_exists || !recs.is_empty());
    agg.finish(c)
}

fn run_gap(ctx: &mut Ctx) {
    for fam in ["api_clean", "api_trunc"] { for idx in 0..ctx.n(6, 100) as u64 { ctx.case("io_mmap", fam, idx, |c| io_api_case(c, fam)); } }
    for (fam, inner) in [("cursor_clean", "clean"), ("cursor_trunc", "trunc")] { for idx in 0..ctx.n(6, 120) as u64 { ctx.case("reorder", fam, idx, |c| reorder_case_k(c, inner, "reorder_cursor")); } }
    for fam in ["cached_clean", "cached_trunc"] { for idx in 0..ctx.n(3, 40) as u64 { ctx.case("zipoffset", fam, idx, |c| zipoffset_cached_case(c, fam)); } }
    for fam in ["nlt_clean", "nlt_trunc"] { for idx in 0..ctx.n(6, 100) as u64 { ctx.case("nlt_zipoffset", fam, idx, |c| nlt_case(c, fam)); } }
    for fam in ["matches_clean", "matches_trunc"] { for idx in 0..ctx.n(3, 60) as u64 { ctx.case("sa_dict", fam, idx, |c| sadict_m_case(c, fam)); } }
    for fam in ["load_clean", "load_trunc"] { for idx in 0..ctx.n(3, 40) as u64 { ctx.case("dictzip", fam, idx, |c| dictzip_load_case(c, fam)); } }
    for fam in ["simd_clean", "simd_trunc"] { for idx in 0..ctx.n(5, 100) as u64 { ctx.case("mmapvec/default", fam, idx, |c| mmapvec_simd_case(c, fam)); } }
    for idx in 0..ctx.n(8, 150) as u64 { ctx.case("plain", "create_new", idx, |c| plain_create_new_case(c)); }
}

// =============================================================================================
// run
// =============================================================================================
pub fn run(ctx: &mut Ctx) {
    if let Ok(spec) = std::env::var(ENV) { child_main(&spec); std::process::exit(0); }
    let file_fams = ["clean", "trunc", "block_rollback", "hdr_swap", "extend_zero"];
    // MmapVec: every preset is its own target
    let presets: [(&str, &str, usize, usize); 7] = [("default", "default", 8, 160), ("persistent_cache", "persistent_cache", 3, 60), ("perf", "perf", 4, 80), ("memopt", "memopt", 6, 120), ("realtime", "realtime", 4, 80), ("large", "large", 1, 12), ("small", "", 8, 160)];
    for (tid, pname, q, t) in presets {
        for fam in ["clean", "trunc", "block_rollback", "hdr_swap", "extend_zero", "sync_fsize_limit"] {
            for idx in 0..ctx.n(q, t) as u64 {
                ctx.case(&format!("mmapvec/{tid}"), fam, idx, |c| {
                    let p = if pname.is_empty() { format!("small:{}:{}:{}", *c.rng.pick(&[0usize, 1, 2, 4, 8, 16, 64, 100]), *c.rng.pick(&[1100u64, 1500, 1618, 2000, 3000]), c.rng.chance(1, 4) as u8) } else { pname.to_string() };
                    mmapvec_case(c, fam, &p) });
            }
        }
    }
    for fam in ["clean", "trunc", "block_rollback", "extend_zero"] { for idx in 0..ctx.n(8, 200) as u64 { ctx.case("io_mmap", fam, idx, |c| io_case(c, fam)); } }
    for fam in ["clean", "newest_trunc", "newest_zero", "stray_tmp", "put_fsize_limit"] { for idx in 0..ctx.n(10, 250) as u64 { ctx.case("plain", fam, idx, |c| plain_case(c, fam)); } }
    for fam in file_fams { for idx in 0..ctx.n(10, 250) as u64 { ctx.case("reorder", fam, idx, |c| reorder_case(c, fam)); } }
    for fam in file_fams { for idx in 0..ctx.n(3, 40) as u64 { ctx.case("zipoffset", fam, idx, |c| zipoffset_case(c, fam)); } }
    for fam in file_fams { for idx in 0..ctx.n(6, 120) as u64 { ctx.case("sa_dict", fam, idx, |c| sadict_case(c, fam)); } }
    for fam in ["clean", "trunc", "extend_zero"] { for idx in 0..ctx.n(3, 40) as u64 { ctx.case("dictzip", fam, idx, |c| dictzip_case(c, fam)); } }
    for fam in ["clean", "run_trunc"] { for idx in 0..ctx.n(15, 400) as u64 { ctx.case("extsort", fam, idx, |c| extsort_case(c, fam)); } }
    // ---- huge_ families: large structures (> 65 536 elements / > 64 KiB .. MiB payloads / > 13 200 reorder entries / > 256 sort runs)
    for (tid, pname, _, _) in presets {
        for fam in ["huge_clean", "huge_trunc", "huge_sync_fsize_limit"] {
            for idx in 0..ctx.n(1, 8) as u64 {
                ctx.case(&format!("mmapvec/{tid}"), fam, idx, |c| {
                    let p = if pname.is_empty() { format!("small:{}:{}:{}", *c.rng.pick(&[0usize, 1, 2, 16, 100]), *c.rng.pick(&[1100u64, 1500, 1618, 2000, 3000]), c.rng.chance(1, 4) as u8) } else { pname.to_string() };
                    mmapvec_case(c, fam, &p) });
            }
        }
    }
    for fam in ["huge_clean", "huge_trunc"] { for idx in 0..ctx.n(2, 20) as u64 { ctx.case("io_mmap", fam, idx, |c| io_case(c, fam)); } }
    for fam in ["huge_clean", "huge_newest_trunc", "huge_put_fsize_limit"] { for idx in 0..ctx.n(2, 20) as u64 { ctx.case("plain", fam, idx, |c| plain_case(c, fam)); } }
    for (fam, q, t) in [("huge_clean", 4, 40), ("huge_trunc", 2, 20)] { for idx in 0..ctx.n(q, t) as u64 { ctx.case("reorder", fam, idx, |c| reorder_case(c, fam)); } }
    for idx in 0..ctx.n(1, 5) as u64 { ctx.case("zipoffset", "huge_clean", idx, |c| zipoffset_case(c, "huge_clean")); }
    for (fam, q, t) in [("huge_clean", 2, 12), ("huge_trunc", 1, 8)] { for idx in 0..ctx.n(q, t) as u64 { ctx.case("sa_dict", fam, idx, |c| sadict_case(c, fam)); } }
    // (dictzip: a dictionary build over >= 64 KiB of training data costs ~17 s per case; not run, the file format is the sa_dict one)
    for fam in ["huge_clean", "huge_run_trunc"] { for idx in 0..ctx.n(4, 40) as u64 { ctx.case("extsort", fam, idx, |c| extsort_case(c, fam)); } }
    run_gap(ctx);
}
