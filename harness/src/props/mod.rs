use crate::ctx::Ctx;
pub mod c04;
pub mod c08;
pub mod c16;

pub const ALL: &[&str] = &["C04", "C08", "C16"];

pub fn run(prop: &str, ctx: &mut Ctx) -> bool {
    match prop {
        "C04" => c04::run(ctx),
        "C08" => c08::run(ctx),
        "C16" => c16::run(ctx),
        _ => return false,
    }
    true
}
