use crate::ctx::Ctx;
pub mod c04;

pub const ALL: &[&str] = &["C04"];

pub fn run(prop: &str, ctx: &mut Ctx) -> bool {
    match prop {
        "C04" => c04::run(ctx),
        _ => return false,
    }
    true
}
