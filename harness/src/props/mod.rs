use crate::ctx::Ctx;
pub mod c01;
pub mod c04;
pub mod c05;
pub mod c06;
pub mod c08;
pub mod c09;
pub mod c10;
pub mod c11;
pub mod c14;
pub mod c16;
pub mod c17;
pub mod c20;

pub const ALL: &[&str] = &["C01", "C04", "C05", "C06", "C08", "C09", "C10", "C11", "C14", "C16", "C17", "C20"];

pub fn run(prop: &str, ctx: &mut Ctx) -> bool {
    match prop {
        "C01" => c01::run(ctx),
        "C04" => c04::run(ctx),
        "C05" => c05::run(ctx),
        "C06" => c06::run(ctx),
        "C08" => c08::run(ctx),
        "C09" => c09::run(ctx),
        "C10" => c10::run(ctx),
        "C11" => c11::run(ctx),
        "C14" => c14::run(ctx),
        "C16" => c16::run(ctx),
        "C17" => c17::run(ctx),
        "C20" => c20::run(ctx),
        _ => return false,
    }
    true
}
