//! C18 — every submitted task runs exactly once; ordered pipelines keep their order.
//!
//! Targets
//!   exec/w<workers>/<flavour>      WorkStealingExecutor (workers 1,2,3,8) on tokio current_thread (virtual time) and
//!                                  multi_thread(1,2,8). Exactly-once slots + *logical* quiescence (idle-poll counters fed by
//!                                  the verif-hooks schedule points), then lost / not-idle / total_executed oracles.
//!   fiber/<api>/<ct|mt>            FiberPool spawn / spawn_batch / parallel_map / parallel_for_each / parallel_reduce
//!   pmap/<api>/<ct|mt>             concurrency::{parallel_map, parallel_reduce, spawn + join_all}
//!   pipeline/<api>                 Pipeline execute_single / two_stage / process_batch (individual, batched) / execute_stream,
//!                                  failing and slow (virtual-time timeout) stage functions
//!   batch/<api>                    BatchCollector (sequential model, concurrent producers, background timeout checker),
//!                                  FiberIoUtils::batch_process
//!   yield/<api>, aio/<api>         sequence-returning helpers of fiber_yield.rs / fiber_aio.rs (anchors of the property)
//!   asyncstore/<memory|file>       concurrent put / get / remove round trip
//!
//! Completion is never decided on wall-clock time: executor quiescence = every worker completed >= K consecutive idle
//! polls with no task running and no submit in flight; everything else awaits join handles. On the paused
//! current_thread runtime a 30 s *virtual* timeout can only fire when every task is parked, i.e. a real deadlock
//! (`never_completes`); on the real-time runtimes the 30 s watchdog only yields `inconclusive`.
use crate::ctx::{fail, inconclusive, Case, Ctx, Fail, Res};
use crate::gen;
use std::collections::HashSet;
use std::future::Future;
use std::pin::Pin;
use std::sync::atomic::{AtomicU32, AtomicU64, AtomicU8, AtomicUsize, Ordering::SeqCst};
use std::sync::{Arc, Mutex};
use std::time::{Duration, Instant};
use zipora::concurrency::async_blob_store::{AsyncBlobStore, AsyncFileStore, AsyncMemoryBlobStore};
use zipora::concurrency::fiber_aio::FiberIoUtils;
use zipora::concurrency::fiber_pool::{FiberPool, FiberPoolConfig};
use zipora::concurrency::fiber_yield::{CooperativeUtils, YieldingIterator};
use zipora::concurrency::pipeline::{BatchCollector, BatchMapStage, MapStage, Pipeline, PipelineConfig, PipelineStage};
use zipora::concurrency::work_stealing::{ClosureTask, Task, WorkStealingExecutor};
use zipora::error::{Result as ZResult, ZiporaError};
use zipora::verif_hooks::site;

type BoxFut<T> = Pin<Box<dyn Future<Output = T> + Send>>;

// ---- runtime flavours ------------------------------------------------------------------------
#[derive(Clone, Copy, Debug, PartialEq)]
enum Flav { Ct, CtReal, Mt(usize) }
impl Flav {
    fn name(self) -> String { match self { Flav::Ct => "ct".into(), Flav::CtReal => "ctreal".into(), Flav::Mt(n) => format!("mt{n}") } }
    fn paused(self) -> bool { self == Flav::Ct }
    fn build(self) -> tokio::runtime::Runtime {
        match self {
            Flav::Ct => tokio::runtime::Builder::new_current_thread().enable_all().start_paused(true).build().expect("rt"),
            Flav::CtReal => tokio::runtime::Builder::new_current_thread().enable_all().build().expect("rt"),
            Flav::Mt(n) => tokio::runtime::Builder::new_multi_thread().worker_threads(n).enable_all().build().expect("rt"),
        }
    }
}
// 60 s: longer than the harness watchdog's deadlock probe (ctx::enable_deadlock_probe, 35 s + 10 s of sampling), which decides
// the case where every thread of the process is blocked for good; this one only ever yields inconclusive
const WATCHDOG: Duration = Duration::from_secs(60);

/// Await `fut` with the 30 s watchdog. Paused runtime: virtual time only jumps when every task is parked => deadlock.
async fn bounded<T>(fl: Flav, what: &str, fut: impl Future<Output = T>) -> Result<T, Fail> {
    match tokio::time::timeout(WATCHDOG, fut).await {
        Ok(v) => Ok(v),
        Err(_) if fl.paused() => fail("never_completes", format!("{what}: every task parked, 30 s of virtual time elapsed without completion")),
        Err(_) => inconclusive(format!("{what}: 60 s wall-clock watchdog")),
    }
}
fn zerr(s: &str) -> ZiporaError { ZiporaError::invalid_data(s) }

// ---- schedule-point hook: per-worker idle-poll counters + seeded perturbation ----------------------
const MAXW: usize = 64;
static IDLE: [AtomicU64; MAXW] = [const { AtomicU64::new(0) }; MAXW];
static IDLE_TOTAL: AtomicU64 = AtomicU64::new(0);
static VIS_LOOP: AtomicU64 = AtomicU64::new(0);
static VIS_SUBMIT: AtomicU64 = AtomicU64::new(0);
static PERTURBED: AtomicU64 = AtomicU64::new(0);
static HOOK_SEED: AtomicU64 = AtomicU64::new(1);
static HOOK_PCT: AtomicU64 = AtomicU64::new(0);
thread_local! { static HOOK_RNG: std::cell::Cell<(u64, u64)> = const { std::cell::Cell::new((0, 0)) }; }
static THREAD_CTR: AtomicU64 = AtomicU64::new(1);

fn hook(s: u32) {
    if s >= site::WS_IDLE_POLL_BASE {
        let w = (s - site::WS_IDLE_POLL_BASE) as usize;
        if w < MAXW { IDLE[w].fetch_add(1, SeqCst); IDLE_TOTAL.fetch_add(1, SeqCst); }
        return;
    }
    if s == site::WS_LOOP_TOP { VIS_LOOP.fetch_add(1, SeqCst); } else if s == site::WS_SUBMIT_AFTER_CHECK { VIS_SUBMIT.fetch_add(1, SeqCst); } else { return; }
    let pct = HOOK_PCT.load(SeqCst);
    if pct == 0 { return; }
    let seed = HOOK_SEED.load(SeqCst);
    let (mut x, epoch) = HOOK_RNG.with(|r| r.get());
    if x == 0 || epoch != seed { x = (seed ^ THREAD_CTR.fetch_add(1, SeqCst).wrapping_mul(0x9E3779B97F4A7C15)) | 1; }
    x ^= x << 13; x ^= x >> 7; x ^= x << 17;
    HOOK_RNG.with(|r| r.set((x, seed)));
    // the window between submit's capacity check and its push is perturbed more often than the loop top
    let p = if s == site::WS_SUBMIT_AFTER_CHECK { pct * 2 } else { pct };
    if (x % 100) < p {
        PERTURBED.fetch_add(1, SeqCst);
        match (x >> 8) % 4 { 0 | 3 => std::thread::yield_now(), 1 => { for _ in 0..((x >> 16) % 200) { std::hint::spin_loop(); } } _ => { for _ in 0..((x >> 16) % 4000) { std::hint::spin_loop(); } } }
    }
}
fn reset_idle() { for a in IDLE.iter() { a.store(0, SeqCst); } }
fn hook_reset(seed: u64, pct: u64) {
    reset_idle(); IDLE_TOTAL.store(0, SeqCst); VIS_LOOP.store(0, SeqCst); VIS_SUBMIT.store(0, SeqCst); PERTURBED.store(0, SeqCst);
    HOOK_SEED.store(seed | 1, SeqCst); HOOK_PCT.store(pct, SeqCst);
}

// ---- executor -----------------------------------------------------------------------------------
#[derive(Clone, Debug)]
struct TSpec { prio: u8, stealable: bool, yields: u8, err: bool, sleep: bool, child: Option<usize> }
impl TSpec { fn plain() -> TSpec { TSpec { prio: 0, stealable: true, yields: 0, err: false, sleep: false, child: None } } }

struct Shared {
    slots: Vec<AtomicU32>,
    state: Vec<AtomicU8>, // 0 never submitted, 1 accepted, 2 rejected
    specs: Vec<TSpec>,
    running: AtomicUsize,
    inflight: AtomicUsize,
    doubles: AtomicU64,
    first_double: AtomicUsize,
}

/// How do_submit hands a task to the executor (set only by the `closure` / `estdur` families, 0 everywhere else):
/// 0 submit(Box<ClosureTask>), 1 submit_closure(..) for specs with the defaults (priority 0, stealable), 2 ClosureTask::with_estimated_duration
static SUBMIT_MODE: AtomicU8 = AtomicU8::new(0);
struct ModeGuard;
impl Drop for ModeGuard { fn drop(&mut self) { SUBMIT_MODE.store(0, SeqCst); } }

fn task_body(sh: &Arc<Shared>, ex: &Arc<WorkStealingExecutor>, idx: usize) -> impl FnOnce() -> BoxFut<ZResult<()>> + Send + 'static {
    let sp = sh.specs[idx].clone();
    let (sh2, ex2) = (sh.clone(), if sp.child.is_some() { Some(ex.clone()) } else { None });
    move || -> BoxFut<ZResult<()>> {
        Box::pin(async move {
            reset_idle();
            sh2.running.fetch_add(1, SeqCst);
            let prev = sh2.slots[idx].fetch_add(1, SeqCst);
            if prev != 0 { sh2.doubles.fetch_add(1, SeqCst); sh2.first_double.store(idx, SeqCst); }
            for _ in 0..sp.yields { tokio::task::yield_now().await; }
            if sp.sleep { tokio::time::sleep(Duration::from_millis(1)).await; }
            if let (Some(ci), Some(ex)) = (sp.child, ex2.as_ref()) { do_submit(&sh2, ex, ci); }
            sh2.running.fetch_sub(1, SeqCst);
            reset_idle();
            if sp.err { Err(zerr("task failed on purpose")) } else { Ok(()) }
        })
    }
}
fn make_task(sh: &Arc<Shared>, ex: &Arc<WorkStealingExecutor>, idx: usize) -> Box<dyn Task> {
    let (prio, stealable) = (sh.specs[idx].prio, sh.specs[idx].stealable);
    let t = ClosureTask::new(task_body(sh, ex, idx)).with_priority(prio).with_stealable(stealable);
    if SUBMIT_MODE.load(SeqCst) == 2 { Box::new(t.with_estimated_duration(Duration::from_micros((idx as u64 * 7919) % 50_000))) } else { Box::new(t) }
}
fn do_submit(sh: &Arc<Shared>, ex: &Arc<WorkStealingExecutor>, idx: usize) {
    sh.inflight.fetch_add(1, SeqCst);
    reset_idle();
    let r = if SUBMIT_MODE.load(SeqCst) == 1 && sh.specs[idx].prio == 0 && sh.specs[idx].stealable { ex.submit_closure(task_body(sh, ex, idx)) } else { ex.submit(make_task(sh, ex, idx)) };
    sh.state[idx].store(if r.is_ok() { 1 } else { 2 }, SeqCst);
    reset_idle();
    sh.inflight.fetch_sub(1, SeqCst);
}

/// Logical quiescence: no submit in flight, no task body running, every worker has >= k consecutive idle polls
/// (the counters are zeroed by every submit and by every task start / end).
static POLLERS: AtomicUsize = AtomicUsize::new(0);
static POLL_CALLS: AtomicU64 = AtomicU64::new(0);
async fn wait_stable(sh: &Shared, workers: usize, k: u64) -> Result<(), Fail> {
    let t0 = Instant::now();
    loop {
        if sh.inflight.load(SeqCst) == 0 && sh.running.load(SeqCst) == 0 && (0..workers).all(|w| IDLE[w].load(SeqCst) >= k) { return Ok(()); }
        if t0.elapsed() > WATCHDOG {
            let idle: Vec<u64> = (0..workers).map(|w| IDLE[w].load(SeqCst)).collect();
            return inconclusive(format!("no quiescence within 60 s wall-clock: running={} inflight={} idle_polls={idle:?} accepted_not_run={}", sh.running.load(SeqCst), sh.inflight.load(SeqCst), (0..sh.slots.len()).filter(|&i| sh.state[i].load(SeqCst) == 1 && sh.slots[i].load(SeqCst) == 0).count()));
        }
        tokio::time::sleep(Duration::from_millis(1)).await;
    }
}

struct ExecParams { workers: usize, cap: usize, flav: Flav, specs: Vec<TSpec>, phases: Vec<Vec<usize>>, submitters: usize, yield_every: usize, hook_pct: u64, k: u64 }

fn describe(c: &mut Case, p: &ExecParams) {
    let top: usize = p.phases.iter().map(|x| x.len()).sum();
    let nst = p.specs.iter().filter(|s| !s.stealable).count(); let kids = p.specs.iter().filter(|s| s.child.is_some()).count();
    let mut prios: Vec<u8> = p.specs.iter().map(|s| s.prio).collect(); prios.sort(); prios.dedup();
    c.input_str("exec", &format!("workers={} cap={} flav={} tasks={} phases={:?} submitters={} yield_every={} nonstealable={} children={} prios={:?} yields={} err={} sleep={} hook_pct={}",
        p.workers, p.cap, p.flav.name(), top, p.phases.iter().map(|x| x.len()).collect::<Vec<_>>(), p.submitters, p.yield_every, nst, kids, prios,
        p.specs.iter().map(|s| s.yields as usize).sum::<usize>(), p.specs.iter().filter(|s| s.err).count(), p.specs.iter().filter(|s| s.sleep).count(), p.hook_pct));
    let mut b = Vec::new(); for s in &p.specs { b.push(s.prio); b.push(s.stealable as u8 | (s.yields << 1) | ((s.err as u8) << 4) | ((s.sleep as u8) << 5) | ((s.child.is_some() as u8) << 6)); }
    c.hash_more(&b);
    c.set_nontrivial(top >= 1);
}

fn run_exec(c: &mut Case, p: ExecParams) -> Res {
    describe(c, &p);
    let seed = c.rng.next();
    hook_reset(seed, if matches!(p.flav, Flav::Mt(_)) { p.hook_pct } else { 0 });
    // observers: threads outside the runtime that keep asking is_idle() / total_queued() while the executor works (the
    // documented way to wait for an executor), so that the read-side locking runs concurrently with the workers
    let mt = matches!(p.flav, Flav::Mt(_)); let pollers = if mt { c.rng.usize_below(3) } else { 0 }; c.input_str("pollers", &pollers.to_string());
    POLLERS.store(pollers, SeqCst); POLL_CALLS.store(0, SeqCst);
    let rt = p.flav.build();
    let r = rt.block_on(exec_scenario(c, &p));
    drop(rt);
    c.note("observer_calls", POLL_CALLS.load(SeqCst));
    HOOK_PCT.store(0, SeqCst);
    c.note("hook_loop_top", VIS_LOOP.load(SeqCst)); c.note("hook_submit_after_check", VIS_SUBMIT.load(SeqCst)); c.note("hook_idle_polls", IDLE_TOTAL.load(SeqCst)); c.note("hook_perturbed", PERTURBED.load(SeqCst));
    r
}

async fn exec_scenario(c: &mut Case, p: &ExecParams) -> Res {
    let ex = match WorkStealingExecutor::new(p.workers, p.cap) { Ok(e) => e, Err(e) => return fail("ctor_err", format!("WorkStealingExecutor::new({}, {}) failed: {e}", p.workers, p.cap)) };
    exec_scenario_on(c, p, ex).await
}
/// the scenario on a given executor (`ex` has `p.workers` workers whose idle polls feed IDLE[0..p.workers])
async fn exec_scenario_on(c: &mut Case, p: &ExecParams, ex: Arc<WorkStealingExecutor>) -> Res {
    let n = p.specs.len();
    let sh = Arc::new(Shared { slots: (0..n).map(|_| AtomicU32::new(0)).collect(), state: (0..n).map(|_| AtomicU8::new(0)).collect(), specs: p.specs.clone(),
        running: AtomicUsize::new(0), inflight: AtomicUsize::new(0), doubles: AtomicU64::new(0), first_double: AtomicUsize::new(usize::MAX) });
    let mut res: Res = Ok(());
    let stop = Arc::new(std::sync::atomic::AtomicBool::new(false)); let mut observers = Vec::new();
    for _ in 0..POLLERS.load(SeqCst) { let (ex2, stop2) = (ex.clone(), stop.clone());
        if let Ok(h) = std::thread::Builder::new().name("exec-observer".into()).spawn(move || { let mut n = 0u64; while !stop2.load(SeqCst) { let _ = ex2.is_idle(); let _ = ex2.total_queued(); n += 2; if n % 64 == 0 { std::thread::yield_now(); } } POLL_CALLS.fetch_add(n, SeqCst); }) { observers.push(h); } }
    'phases: for (pi, phase) in p.phases.iter().enumerate() {
        if p.submitters <= 1 {
            for (j, &idx) in phase.iter().enumerate() { do_submit(&sh, &ex, idx); if p.yield_every > 0 && (j + 1) % p.yield_every == 0 { tokio::task::yield_now().await; } }
        } else {
            let mut hs = Vec::new();
            for s in 0..p.submitters {
                let mine: Vec<usize> = phase.iter().copied().skip(s).step_by(p.submitters).collect();
                let (sh2, ex2, ye) = (sh.clone(), ex.clone(), p.yield_every);
                hs.push(tokio::spawn(async move { for (j, idx) in mine.into_iter().enumerate() { do_submit(&sh2, &ex2, idx); if ye > 0 && (j + 1) % ye == 0 { tokio::task::yield_now().await; } } }));
            }
            for h in hs { if let Err(e) = h.await { res = fail("submitter_panic", format!("submitter task died: {e}")); break 'phases; } }
        }
        // where did the tasks go right after submission (coverage of the three queue kinds)
        let (per, g) = ex.verif_queue_lens();
        if g > 0 { c.note("saw_global_queue", 1); } if per.iter().any(|x| x.1 > 0) { c.note("saw_steal_queue", 1); } if per.iter().any(|x| x.0 > 0) { c.note("saw_local_queue", 1); }
        if let Err(e) = wait_stable(&sh, p.workers, p.k).await { res = Err(e); break; }
        res = check_quiescent(c, p, &ex, &sh, pi).await;
        if res.is_err() { break; }
    }
    stop.store(true, SeqCst); for h in observers { let _ = h.join(); }
    let st = ex.stats(); c.note("steals", st.total_steals);
    let _ = ex.shutdown().await;
    res
}

async fn check_quiescent(c: &mut Case, p: &ExecParams, ex: &Arc<WorkStealingExecutor>, sh: &Arc<Shared>, phase: usize) -> Res {
    let n = sh.slots.len();
    let lost_now = |sh: &Shared| -> Vec<usize> { (0..n).filter(|&i| sh.state[i].load(SeqCst) == 1 && sh.slots[i].load(SeqCst) == 0).collect() };
    if sh.doubles.load(SeqCst) > 0 { let i = sh.first_double.load(SeqCst); return fail("ran_twice", format!("task {i} executed {} times (phase {phase})", sh.slots[i].load(SeqCst))); }
    let mut lost = lost_now(sh);
    if !lost.is_empty() {
        // confirm: another 2k idle polls of every worker must not change anything
        reset_idle(); wait_stable(sh, p.workers, 2 * p.k).await?;
        lost = lost_now(sh);
    }
    let (per, g) = ex.verif_queue_lens();
    let accepted = (0..n).filter(|&i| sh.state[i].load(SeqCst) == 1).count();
    let rejected = (0..n).filter(|&i| sh.state[i].load(SeqCst) == 2).count();
    let rejected_ran = (0..n).filter(|&i| sh.state[i].load(SeqCst) == 2 && sh.slots[i].load(SeqCst) > 0).count();
    c.ev(accepted as u64 + 2); c.note("accepted", accepted as u64); c.note("rejected", rejected as u64); c.note("rejected_ran", rejected_ran as u64);
    if !lost.is_empty() {
        let specs: Vec<String> = lost.iter().take(4).map(|&i| format!("#{i}(prio={},stealable={})", sh.specs[i].prio, sh.specs[i].stealable)).collect();
        return fail("lost_task", format!("{} of {accepted} accepted tasks never executed although every worker is idle (phase {phase}); first lost {specs:?}; queues (local,steal) per worker={per:?} global={g}; total_executed={}", lost.len(), ex.stats().total_executed));
    }
    ensure!(sh.doubles.load(SeqCst) == 0, "ran_twice", "task {} executed twice", sh.first_double.load(SeqCst));
    let st = ex.stats();
    ensure!(ex.is_idle(), "not_idle_after_drain", "is_idle()=false at quiescence: active_tasks={} total_queued={} queues={per:?} global={g}", st.active_tasks, ex.total_queued());
    ensure!(ex.total_queued() == 0, "queued_after_drain", "total_queued()={} at quiescence", ex.total_queued());
    let want = (accepted + rejected_ran) as u64;
    ensure!(st.total_executed == want, "total_executed_mismatch", "stats().total_executed={} but {accepted} tasks were accepted (and {rejected_ran} rejected ones ran)", st.total_executed);
    ensure!(st.active_tasks == 0, "active_tasks_after_drain", "active_tasks={}", st.active_tasks);
    Ok(())
}

const CAPS: &[usize] = &[1, 2, 8, 1000];
fn count_list(w: usize, cap: usize) -> Vec<usize> {
    let wc = w * cap;
    let mut v = vec![100, 101, 99, 250, 1, cap + 1, wc + 1, cap, 0, 200, wc, 2, cap.saturating_sub(1), 201, 199, wc.saturating_sub(1), wc + 2, 300, 100 + wc, 3];
    v.retain(|&x| x <= 2100); v
}
/// idle polls 0..99 of a worker are busy yields, from 100 on it sleeps 1 ms (real time on the multi_thread flavours) per poll
fn k_for(f: Flav) -> u64 { if f.paused() { 150 } else { 106 } }

fn gen_counts(c: &mut Case, w: usize, f: Flav, idx: u64) -> ExecParams {
    let cap = CAPS[(idx % 4) as usize]; let l = count_list(w, cap); let n = l[((idx / 4) as usize) % l.len()];
    ExecParams { workers: w, cap, flav: f, specs: vec![TSpec::plain(); n], phases: vec![(0..n).collect()], submitters: 1, yield_every: if c.rng.chance(1, 4) { 1 + c.rng.usize_below(40) } else { 0 }, hook_pct: 0, k: k_for(f) }
}
fn gen_specs(c: &mut Case, n: usize, nosteal_pct: u64, rich: bool) -> Vec<TSpec> {
    let prio_mode = c.rng.below(4);
    let mut v: Vec<TSpec> = (0..n).map(|_| TSpec {
        prio: match prio_mode { 0 => 0, 1 => c.rng.below(3) as u8, 2 => *c.rng.pick(&[0u8, 1, 7, 128, 255]), _ => c.rng.next() as u8 },
        stealable: !c.rng.chance(nosteal_pct, 100), yields: if rich && c.rng.chance(1, 3) { c.rng.below(4) as u8 } else { 0 }, err: rich && c.rng.chance(1, 10), sleep: rich && c.rng.chance(1, 40), child: None }).collect();
    if rich && n > 0 && c.rng.chance(1, 3) {
        let kids = 1 + c.rng.usize_below(n.min(12));
        for _ in 0..kids { let parent = c.rng.usize_below(n); if v[parent].child.is_none() { let ci = v.len(); v[parent].child = Some(ci); v.push(TSpec { prio: c.rng.below(3) as u8, stealable: c.rng.bool(), yields: c.rng.below(2) as u8, err: false, sleep: false, child: None }); } }
    }
    v
}
fn split_phases(c: &mut Case, n: usize, cuts: &[usize]) -> Vec<Vec<usize>> {
    let mut ph = Vec::new(); let mut s = 0usize;
    for &cut in cuts { let e = (s + cut).min(n); if e > s { ph.push((s..e).collect()); } s = e; }
    if s < n { ph.push((s..n).collect()); }
    if ph.is_empty() { ph.push(vec![]); }
    let _ = c; ph
}
fn gen_mix(c: &mut Case, w: usize, f: Flav) -> ExecParams {
    let cap = *c.rng.pick(CAPS);
    let n = if c.rng.chance(1, 2) { let l = count_list(w, cap); *c.rng.pick(&l) } else { c.rng.usize_below(301) }.min(1200);
    let nosteal = *c.rng.pick(&[0u64, 0, 30, 70, 100]);
    let specs = gen_specs(c, n, nosteal, true);
    let cuts: Vec<usize> = if n > 1 && c.rng.chance(1, 3) { vec![1 + c.rng.usize_below(n)] } else { vec![] };
    let phases = split_phases(c, n, &cuts);
    ExecParams { workers: w, cap, flav: f, specs, phases, submitters: 1 + c.rng.usize_below(4), yield_every: if c.rng.bool() { 1 + c.rng.usize_below(16) } else { 0 }, hook_pct: *c.rng.pick(&[0u64, 10, 25, 45]), k: k_for(f) }
}
/// phases cut at multiples of 100 so that workers sit idle exactly while `total_executed % 100 == 0` (balance() runs on every idle iteration)
fn gen_phased100(c: &mut Case, w: usize, f: Flav) -> ExecParams {
    let cap = *c.rng.pick(&[8usize, 1000, 1000]);
    let cuts: Vec<usize> = match c.rng.below(4) { 0 => vec![100], 1 => vec![100, 100], 2 => vec![99, 1], _ => vec![50, 50, 100] };
    let n = cuts.iter().sum::<usize>() + *c.rng.pick(&[1usize, 2, 5, 40, 101]);
    let ns = *c.rng.pick(&[0u64, 0, 50]); let specs = gen_specs(c, n, ns, false);
    let phases = split_phases(c, n, &cuts);
    ExecParams { workers: w, cap, flav: f, specs, phases, submitters: 1, yield_every: 0, hook_pct: *c.rng.pick(&[0u64, 20]), k: k_for(f) }
}
fn gen_nosteal(c: &mut Case, w: usize, f: Flav) -> ExecParams {
    let cap = *c.rng.pick(CAPS); let l = count_list(w, cap); let n = (*c.rng.pick(&l)).min(600);
    let specs = gen_specs(c, n, 100, false);
    ExecParams { workers: w, cap, flav: f, specs, phases: vec![(0..n).collect()], submitters: 1 + c.rng.usize_below(3), yield_every: if c.rng.bool() { 3 } else { 0 }, hook_pct: *c.rng.pick(&[0u64, 30]), k: k_for(f) }
}
/// more tasks than local queues + the 10 000-entry global queue hold: some submits must be refused, none of the accepted may be lost
fn gen_global_full(c: &mut Case, w: usize, f: Flav) -> ExecParams {
    let cap = *c.rng.pick(&[1usize, 2]); let n = 10_000 + w * cap + *c.rng.pick(&[0usize, 1, 7]);
    ExecParams { workers: w, cap, flav: f, specs: vec![TSpec::plain(); n], phases: vec![(0..n).collect()], submitters: 1, yield_every: 0, hook_pct: 0, k: k_for(f) }
}

fn exec_targets(ctx: &mut Ctx) {
    // quick: ~2 000 executor runs (the multi_thread ones cost 50-100 ms wall each: real 1 ms idle sleeps of the workers); thorough: ~96 k
    let (n_counts, n_mix, n_ph, n_ns, n_gf) = (ctx.n(40, 1600), ctx.n(60, 3000), ctx.n(12, 700), ctx.n(12, 700), ctx.n(1, 12));
    for &w in &[1usize, 2, 3, 8] {
        for &f in &[Flav::Ct, Flav::Mt(1), Flav::Mt(2), Flav::Mt(8)] {
            let t = format!("exec/w{w}/{}", f.name());
            for idx in 0..n_counts as u64 { ctx.case(&t, "counts", idx, |c| { let p = gen_counts(c, w, f, idx); run_exec(c, p) }); }
            for idx in 0..n_mix as u64 { ctx.case(&t, "mix", idx, |c| { let p = gen_mix(c, w, f); run_exec(c, p) }); }
            for idx in 0..n_ph as u64 { ctx.case(&t, "phased100", idx, |c| { let p = gen_phased100(c, w, f); run_exec(c, p) }); }
            for idx in 0..n_ns as u64 { ctx.case(&t, "nosteal", idx, |c| { let p = gen_nosteal(c, w, f); run_exec(c, p) }); }
            if matches!(f, Flav::Ct | Flav::Mt(2)) && w <= 2 { for idx in 0..n_gf as u64 { ctx.case(&t, "global_full", idx, |c| { let p = gen_global_full(c, w, f); run_exec(c, p) }); } }
        }
    }
}

// ---- shared input helpers -----------------------------------------------------------------------------
fn mapf(x: u64) -> u64 { x.wrapping_mul(0x9E37_79B9).wrapping_add(7) ^ (x >> 3) }
fn pick_n(c: &mut Case, max: usize) -> usize { gen::pick_len(&mut c.rng, max) }
fn gen_items(c: &mut Case, n: usize) -> Vec<u64> { let k = c.rng.below(gen::INT_KINDS as u64) as u32; gen::ints_kind(&mut c.rng, k, n, u64::MAX) }
/// positions of failing items: none (p=1/2), one, or a few
fn gen_fail_set(c: &mut Case, n: usize) -> HashSet<usize> {
    let mut s = HashSet::new(); if n == 0 { return s; }
    match c.rng.below(6) { 0 | 1 | 2 => {} 3 => { s.insert(c.rng.usize_below(n)); } 4 => { s.insert(if c.rng.bool() { 0 } else { n - 1 }); } _ => { for _ in 0..1 + c.rng.usize_below(4) { s.insert(c.rng.usize_below(n)); } } }
    s
}
fn le_bytes(v: &[u64]) -> Vec<u8> { v.iter().flat_map(|x| x.to_le_bytes()).collect() }
fn fmt_set(s: &HashSet<usize>) -> String { let mut v: Vec<_> = s.iter().copied().collect(); v.sort(); format!("{v:?}") }
fn pick_flav2(c: &mut Case, mt: bool) -> Flav { if mt { *c.rng.pick(&[Flav::Mt(1), Flav::Mt(2), Flav::Mt(8)]) } else { Flav::Ct } }

/// Compare a sequence-returning API against the sequential oracle.
fn cmp_seq<T: PartialEq + std::fmt::Debug>(c: &mut Case, what: &str, got: &ZResult<Vec<T>>, want: &Vec<T>, must_fail: bool) -> Res {
    c.ev(want.len() as u64 + 1);
    match got {
        Ok(v) if must_fail => fail("error_swallowed", format!("{what}: an item failed but the call returned Ok with {} results for {} inputs", v.len(), want.len())),
        Ok(v) => {
            ensure!(v.len() == want.len(), "result_count", "{what}: {} results for {} inputs", v.len(), want.len());
            if let Some(i) = (0..v.len()).find(|&i| v[i] != want[i]) {
                let perm = { let mut a: Vec<String> = v.iter().map(|x| format!("{x:?}")).collect(); let mut b: Vec<String> = want.iter().map(|x| format!("{x:?}")).collect(); a.sort(); b.sort(); a == b };
                return fail(if perm { "result_order" } else { "result_value" }, format!("{what}: result[{i}]={:?} want {:?} (n={}; same multiset: {perm})", v[i], want[i], v.len()));
            }
            Ok(())
        }
        Err(_) if must_fail => Ok(()),
        Err(e) => fail("unexpected_err", format!("{what}: Err({e}) although no item fails")),
    }
}

// ---- FiberPool --------------------------------------------------------------------------------------------
fn pool_cfg(c: &mut Case) -> FiberPoolConfig {
    let cfg = FiberPoolConfig { max_fibers: *c.rng.pick(&[1usize, 2, 3, 8, 64]), initial_workers: 1 + c.rng.usize_below(4), max_workers: *c.rng.pick(&[1usize, 2, 3, 4, 8, 16]), queue_capacity: *c.rng.pick(&[1usize, 2, 8, 1000]), idle_timeout: Duration::from_secs(60) };
    c.input_str("pool", &format!("max_fibers={} max_workers={} queue_capacity={}", cfg.max_fibers, cfg.max_workers, cfg.queue_capacity));
    cfg
}

fn fiber_spawn_case(c: &mut Case, fl: Flav, batch: bool) -> Res {
    let cfg = pool_cfg(c); let n = pick_n(c, 300); let fails = gen_fail_set(c, n);
    let yields: Vec<u8> = (0..n).map(|_| if c.rng.chance(1, 3) { c.rng.below(4) as u8 } else { 0 }).collect();
    let rev = c.rng.bool();
    c.input_str("flav", &fl.name()); c.input_str("n", &n.to_string()); c.input_str("fail_at", &fmt_set(&fails)); c.input("yields", &yields); c.input_str("await_reversed", &rev.to_string());
    c.set_nontrivial(n >= 2);
    let rt = fl.build();
    let r = rt.block_on(async {
        let pool = FiberPool::new(cfg.clone()).map_err(|e| Fail { oracle: "ctor_err".into(), detail: format!("FiberPool::new: {e}") })?;
        let slots: Arc<Vec<AtomicU32>> = Arc::new((0..n).map(|_| AtomicU32::new(0)).collect());
        let mk = |i: usize| { let (s, y, bad) = (slots.clone(), yields[i], fails.contains(&i)); async move { s[i].fetch_add(1, SeqCst); for _ in 0..y { tokio::task::yield_now().await; } if bad { Err(zerr("item failed")) } else { Ok(mapf(i as u64)) } } };
        let mut hs: Vec<_> = if batch { pool.spawn_batch((0..n).map(&mk)) } else { (0..n).map(|i| pool.spawn(mk(i))).collect() };
        ensure!(hs.len() == n, "result_count", "{} handles for {n} futures", hs.len());
        let mut order: Vec<usize> = (0..n).collect(); if rev { order.reverse(); hs.reverse(); }
        for (h, &i) in hs.into_iter().zip(order.iter()) {
            let r = bounded(fl, "FiberHandle", h).await?;
            c.ev(1);
            match (r, fails.contains(&i)) { (Ok(v), false) => ensure!(v == mapf(i as u64), "result_value", "handle {i} returned {v}, want {}", mapf(i as u64)), (Err(_), true) => {}
                (Ok(v), true) => return fail("error_swallowed", format!("failing fiber {i} returned Ok({v})")), (Err(e), false) => return fail("unexpected_err", format!("fiber {i}: {e}")) }
        }
        for i in 0..n { let k = slots[i].load(SeqCst); ensure!(k == 1, if k == 0 { "lost_task" } else { "ran_twice" }, "fiber {i} executed {k} times"); }
        let st = pool.stats();
        ensure!(st.total_spawned == n as u64, "stats_spawned", "total_spawned={} want {n}", st.total_spawned);
        ensure!(st.completed == (n - fails.len()) as u64 && st.failed == fails.len() as u64, "stats_completed", "completed={} failed={} want {} / {}", st.completed, st.failed, n - fails.len(), fails.len());
        ensure!(st.active_fibers == 0, "not_idle_after_drain", "active_fibers={} after every handle completed", st.active_fibers);
        match bounded(fl, "FiberPool::shutdown", pool.shutdown()).await? { Ok(()) => {} Err(e) => return fail("unexpected_err", format!("shutdown: {e}")) }
        c.ev(n as u64 + 3);
        Ok(())
    });
    drop(rt); r
}

#[derive(Clone, Copy, Debug, PartialEq)]
enum MapApi { PoolMap, PoolForEach, GlobalMap, GlobalJoinAll }
fn map_case(c: &mut Case, fl: Flav, api: MapApi) -> Res {
    let cfg = pool_cfg(c); let n = pick_n(c, 300); let items = gen_items(c, n); let fails = gen_fail_set(c, n);
    c.input_str("flav", &fl.name()); c.input("items", &le_bytes(&items)); c.input_str("fail_at", &fmt_set(&fails));
    c.set_nontrivial(n >= 2);
    if !fails.is_empty() { c.note("with_failing_item", 1); }
    let want: Vec<u64> = items.iter().map(|&x| mapf(x)).collect();
    let calls: Arc<Vec<AtomicU32>> = Arc::new((0..n).map(|_| AtomicU32::new(0)).collect());
    let fset = Arc::new(fails.clone());
    let input: Vec<(usize, u64)> = items.iter().copied().enumerate().collect();
    let rt = fl.build();
    let r = rt.block_on(async {
        let (cl, fs) = (calls.clone(), fset.clone());
        let f = move |(i, x): (usize, u64)| -> ZResult<u64> { cl[i].fetch_add(1, SeqCst); if fs.contains(&i) { Err(zerr("item failed")) } else { Ok(mapf(x)) } };
        let got: ZResult<Vec<u64>> = match api {
            MapApi::PoolMap => { let pool = FiberPool::new(cfg.clone()).map_err(|e| Fail { oracle: "ctor_err".into(), detail: e.to_string() })?; bounded(fl, "FiberPool::parallel_map", pool.parallel_map(input, f)).await? }
            MapApi::PoolForEach => {
                let pool = FiberPool::new(cfg.clone()).map_err(|e| Fail { oracle: "ctor_err".into(), detail: e.to_string() })?;
                let seen: Arc<Mutex<Vec<(usize, u64)>>> = Arc::new(Mutex::new(Vec::new())); let s2 = seen.clone();
                let g = move |it: (usize, u64)| -> ZResult<()> { let v = f(it)?; s2.lock().unwrap().push((it.0, v)); Ok(()) };
                let r = bounded(fl, "FiberPool::parallel_for_each", pool.parallel_for_each(input, g)).await?;
                // for_each returns no sequence: the visited set (by input index) is the observable
                r.map(|()| { let mut v = seen.lock().unwrap().clone(); v.sort(); v.into_iter().map(|x| x.1).collect() })
            }
            MapApi::GlobalMap => bounded(fl, "concurrency::parallel_map", zipora::concurrency::parallel_map(input, f)).await?,
            MapApi::GlobalJoinAll => { let hs: Vec<_> = input.into_iter().map(|it| { let f = f.clone(); zipora::concurrency::spawn(async move { f(it) }) }).collect(); bounded(fl, "concurrency::join_all", zipora::concurrency::join_all(hs)).await? }
        };
        cmp_seq(c, &format!("{api:?}"), &got, &want, !fails.is_empty())?;
        for i in 0..n { let k = calls[i].load(SeqCst); ensure!(k <= 1, "ran_twice", "stage function called {k} times for item {i}"); if got.is_ok() { ensure!(k == 1, "lost_task", "Ok result but the function never ran for item {i}"); } }
        Ok(())
    });
    drop(rt); r
}

#[derive(Clone, Copy, Debug, PartialEq)]
enum RedOp { Add, Max, Min, Concat, Mat }
type M2 = [u64; 4];
const MP: u64 = 1_000_003;
fn matmul(a: M2, b: M2) -> M2 { [(a[0] * b[0] + a[1] * b[2]) % MP, (a[0] * b[1] + a[1] * b[3]) % MP, (a[2] * b[0] + a[3] * b[2]) % MP, (a[2] * b[1] + a[3] * b[3]) % MP] }
/// reduce on a uniform carrier: (u64, String, M2) with the operation chosen per case; identities are true identities
#[derive(Clone, Debug, PartialEq)]
struct RV { n: u64, s: String, m: M2, poison: bool }
fn red_identity(op: RedOp) -> RV { RV { n: match op { RedOp::Min => u64::MAX, _ => 0 }, s: String::new(), m: [1, 0, 0, 1], poison: false } }
fn red_apply(op: RedOp, a: RV, b: RV) -> ZResult<RV> {
    if a.poison || b.poison { return Err(zerr("reduce step failed")); }
    Ok(match op { RedOp::Add => RV { n: a.n.wrapping_add(b.n), ..a }, RedOp::Max => RV { n: a.n.max(b.n), ..a }, RedOp::Min => RV { n: a.n.min(b.n), ..a },
        RedOp::Concat => RV { s: a.s + &b.s, ..a }, RedOp::Mat => RV { m: matmul(a.m, b.m), ..a } })
}
fn reduce_case(c: &mut Case, fl: Flav, global: bool) -> Res {
    let cfg = pool_cfg(c); let n = pick_n(c, 200); let items = gen_items(c, n);
    let op = *c.rng.pick(&[RedOp::Add, RedOp::Max, RedOp::Min, RedOp::Concat, RedOp::Concat, RedOp::Mat, RedOp::Mat]);
    let fails = if c.rng.chance(1, 4) { gen_fail_set(c, n) } else { HashSet::new() };
    c.input_str("flav", &fl.name()); c.input_str("op", &format!("{op:?}")); c.input("items", &le_bytes(&items)); c.input_str("fail_at", &fmt_set(&fails));
    c.set_nontrivial(n >= 2);
    c.note(&format!("op:{op:?}"), 1);
    let id = red_identity(op);
    let vals: Vec<RV> = items.iter().enumerate().map(|(i, &x)| RV { n: if matches!(op, RedOp::Add | RedOp::Max | RedOp::Min) { x } else { 0 }, s: if op == RedOp::Concat { format!("{}.", x % 1000) } else { String::new() },
        m: if op == RedOp::Mat { [x % MP, (x >> 20) % MP, (x >> 40) % MP, 1 + i as u64] } else { [1, 0, 0, 1] }, poison: fails.contains(&i) }).collect();
    let mut want = Ok(id.clone()); for v in vals.iter().cloned() { want = match want { Ok(a) => red_apply(op, a, v), e => e }; }
    let rt = fl.build();
    let r = rt.block_on(async {
        let f = move |a: RV, b: RV| red_apply(op, a, b);
        let got = if global { bounded(fl, "concurrency::parallel_reduce", zipora::concurrency::parallel_reduce(vals.clone(), id.clone(), f)).await? }
            else { let pool = FiberPool::new(cfg.clone()).map_err(|e| Fail { oracle: "ctor_err".into(), detail: e.to_string() })?; bounded(fl, "FiberPool::parallel_reduce", pool.parallel_reduce(vals.clone(), id.clone(), f)).await? };
        c.ev(1);
        match (&got, &want) {
            (Ok(g), Ok(w)) => ensure!(g == w, "reduce_value", "parallel reduce ({op:?}, n={n}) = {} want {}", abbrev(&format!("{g:?}")), abbrev(&format!("{w:?}"))),
            (Err(_), Err(_)) => {}
            (Ok(g), Err(_)) => return fail("error_swallowed", format!("a reduce step fails but the call returned Ok({})", abbrev(&format!("{g:?}")))),
            (Err(e), Ok(_)) => return fail("unexpected_err", format!("parallel reduce: {e}")),
        }
        Ok(())
    });
    drop(rt); r
}
fn abbrev(s: &str) -> String { if s.len() <= 160 { s.to_string() } else { format!("{}..{}", &s[..120], &s[s.len() - 30..]) } }

fn fiber_targets(ctx: &mut Ctx) {
    let per = ctx.n(60, 1500);
    for mt in [false, true] {
        let sfx = if mt { "mt" } else { "ct" };
        for idx in 0..per as u64 {
            ctx.case(&format!("fiber/spawn/{sfx}"), "mix", idx, |c| { let fl = pick_flav2(c, mt); fiber_spawn_case(c, fl, false) });
            ctx.case(&format!("fiber/spawn_batch/{sfx}"), "mix", idx, |c| { let fl = pick_flav2(c, mt); fiber_spawn_case(c, fl, true) });
            ctx.case(&format!("fiber/parallel_map/{sfx}"), "mix", idx, |c| { let fl = pick_flav2(c, mt); map_case(c, fl, MapApi::PoolMap) });
            ctx.case(&format!("fiber/parallel_for_each/{sfx}"), "mix", idx, |c| { let fl = pick_flav2(c, mt); map_case(c, fl, MapApi::PoolForEach) });
            ctx.case(&format!("fiber/parallel_reduce/{sfx}"), "mix", idx, |c| { let fl = pick_flav2(c, mt); reduce_case(c, fl, false) });
            ctx.case(&format!("pmap/parallel_map/{sfx}"), "mix", idx, |c| { let fl = pick_flav2(c, mt); map_case(c, fl, MapApi::GlobalMap) });
            ctx.case(&format!("pmap/join_all/{sfx}"), "mix", idx, |c| { let fl = pick_flav2(c, mt); map_case(c, fl, MapApi::GlobalJoinAll) });
            ctx.case(&format!("pmap/parallel_reduce/{sfx}"), "mix", idx, |c| { let fl = pick_flav2(c, mt); reduce_case(c, fl, true) });
        }
    }
}

// ---- Pipeline ----------------------------------------------------------------------------------------------------
type It = (usize, u64); // (input index, value): the behaviour tables are keyed by the index
/// Per-item behaviour of one stage: delay in virtual microseconds, failing or not.
#[derive(Clone, Debug)]
struct Beh { delay_us: Vec<u64>, fail: HashSet<usize>, mul: u64 }
impl Beh { fn f(&self, x: u64) -> u64 { mapf(x).wrapping_mul(self.mul | 1) } }
struct SlowStage { name: String, beh: Arc<Beh>, batching: bool, calls: Arc<Vec<AtomicU32>> }
impl PipelineStage<It, It> for SlowStage {
    fn process(&self, input: It) -> Pin<Box<dyn Future<Output = ZResult<It>> + Send + '_>> {
        let b = self.beh.clone(); let calls = self.calls.clone();
        Box::pin(async move {
            calls[input.0].fetch_add(1, SeqCst);
            let d = b.delay_us[input.0]; if d > 0 { tokio::time::sleep(Duration::from_micros(d)).await; }
            if b.fail.contains(&input.0) { Err(zerr("stage failed")) } else { Ok((input.0, b.f(input.1))) }
        })
    }
    fn name(&self) -> &str { &self.name }
    fn supports_batching(&self) -> bool { self.batching }
    fn process_batch(&self, inputs: Vec<It>) -> Pin<Box<dyn Future<Output = ZResult<Vec<It>>> + Send + '_>> {
        Box::pin(async move { let mut out = Vec::with_capacity(inputs.len()); for i in inputs { out.push(self.process(i).await?); } Ok(out) })
    }
}
const TIMEOUT_US: u64 = 50_500; // stage timeout; delays are 0, 1 000 (fast) or 200 000 (slow) microseconds, sums never equal the timeout
fn gen_beh(c: &mut Case, n: usize, allow_slow: bool, allow_fail: bool) -> Beh {
    let slow: HashSet<usize> = if allow_slow && c.rng.chance(1, 3) { gen_fail_set(c, n) } else { HashSet::new() };
    let fast_delay = c.rng.chance(1, 3);
    Beh { delay_us: (0..n).map(|i| if slow.contains(&i) { 200_000 } else if fast_delay && c.rng.chance(1, 4) { 1_000 } else { 0 }).collect(),
          fail: if allow_fail && c.rng.chance(1, 2) { gen_fail_set(c, n) } else { HashSet::new() }, mul: c.rng.next() }
}
fn beh_desc(b: &Beh) -> String { let slow: Vec<usize> = (0..b.delay_us.len()).filter(|&i| b.delay_us[i] > TIMEOUT_US).collect(); format!("slow_at={slow:?} fail_at={} fast_delays={}", fmt_set(&b.fail), b.delay_us.iter().filter(|&&d| d == 1000).count()) }
fn pipe_cfg(c: &mut Case, batching: bool) -> PipelineConfig {
    let cfg = PipelineConfig { buffer_size: *c.rng.pick(&[1usize, 2, 8, 1000]), max_in_flight: 1 + c.rng.usize_below(8), stage_timeout: Duration::from_micros(TIMEOUT_US), enable_batching: batching, batch_size: *c.rng.pick(&[1usize, 2, 7, 100]), batch_timeout: Duration::from_millis(100) };
    c.input_str("cfg", &format!("buffer={} max_in_flight={} batching={} batch_size={}", cfg.buffer_size, cfg.max_in_flight, cfg.enable_batching, cfg.batch_size));
    cfg
}
fn bad_items(b: &Beh) -> HashSet<usize> { let mut s = b.fail.clone(); for (i, &d) in b.delay_us.iter().enumerate() { if d > TIMEOUT_US { s.insert(i); } } s }

fn single_case(c: &mut Case, two: bool) -> Res {
    let fl = Flav::Ct; let n = 1 + pick_n(c, 40); let items = gen_items(c, n);
    let (b1, b2) = (gen_beh(c, n, true, true), gen_beh(c, n, true, true));
    let cfg = pipe_cfg(c, false); let use_map = c.rng.bool();
    c.input("items", &le_bytes(&items)); c.input_str("stage1", &beh_desc(&b1)); if two { c.input_str("stage2", &beh_desc(&b2)); } c.input_str("mapstage", &use_map.to_string());
    c.set_nontrivial(true);
    let (bad1, bad2) = (bad_items(&b1), bad_items(&b2));
    let (b1, b2) = (Arc::new(b1), Arc::new(b2));
    let rt = fl.build();
    let r = rt.block_on(async {
        let p = Pipeline::new(cfg);
        let calls: Arc<Vec<AtomicU32>> = Arc::new((0..n).map(|_| AtomicU32::new(0)).collect());
        for (i, &x) in items.iter().enumerate() {
            let must_fail = bad1.contains(&i) || (two && bad2.contains(&i));
            let want = if two { b2.f(b1.f(x)) } else { b1.f(x) };
            // MapStage can only express failing (not slow) behaviour; use it when the item is not slow
            let plain = use_map && b1.delay_us[i] == 0 && b2.delay_us[i] == 0;
            let got: ZResult<It> = if plain {
                let (a, b) = (b1.clone(), b2.clone());
                let s1 = MapStage::new("m1".into(), move |it: It| -> ZResult<It> { if a.fail.contains(&it.0) { Err(zerr("stage failed")) } else { Ok((it.0, a.f(it.1))) } });
                if two { let s2 = MapStage::new("m2".into(), move |it: It| -> ZResult<It> { if b.fail.contains(&it.0) { Err(zerr("stage failed")) } else { Ok((it.0, b.f(it.1))) } }); bounded(fl, "execute_two_stage", p.execute_two_stage(s1, s2, (i, x))).await? }
                else { bounded(fl, "execute_single", p.execute_single(s1, (i, x))).await? }
            } else {
                let s1 = SlowStage { name: "s1".into(), beh: b1.clone(), batching: false, calls: calls.clone() };
                if two { let s2 = SlowStage { name: "s2".into(), beh: b2.clone(), batching: false, calls: calls.clone() }; bounded(fl, "execute_two_stage", p.execute_two_stage(s1, s2, (i, x))).await? }
                else { bounded(fl, "execute_single", p.execute_single(s1, (i, x))).await? }
            };
            c.ev(1);
            match (got, must_fail) {
                (Ok(v), false) => ensure!(v == (i, want), "result_value", "item {i}: got {v:?} want {:?}", (i, want)),
                (Err(_), true) => { c.note("err_surfaced", 1); }
                (Ok(v), true) => return fail("error_swallowed", format!("item {i} fails / times out but the call returned Ok({v:?})")),
                (Err(e), false) => return fail("unexpected_err", format!("item {i}: {e}")),
            }
        }
        Ok(())
    });
    drop(rt); r
}

fn process_batch_case(c: &mut Case, batched: bool) -> Res {
    let fl = Flav::Ct; let n = pick_n(c, 120); let items = gen_items(c, n);
    let kind = c.rng.below(4); // 0 MapStage, 1 BatchMapStage::new, 2 BatchMapStage::with_batch_support, 3 SlowStage
    let beh = gen_beh(c, n, kind == 3, true);
    let cfg = pipe_cfg(c, batched);
    c.input("items", &le_bytes(&items)); c.input_str("stage", &format!("kind={kind} {}", beh_desc(&beh)));
    c.set_nontrivial(n >= 2);
    let total_delay: u64 = beh.delay_us.iter().sum();
    let input: Vec<It> = items.iter().copied().enumerate().collect();
    let want: Vec<It> = input.iter().map(|&(i, x)| (i, beh.f(x))).collect();
    let beh = Arc::new(beh);
    let rt = fl.build();
    let r = rt.block_on(async {
        let p = Pipeline::new(cfg);
        let b = beh.clone(); let one = move |it: It| -> ZResult<It> { if b.fail.contains(&it.0) { Err(zerr("stage failed")) } else { Ok((it.0, b.f(it.1))) } };
        let one2 = one.clone(); let many = move |v: Vec<It>| -> ZResult<Vec<It>> { v.into_iter().map(&one2).collect() };
        let mut must_fail = !bad_items(&beh).is_empty();
        let got = match kind {
            0 => bounded(fl, "process_batch", p.process_batch(MapStage::new("m".into(), one), input)).await?,
            1 => bounded(fl, "process_batch", p.process_batch(BatchMapStage::<_, fn(Vec<It>) -> ZResult<Vec<It>>>::new("bm".into(), one), input)).await?,
            2 => { if batched { c.note("batch_func_path", 1); } bounded(fl, "process_batch", p.process_batch(BatchMapStage::with_batch_support("bmb".into(), one, many), input)).await? }
            _ => { let calls: Arc<Vec<AtomicU32>> = Arc::new((0..n).map(|_| AtomicU32::new(0)).collect());
                   if batched && total_delay > TIMEOUT_US { must_fail = true; } // the whole batch shares one stage_timeout
                   if batched { c.note("batch_func_path", 1); }
                   bounded(fl, "process_batch", p.process_batch(SlowStage { name: "s".into(), beh: beh.clone(), batching: true, calls }, input)).await? }
        };
        if must_fail { c.note("with_failing_item", 1); }
        cmp_seq(c, "process_batch", &got, &want, must_fail)
    });
    drop(rt); r
}

fn stream_case(c: &mut Case, allow_bad: bool, multi: bool) -> Res {
    let fl = if allow_bad { Flav::Ct } else { *c.rng.pick(&[Flav::Ct, Flav::Mt(2), Flav::Mt(8)]) };
    let n = pick_n(c, 150); let items = gen_items(c, n); let ns = if multi { 2 + c.rng.usize_below(3) } else { 1 };
    if ns >= 2 { c.tag("stream_ge2_stages"); }
    let behs: Vec<Beh> = (0..ns).map(|_| { let mut b = gen_beh(c, n, allow_bad, allow_bad); if !fl.paused() { for d in b.delay_us.iter_mut() { *d = 0; } } b }).collect();
    let cfg = pipe_cfg(c, false); let in_cap = *c.rng.pick(&[1usize, 2, 64]); let out_cap = *c.rng.pick(&[1usize, 2, 64]);
    c.input_str("flav", &fl.name()); c.input("items", &le_bytes(&items)); for (k, b) in behs.iter().enumerate() { c.input_str(&format!("stage{k}"), &beh_desc(b)); } c.input_str("chan", &format!("in={in_cap} out={out_cap}"));
    c.set_nontrivial(n >= 2);
    let first_bad: Option<usize> = behs.iter().flat_map(|b| bad_items(b).into_iter()).min();
    if let Some(_) = first_bad { c.tag("stream_item_fails_or_times_out"); }
    let want: Vec<It> = items.iter().copied().enumerate().map(|(i, x)| (i, behs.iter().fold(x, |a, b| b.f(a)))).collect();
    let rt = fl.build();
    let r = rt.block_on(async {
        let p = Pipeline::new(cfg);
        let calls: Arc<Vec<AtomicU32>> = Arc::new((0..n).map(|_| AtomicU32::new(0)).collect());
        let stages: Vec<Box<dyn PipelineStage<It, It>>> = behs.iter().enumerate().map(|(k, b)| {
            let b = Arc::new(b.clone());
            if b.delay_us.iter().all(|&d| d == 0) && k % 2 == 0 { let b2 = b.clone(); Box::new(MapStage::new(format!("m{k}"), move |it: It| -> ZResult<It> { if b2.fail.contains(&it.0) { Err(zerr("stage failed")) } else { Ok((it.0, b2.f(it.1))) } })) as Box<dyn PipelineStage<It, It>> }
            else { Box::new(SlowStage { name: format!("s{k}"), beh: b, batching: false, calls: calls.clone() }) as Box<dyn PipelineStage<It, It>> }
        }).collect();
        let (in_tx, in_rx) = tokio::sync::mpsc::channel::<It>(in_cap); let (out_tx, mut out_rx) = tokio::sync::mpsc::channel::<It>(out_cap);
        let feed: Vec<It> = items.iter().copied().enumerate().collect();
        let producer = async move { for it in feed { if in_tx.send(it).await.is_err() { break; } } };
        let consumer = async move { let mut v = Vec::new(); while let Some(x) = out_rx.recv().await { v.push(x); } v };
        let (_, ret, out) = bounded(fl, "execute_stream", async { tokio::join!(producer, p.execute_stream(stages, in_rx, out_tx), consumer) }).await?;
        c.ev(out.len() as u64 + 1);
        // whatever happened, the output side must be a prefix of the sequential result: nothing shifted, duplicated or reordered
        ensure!(out.len() <= want.len(), "result_count", "{} outputs for {n} inputs", out.len());
        if let Some(i) = (0..out.len()).find(|&i| out[i] != want[i]) { return fail("result_order", format!("output[{i}]={:?} want {:?}", out[i], want[i])); }
        match (ret, first_bad) {
            (Ok(()), None) => ensure!(out.len() == n, "lost_item", "execute_stream returned Ok, no stage failed, but only {} of {n} items came out", out.len()),
            (Ok(()), Some(fb)) => return fail("error_swallowed", format!("item {fb} fails / times out in a stage; execute_stream returned Ok(()) and the output stream just ends after {} of {n} items (no error surfaced)", out.len())),
            (Err(_), Some(_)) => { c.note("err_surfaced", 1); }
            (Err(e), None) => return fail("unexpected_err", format!("execute_stream: {e}")),
        }
        Ok(())
    });
    drop(rt); r
}

// ---- BatchCollector ------------------------------------------------------------------------------------------
fn collector_seq_case(c: &mut Case) -> Res {
    let fl = *c.rng.pick(&[Flav::Ct, Flav::Mt(2)]);
    let max = *c.rng.pick(&[0usize, 1, 2, 3, 7, 100]); let zero_timeout = c.rng.bool();
    let nops = pick_n(c, 300);
    let ops: Vec<u8> = (0..nops).map(|_| match c.rng.below(10) { 0 => 1u8, 1 => 2, _ => 0 }).collect(); // 0 add, 1 flush, 2 check_timeout
    c.input_str("flav", &fl.name()); c.input_str("collector", &format!("max_batch_size={max} batch_timeout={}", if zero_timeout { "0" } else { "1h" })); c.input("ops", &ops);
    c.set_nontrivial(ops.iter().filter(|&&o| o == 0).count() >= 2);
    let rt = fl.build();
    let r = rt.block_on(async {
        let col: BatchCollector<u64> = BatchCollector::new(max, if zero_timeout { Duration::ZERO } else { Duration::from_secs(3600) });
        let mut out: Vec<u64> = Vec::new(); let mut next = 0u64; let mut pending = 0usize;
        for &o in &ops {
            let r = match o { 0 => { next += 1; pending += 1; col.add(next).await } 1 => col.flush().await, _ => col.check_timeout().await };
            match r { Ok(Some(b)) => { ensure!(!b.is_empty(), "empty_batch", "Some(empty batch) returned"); pending -= b.len().min(pending); out.extend(b); c.note("batches", 1); } Ok(None) => {} Err(e) => return fail("unexpected_err", format!("collector op {o}: {e}")) }
            let l = col.len().await; ensure!(l == (next as usize - out.len()), "collector_len", "len()={l} but {} items were added and {} handed out", next, out.len());
            c.ev(1);
        }
        if let Ok(Some(b)) = col.flush().await { out.extend(b); }
        ensure!(col.is_empty().await, "collector_len", "not empty after final flush");
        let want: Vec<u64> = (1..=next).collect();
        let _ = pending;
        cmp_seq(c, "BatchCollector add/flush/check_timeout", &Ok(out), &want, false)
    });
    drop(rt); r
}
fn collector_conc_case(c: &mut Case) -> Res {
    let fl = *c.rng.pick(&[Flav::Ct, Flav::Mt(2), Flav::Mt(8)]);
    let max = *c.rng.pick(&[1usize, 2, 3, 7, 50]); let producers = 2 + c.rng.usize_below(5); let per = pick_n(c, 80); let flusher = c.rng.bool(); let checker = c.rng.bool();
    c.input_str("flav", &fl.name()); c.input_str("collector", &format!("max_batch_size={max} producers={producers} per_producer={per} flusher={flusher} timeout_checker={checker}"));
    c.set_nontrivial(per >= 1);
    let rt = fl.build();
    let r = rt.block_on(async {
        let col: Arc<BatchCollector<(usize, usize)>> = Arc::new(BatchCollector::new(max, Duration::from_millis(2)));
        let got: Arc<Mutex<Vec<Vec<(usize, usize)>>>> = Arc::new(Mutex::new(Vec::new()));
        let chk = if checker { let g = got.clone(); Some(col.start_timeout_checker(move |b| { g.lock().unwrap().push(b); Box::pin(async {}) as Pin<Box<dyn Future<Output = ()> + Send>> })) } else { None };
        let mut hs = Vec::new();
        for p in 0..producers { let (col, got) = (col.clone(), got.clone()); hs.push(tokio::spawn(async move { for i in 0..per { if let Ok(Some(b)) = col.add((p, i)).await { got.lock().unwrap().push(b); } if i % 3 == p % 3 { tokio::task::yield_now().await; } } })); }
        if flusher { let (col, got) = (col.clone(), got.clone()); hs.push(tokio::spawn(async move { for _ in 0..20 { if let Ok(Some(b)) = col.flush().await { got.lock().unwrap().push(b); } tokio::task::yield_now().await; } })); }
        for h in hs { bounded(fl, "collector producer", h).await?.map_err(|e| Fail { oracle: "producer_panic".into(), detail: e.to_string() })?; }
        // the background checker never holds a drained batch across a yield point in which we could observe it missing:
        // stop it only when nothing is buffered, i.e. after our own final flush
        if let Ok(Some(b)) = col.flush().await { got.lock().unwrap().push(b); }
        if let Some(h) = chk { h.abort(); let _ = h.await; }
        if let Ok(Some(b)) = col.flush().await { got.lock().unwrap().push(b); }
        let batches = got.lock().unwrap().clone();
        let mut seen: Vec<(usize, usize)> = Vec::new();
        for b in &batches { for p in 0..producers { let mine: Vec<usize> = b.iter().filter(|x| x.0 == p).map(|x| x.1).collect(); ensure!(mine.windows(2).all(|w| w[0] < w[1]), "result_order", "items of producer {p} out of order inside one batch: {mine:?}"); } seen.extend(b.iter().copied()); }
        seen.sort(); let want: Vec<(usize, usize)> = (0..producers).flat_map(|p| (0..per).map(move |i| (p, i))).collect();
        c.note("batches", batches.len() as u64);
        if checker && seen.len() < want.len() { return inconclusive(format!("{} of {} items unaccounted for after aborting the background checker (it may have been cancelled while holding a drained batch)", want.len() - seen.len(), want.len())); }
        cmp_seq(c, "BatchCollector concurrent add", &Ok(seen), &want, false)
    });
    drop(rt); r
}

// ---- fiber_yield / fiber_aio sequence helpers -------------------------------------------------------------------
fn yield_seq_case(c: &mut Case, api: u32) -> Res {
    let fl = *c.rng.pick(&[Flav::Ct, Flav::Mt(2)]);
    let n = pick_n(c, 300); let items = gen_items(c, n); let fails = gen_fail_set(c, n); let interval = *c.rng.pick(&[1usize, 2, 3, 7, 64, 1000]);
    c.input_str("flav", &fl.name()); c.input("items", &le_bytes(&items)); c.input_str("fail_at", &fmt_set(&fails)); c.input_str("interval", &interval.to_string());
    c.set_nontrivial(n >= 2);
    let want: Vec<u64> = items.iter().map(|&x| mapf(x)).collect();
    let rt = fl.build();
    let r = rt.block_on(async {
        let input: Vec<It> = items.iter().copied().enumerate().collect();
        let fs = fails.clone();
        let f = move |(i, x): It| -> ZResult<u64> { if fs.contains(&i) { Err(zerr("item failed")) } else { Ok(mapf(x)) } };
        match api {
            0 => { let got = bounded(fl, "process_vec_yielding", CooperativeUtils::process_vec_yielding(input, interval, f)).await?; cmp_seq(c, "process_vec_yielding", &got, &want, !fails.is_empty()) }
            1 => { let it2 = input.clone(); let got = bounded(fl, "run_with_yield", CooperativeUtils::run_with_yield(n, interval, move |i| f(it2[i]))).await?; cmp_seq(c, "run_with_yield", &got, &want, !fails.is_empty()) }
            2 => { let mut out = Vec::new(); let got = bounded(fl, "YieldingIterator::for_each", YieldingIterator::new(input.into_iter(), interval).for_each(|it| { out.push(f(it)?); Ok(()) })).await?;
                   if let Ok(k) = &got { ensure!(*k == n, "result_count", "for_each reported {k} processed items for {n} inputs"); }
                   cmp_seq(c, "YieldingIterator::for_each", &got.map(|_| out), &want, !fails.is_empty()) }
            _ => { let got: Vec<It> = bounded(fl, "YieldingIterator::collect", YieldingIterator::new(input.clone().into_iter(), interval).collect::<Vec<It>>()).await?; cmp_seq(c, "YieldingIterator::collect", &Ok(got), &input, false) }
        }
    });
    drop(rt); r
}

/// completion order of `buffer_unordered(m)` over futures with the given virtual latencies (whole milliseconds: tokio timers
/// have 1 ms resolution); the flag reports a tie (two completions in the same millisecond: order then depends on poll order)
fn unordered_completion(delays: &[u64], m: usize) -> (Vec<usize>, bool) {
    let mut inflight: Vec<(u64, usize)> = Vec::new(); let mut next = 0usize; let mut now = 0u64; let mut order = Vec::new(); let mut tie = false;
    while order.len() < delays.len() {
        while inflight.len() < m.max(1) && next < delays.len() { inflight.push((now + delays[next], next)); next += 1; }
        let k = (0..inflight.len()).min_by_key(|&k| inflight[k]).unwrap(); let (t, i) = inflight.remove(k);
        if inflight.iter().any(|x| x.0 == t) { tie = true; }
        now = t; order.push(i);
    }
    (order, tie)
}
fn unordered_case(c: &mut Case, aio: bool) -> Res {
    let fl = Flav::Ct; let n = pick_n(c, 24); let m = *c.rng.pick(&[1usize, 1, 2, 3, 8, 64]);
    let mode = c.rng.below(3); // 0 all ready at once, 1 equal latency classes increasing with the index, 2 distinct random latencies
    let mut d: Vec<u64> = (0..n as u64).map(|i| match mode { 0 => 0, 1 => 1000 + 3000 * i, _ => 0 }).collect();
    if mode == 2 { let mut p: Vec<u64> = (1..=n as u64).collect(); c.rng.shuffle(&mut p); for i in 0..n { d[i] = 1000 * (16 * p[i] + c.rng.below(16)); } }
    let fails = if c.rng.chance(1, 4) { gen_fail_set(c, n) } else { HashSet::new() };
    c.input_str("max_concurrent", &m.to_string()); c.input("delays_us", &le_bytes(&d)); c.input_str("fail_at", &fmt_set(&fails));
    c.set_nontrivial(n >= 2);
    if fails.is_empty() && n >= 2 {
        let ms: Vec<u64> = d.iter().map(|x| x / 1000).collect(); let (order, tie) = unordered_completion(&ms, m);
        if m >= 2 && tie { c.note("sim_completion_order_tie", 1); } else if order != (0..n).collect::<Vec<_>>() { c.note("sim_completion_order_differs", 1); }
    }
    let want: Vec<u64> = (0..n as u64).map(mapf).collect();
    let rt = fl.build();
    let r = rt.block_on(async {
        let got = if aio {
            let paths: Vec<std::path::PathBuf> = (0..n).map(|i| std::path::PathBuf::from(format!("/nonexistent/zv-c18/{i}"))).collect();
            let (d2, f2) = (Arc::new(d.clone()), Arc::new(fails.clone()));
            let proc_ = move |p: std::path::PathBuf| -> BoxFut<ZResult<u64>> { let (d2, f2) = (d2.clone(), f2.clone()); Box::pin(async move {
                let i: usize = p.file_name().unwrap().to_str().unwrap().parse().unwrap(); if d2[i] > 0 { tokio::time::sleep(Duration::from_micros(d2[i])).await; }
                if f2.contains(&i) { Err(zerr("file failed")) } else { Ok(mapf(i as u64)) } }) };
            bounded(fl, "process_files_parallel", FiberIoUtils::process_files_parallel(paths, m, proc_)).await?
        } else {
            let ops: Vec<BoxFut<ZResult<u64>>> = (0..n).map(|i| { let (di, bad) = (d[i], fails.contains(&i)); Box::pin(async move { if di > 0 { tokio::time::sleep(Duration::from_micros(di)).await; } if bad { Err(zerr("op failed")) } else { Ok(mapf(i as u64)) } }) as BoxFut<ZResult<u64>> }).collect();
            bounded(fl, "concurrent_with_yield", CooperativeUtils::concurrent_with_yield(ops, m)).await?
        };
        // Neither function documents the order of the returned Vec (both collect with buffer_unordered), and C18 does not name
        // them: demand one result per input (multiset) and an Err for a failing operation; a differing order is only noted.
        let got = got.map(|mut v| { if v != want { c.note("results_in_completion_order", 1); } else { c.note("results_in_input_order", 1); } v.sort(); v });
        let mut want_sorted = want.clone(); want_sorted.sort();
        cmp_seq(c, if aio { "process_files_parallel" } else { "concurrent_with_yield" }, &got, &want_sorted, !fails.is_empty())
    });
    drop(rt); r
}
fn aio_batch_case(c: &mut Case) -> Res {
    let fl = *c.rng.pick(&[Flav::Ct, Flav::Mt(2)]);
    let n = pick_n(c, 300); let items = gen_items(c, n); let bs = *c.rng.pick(&[1usize, 2, 3, 7, 64, 1000]); let fails = gen_fail_set(c, n);
    c.input_str("flav", &fl.name()); c.input("items", &le_bytes(&items)); c.input_str("batch_size", &bs.to_string()); c.input_str("fail_at", &fmt_set(&fails));
    c.set_nontrivial(n >= 2);
    let want: Vec<u64> = items.iter().map(|&x| mapf(x)).collect();
    let rt = fl.build();
    let r = rt.block_on(async {
        let input: Vec<It> = items.iter().copied().enumerate().collect(); let fs = Arc::new(fails.clone());
        let proc_ = move |chunk: Vec<It>| -> BoxFut<ZResult<Vec<u64>>> { let fs = fs.clone(); Box::pin(async move { tokio::task::yield_now().await; chunk.into_iter().map(|(i, x)| if fs.contains(&i) { Err(zerr("item failed")) } else { Ok(mapf(x)) }).collect() }) };
        let got = bounded(fl, "FiberIoUtils::batch_process", FiberIoUtils::batch_process(input, bs, proc_)).await?;
        cmp_seq(c, "FiberIoUtils::batch_process", &got, &want, !fails.is_empty())
    });
    drop(rt); r
}

// ---- async blob stores -------------------------------------------------------------------------------------------
async fn store_roundtrip<S: AsyncBlobStore + 'static>(c: &mut Case, fl: Flav, store: Arc<S>, blobs: Vec<Vec<u8>>, conc: usize) -> Res {
    let n = blobs.len(); let blobs = Arc::new(blobs);
    // concurrent puts: `conc` tasks, task t stores blobs t, t+conc, ...
    let mut hs = Vec::new();
    for t in 0..conc { let (s, b) = (store.clone(), blobs.clone()); hs.push(tokio::spawn(async move { let mut ids = Vec::new(); for i in (t..b.len()).step_by(conc) { ids.push((i, s.put(&b[i]).await)); tokio::task::yield_now().await; } ids })); }
    let mut ids: Vec<Option<zipora::RecordId>> = vec![None; n];
    for h in hs { for (i, r) in bounded(fl, "put task", h).await?.map_err(|e| Fail { oracle: "put_panic".into(), detail: e.to_string() })? { match r { Ok(id) => ids[i] = Some(id), Err(e) => return fail("unexpected_err", format!("put #{i}: {e}")) } } }
    let ids: Vec<zipora::RecordId> = ids.into_iter().map(|x| x.unwrap()).collect();
    let uniq: HashSet<_> = ids.iter().copied().collect(); ensure!(uniq.len() == n, "duplicate_id", "{n} puts returned {} distinct ids", uniq.len());
    ensure!(store.len().await == n, "store_len", "len()={} after {n} puts", store.len().await);
    // concurrent gets
    let mut hs = Vec::new();
    for t in 0..conc { let (s, b, ids) = (store.clone(), blobs.clone(), ids.clone()); hs.push(tokio::spawn(async move { for i in (t..b.len()).step_by(conc) { match s.get(ids[i]).await { Ok(v) if v == b[i] => {} Ok(v) => return Err(format!("get(id of blob #{i}) returned {} bytes != stored {} bytes", v.len(), b[i].len())), Err(e) => return Err(format!("get #{i}: {e}")) } } Ok(()) })); }
    for h in hs { if let Err(d) = bounded(fl, "get task", h).await?.map_err(|e| Fail { oracle: "get_panic".into(), detail: e.to_string() })? { return fail("roundtrip_mismatch", d); } }
    c.ev(n as u64);
    let gb = store.get_batch(ids.clone()).await; cmp_seq(c, "get_batch", &gb, &blobs.to_vec(), false)?;
    let refs: Vec<&[u8]> = blobs.iter().map(|b| b.as_slice()).collect();
    match store.put_batch(refs).await { Ok(ids2) => { ensure!(ids2.len() == n, "result_count", "put_batch returned {} ids for {n} blobs", ids2.len()); for (i, id) in ids2.iter().enumerate() { let v = store.get(*id).await; ensure!(matches!(&v, Ok(v) if *v == blobs[i]), "result_order", "put_batch id #{i} does not hold blob #{i}"); } c.ev(n as u64); } Err(e) => return fail("unexpected_err", format!("put_batch: {e}")) }
    for (i, id) in ids.iter().enumerate() { if i % 2 == 0 { if let Err(e) = store.remove(*id).await { return fail("unexpected_err", format!("remove #{i}: {e}")); } } }
    for (i, id) in ids.iter().enumerate() { let has = store.contains(*id).await; ensure!(has == (i % 2 == 1), "contains_after_remove", "contains(blob #{i})={has}"); if i % 2 == 1 { let v = store.get(*id).await; ensure!(matches!(&v, Ok(v) if *v == blobs[i]), "roundtrip_mismatch", "blob #{i} changed after removing its neighbours"); } else { ensure!(store.get(*id).await.is_err(), "get_after_remove", "get of removed blob #{i} succeeded"); } }
    c.ev(n as u64);
    Ok(())
}
fn store_case(c: &mut Case, file: bool) -> Res {
    let fl = if file { *c.rng.pick(&[Flav::CtReal, Flav::Mt(2)]) } else { *c.rng.pick(&[Flav::Ct, Flav::Mt(2), Flav::Mt(8)]) };
    let n = pick_n(c, if file { 24 } else { 120 }); let conc = 1 + c.rng.usize_below(6);
    let blobs: Vec<Vec<u8>> = (0..n).map(|_| gen::bytes_any(&mut c.rng, if file { 5000 } else { 2000 }).1).collect();
    c.input_str("flav", &fl.name()); c.input_str("n", &n.to_string()); c.input_str("tasks", &conc.to_string()); for b in blobs.iter().take(3) { c.input("blob", b); } for b in blobs.iter().skip(3) { c.hash_more(b); }
    c.set_nontrivial(n >= 2);
    let rt = fl.build();
    let r = if file {
        let dir = tempfile::tempdir().expect("tempdir");
        rt.block_on(async { let s = AsyncFileStore::new(dir.path()).await.map_err(|e| Fail { oracle: "ctor_err".into(), detail: e.to_string() })?; store_roundtrip(c, fl, Arc::new(s), blobs, conc).await })
    } else { rt.block_on(async { store_roundtrip(c, fl, Arc::new(AsyncMemoryBlobStore::new()), blobs, conc).await }) };
    drop(rt); r
}

fn other_targets(ctx: &mut Ctx) {
    let per = ctx.n(100, 2500);
    for idx in 0..per as u64 {
        ctx.case("pipeline/execute_single", "mix", idx, |c| single_case(c, false));
        ctx.case("pipeline/two_stage", "mix", idx, |c| single_case(c, true));
        ctx.case("pipeline/process_batch/individual", "mix", idx, |c| process_batch_case(c, false));
        ctx.case("pipeline/process_batch/batched", "mix", idx, |c| process_batch_case(c, true));
        ctx.case("pipeline/execute_stream/1stage", "all_ok", idx, |c| stream_case(c, false, false));
        ctx.case("pipeline/execute_stream/1stage", "failing", idx, |c| stream_case(c, true, false));
        ctx.case("pipeline/execute_stream/multi", "all_ok", idx, |c| stream_case(c, false, true));
        ctx.case("pipeline/execute_stream/multi", "failing", idx, |c| stream_case(c, true, true));
        ctx.case("batch/collector", "ops", idx, collector_seq_case);
        ctx.case("batch/collector_concurrent", "producers", idx, collector_conc_case);
        ctx.case("batch/aio_batch_process", "mix", idx, aio_batch_case);
        ctx.case("yield/process_vec_yielding", "mix", idx, |c| yield_seq_case(c, 0));
        ctx.case("yield/run_with_yield", "mix", idx, |c| yield_seq_case(c, 1));
        ctx.case("yield/iter_for_each", "mix", idx, |c| yield_seq_case(c, 2));
        ctx.case("yield/iter_collect", "mix", idx, |c| yield_seq_case(c, 3));
        ctx.case("yield/concurrent_with_yield", "latency", idx, |c| unordered_case(c, false));
        ctx.case("aio/process_files_parallel", "latency", idx, |c| unordered_case(c, true));
        ctx.case("asyncstore/memory", "mix", idx, |c| store_case(c, false));
    }
    for idx in 0..ctx.n(12, 300) as u64 { ctx.case("asyncstore/file", "mix", idx, |c| store_case(c, true)); }
}

// ==== gap wave: functions of the anchor files that no case reached ====================================================
use zipora::concurrency::async_blob_store::AsyncCompressedBlobStore;
use zipora::concurrency::fiber_aio::{FiberAio, FiberAioConfig, IoProvider, VectoredIo};
use zipora::concurrency::fiber_pool::FiberPoolBuilder;
use zipora::concurrency::fiber_yield::{AdaptiveYieldScheduler, FiberYield, GlobalYield, YieldConfig, YieldPoint};
use zipora::concurrency::pipeline::{FilterStage, PipelineBuilder};
use zipora::concurrency::work_stealing::WorkStealingQueue;
use zipora::concurrency::ConcurrencyConfig;

// ---- executor: submit_closure / with_estimated_duration / the global instance ------------------------------------------
/// mode 1: tasks go in through submit_closure (== submit of a default ClosureTask); mode 2: every task carries an estimated duration
fn gen_altsubmit(c: &mut Case, w: usize, f: Flav, mode: u8) -> ExecParams {
    let cap = *c.rng.pick(CAPS); let l = count_list(w, cap); let n = (*c.rng.pick(&l)).min(400);
    let mut specs = gen_specs(c, n, if mode == 1 { 0 } else { 30 }, true);
    if mode == 1 { let all = c.rng.bool(); for s in specs.iter_mut() { if all || c.rng.chance(3, 4) { s.prio = 0; s.stealable = true; } } }
    let top = n; // children (appended by gen_specs) are submitted by their parents
    ExecParams { workers: w, cap, flav: f, specs, phases: vec![(0..top).collect()], submitters: 1 + c.rng.usize_below(3), yield_every: if c.rng.bool() { 1 + c.rng.usize_below(16) } else { 0 }, hook_pct: *c.rng.pick(&[0u64, 25]), k: k_for(f) }
}
fn altsubmit_case(c: &mut Case, w: usize, f: Flav, mode: u8) -> Res {
    let p = gen_altsubmit(c, w, f, mode);
    c.input_str("submit_mode", if mode == 1 { "submit_closure" } else { "with_estimated_duration" });
    let _g = ModeGuard; SUBMIT_MODE.store(mode, SeqCst);
    run_exec(c, p)
}
/// init_concurrency + WorkStealingExecutor::global(): the OnceLock can be set once per process and its workers live on the runtime
/// of the case that set it, so only that case submits work (same oracles as exec/*); later cases check that a second init is a
/// no-op that leaves the instance in place.
fn global_exec_case(c: &mut Case) -> Res {
    let workers = *c.rng.pick(&[1usize, 2, 3]); let cap = *c.rng.pick(CAPS);
    let n = { let l = count_list(workers, cap); (*c.rng.pick(&l)).min(400) };
    let ns = *c.rng.pick(&[0u64, 30, 100]); let specs = gen_specs(c, n, ns, true);
    let p = ExecParams { workers, cap, flav: Flav::Ct, specs, phases: vec![(0..n).collect()], submitters: 1 + c.rng.usize_below(3), yield_every: if c.rng.bool() { 3 } else { 0 }, hook_pct: 0, k: k_for(Flav::Ct) };
    describe(c, &p);
    hook_reset(c.rng.next(), 0); POLLERS.store(0, SeqCst); POLL_CALLS.store(0, SeqCst);
    let rt = Flav::Ct.build();
    let r = rt.block_on(async {
        let before = WorkStealingExecutor::global().cloned();
        let cfg = ConcurrencyConfig { max_fibers: workers, queue_size: cap, ..ConcurrencyConfig::default() };
        if let Err(e) = zipora::concurrency::init_concurrency(cfg).await { c.note("init_refused", 1); c.log(format!("init_concurrency: {e}")); c.set_nontrivial(false); return Ok(()); }
        let g = match WorkStealingExecutor::global() { Some(g) => g.clone(), None => return fail("global_missing_after_init", "init_concurrency returned Ok(()) but WorkStealingExecutor::global() is None") };
        c.ev(1);
        let res = match before {
            Some(b) => { c.note("global_already_initialised", 1); c.set_nontrivial(false); ensure!(Arc::ptr_eq(&b, &g), "global_replaced", "a second init_concurrency replaced the global executor"); Ok(()) }
            None => { c.note("global_fresh", 1); exec_scenario_on(c, &p, g).await }
        };
        // zero-sized configurations: the documentation only says the configuration is verified
        for (mf, qs) in [(0usize, cap), (workers, 0usize)] { let r = zipora::concurrency::init_concurrency(ConcurrencyConfig { max_fibers: mf, queue_size: qs, ..ConcurrencyConfig::default() }).await; c.note(if r.is_err() { "init_refuses_zero_config" } else { "init_accepts_zero_config" }, 1); }
        res
    });
    drop(rt); HOOK_PCT.store(0, SeqCst); r
}

// ---- WorkStealingQueue driven directly: any interleaving of push_local / pop_local / steal / balance -------------------
fn queue_model_case(c: &mut Case) -> Res {
    let cap = *c.rng.pick(&[0usize, 1, 2, 3, 8, 64]); let wid = c.rng.usize_below(1000); let nops = pick_n(c, 400);
    let prio_mode = c.rng.below(3); let nosteal_pct = *c.rng.pick(&[0u64, 30, 100]);
    // 0..=4 push, 5 6 pop_local, 7 8 steal, 9 balance
    let ops: Vec<(u8, u8, bool)> = (0..nops).map(|_| (c.rng.below(10) as u8, match prio_mode { 0 => 0, 1 => c.rng.below(3) as u8, _ => c.rng.next() as u8 }, !c.rng.chance(nosteal_pct, 100))).collect();
    c.input_str("queue", &format!("capacity={cap} worker_id={wid} nosteal_pct={nosteal_pct}")); c.input("ops", &ops.iter().flat_map(|o| [o.0, o.1, o.2 as u8]).collect::<Vec<u8>>());
    c.set_nontrivial(ops.iter().filter(|o| o.0 <= 4).count() >= 2 && cap >= 1);
    let rt = Flav::Ct.build();
    let q = WorkStealingQueue::new(wid, cap);
    ensure!(q.worker_id() == wid, "worker_id", "worker_id()={} for WorkStealingQueue::new({wid}, {cap})", q.worker_id());
    let log: Arc<Mutex<Vec<usize>>> = Arc::new(Mutex::new(Vec::new()));
    let mut meta: Vec<(u8, bool)> = Vec::new(); let mut state: Vec<u8> = Vec::new(); // 0 queued, 1 handed out, 2 refused
    let mut outstanding = 0usize;
    // hand a task that came out of the queue to the "worker": run it and learn which one it was
    let run = |t: Box<dyn Task>, state: &mut Vec<u8>, outstanding: &mut usize| -> Result<usize, Fail> {
        let before = log.lock().unwrap().len();
        let _ = rt.block_on(t.execute());
        let l = log.lock().unwrap(); ensure!(l.len() == before + 1, "task_body_runs", "executing a dequeued task ran {} bodies", l.len() - before);
        let id = l[before];
        ensure!(state[id] == 0, if state[id] == 1 { "ran_twice" } else { "refused_task_ran" }, "task {id} came out of the queue in state {}", state[id]);
        state[id] = 1; *outstanding -= 1; Ok(id)
    };
    for (i, &(op, prio, stealable)) in ops.iter().enumerate() {
        match op {
            0..=4 => { let id = meta.len(); meta.push((prio, stealable)); let l2 = log.clone();
                let t = ClosureTask::new(move || -> BoxFut<ZResult<()>> { l2.lock().unwrap().push(id); Box::pin(async { Ok(()) }) }).with_priority(prio).with_stealable(stealable);
                match q.push_local(Box::new(t)) { Ok(()) => { state.push(0); outstanding += 1; } Err(_) => { state.push(2); c.note("push_refused", 1); ensure!(outstanding >= cap, "spurious_reject", "op {i}: push_local refused with {outstanding} tasks queued, capacity {cap}"); } } }
            5 | 6 => { if let Some(t) = q.pop_local() { run(t, &mut state, &mut outstanding)?; c.note("popped", 1); } }
            7 | 8 => { if let Some(t) = q.steal() { let id = run(t, &mut state, &mut outstanding)?; c.note("stolen", 1); ensure!(meta[id].1, "stole_nonstealable", "op {i}: steal() handed out task {id}, which is not stealable"); } }
            _ => q.balance(),
        }
        let l = q.len(); ensure!(l == outstanding, "queue_len", "op {i} (kind {op}): len()={l} but {outstanding} accepted tasks have not been handed out");
        ensure!(q.is_empty() == (outstanding == 0), "queue_is_empty", "op {i}: is_empty()={} with {outstanding} tasks queued", q.is_empty());
        c.ev(2);
    }
    // drain as the owner: priorities must come out highest first; then whatever only steal() can reach
    let mut last: Option<u8> = None;
    while let Some(t) = q.pop_local() { let id = run(t, &mut state, &mut outstanding)?; if let Some(lp) = last { ensure!(meta[id].0 <= lp, "pop_priority_order", "pop_local handed out priority {} after priority {lp}", meta[id].0); } last = Some(meta[id].0); c.ev(1); }
    loop { let a = q.steal(); let b = q.pop_local(); if a.is_none() && b.is_none() { break; }
        if let Some(t) = a { let id = run(t, &mut state, &mut outstanding)?; ensure!(meta[id].1, "stole_nonstealable", "drain: steal() handed out non-stealable task {id}"); } if let Some(t) = b { run(t, &mut state, &mut outstanding)?; } }
    let lost: Vec<usize> = (0..state.len()).filter(|&i| state[i] == 0).collect();
    ensure!(lost.is_empty(), "lost_task", "{} accepted tasks never came out of the queue (first: #{} prio={} stealable={}); len()={}", lost.len(), lost[0], meta[lost[0]].0, meta[lost[0]].1, q.len());
    ensure!(q.is_empty() && q.len() == 0, "queue_len", "len()={} after the drain", q.len());
    c.ev(state.len() as u64 + 1);
    drop(rt); Ok(())
}

// ---- FiberPool: builder / default constructors, handle id / is_finished / abort, load_factor / is_at_capacity ----------
fn fiber_builder_case(c: &mut Case, fl: Flav) -> Res {
    let cfg = pool_cfg(c); let which = c.rng.below(4); // 0 1 builder with every setter, 2 FiberPool::default(), 3 FiberPoolBuilder::default().build()
    let n = pick_n(c, 200); let items = gen_items(c, n); let fails = gen_fail_set(c, n);
    let m = pick_n(c, 64); let aborts: HashSet<usize> = if m > 0 && c.rng.chance(1, 2) { (0..1 + c.rng.usize_below(3)).map(|_| c.rng.usize_below(m)).collect() } else { HashSet::new() };
    c.input_str("flav", &fl.name()); c.input_str("ctor", &which.to_string()); c.input("items", &le_bytes(&items)); c.input_str("fail_at", &fmt_set(&fails)); c.input_str("gated", &m.to_string()); c.input_str("abort", &fmt_set(&aborts));
    c.set_nontrivial(n >= 2 || m >= 2);
    let eff = if which <= 1 { cfg.clone() } else { FiberPoolConfig::default() };
    let want: Vec<u64> = items.iter().map(|&x| mapf(x)).collect();
    let rt = fl.build();
    let r = rt.block_on(async {
        let pool = match which {
            0 | 1 => FiberPoolBuilder::new().max_fibers(cfg.max_fibers).initial_workers(cfg.initial_workers).max_workers(cfg.max_workers).queue_capacity(cfg.queue_capacity).idle_timeout(cfg.idle_timeout).build(),
            2 => FiberPool::default(),
            _ => FiberPoolBuilder::default().build(),
        }.map_err(|e| Fail { oracle: "ctor_err".into(), detail: format!("FiberPool builder/default: {e}") })?;
        // the pool built this way behaves like FiberPool::new(cfg): parallel_map == sequential map
        let fs = Arc::new(fails.clone());
        let f = move |(i, x): (usize, u64)| -> ZResult<u64> { if fs.contains(&i) { Err(zerr("item failed")) } else { Ok(mapf(x)) } };
        let input: Vec<(usize, u64)> = items.iter().copied().enumerate().collect();
        let got = bounded(fl, "FiberPool(builder)::parallel_map", pool.parallel_map(input, f)).await?;
        cmp_seq(c, "FiberPool(builder)::parallel_map", &got, &want, !fails.is_empty())?;
        let base = pool.stats().total_spawned;
        // m fibers parked on a gate: nothing may finish, at most max_fibers are in flight
        let gate = Arc::new(tokio::sync::Semaphore::new(0));
        let slots: Arc<Vec<AtomicU32>> = Arc::new((0..m).map(|_| AtomicU32::new(0)).collect());
        let hs: Vec<_> = (0..m).map(|i| { let (g, s) = (gate.clone(), slots.clone()); pool.spawn(async move { s[i].fetch_add(1, SeqCst); let p = g.acquire().await.map_err(|_| zerr("gate closed"))?; p.forget(); Ok(mapf(i as u64)) }) }).collect();
        let ids: HashSet<u64> = hs.iter().map(|h| h.id()).collect();
        ensure!(ids.len() == m, "duplicate_id", "{m} fiber handles carry {} distinct ids", ids.len());
        // (fibers of a parallel_map that returned at its first failing handle may still be queued: give them their polls too)
        if fl.paused() { for _ in 0..3 * (m + n) + 8 { tokio::task::yield_now().await; } }
        for (i, h) in hs.iter().enumerate() { ensure!(!h.is_finished(), "finished_early", "fiber {i} is_finished() while it is parked on a closed gate"); let _ = h.elapsed(); }
        let lf = pool.load_factor(); let st = pool.stats();
        ensure!(st.active_fibers <= eff.max_fibers && lf <= 1.0, "in_flight_limit", "active_fibers={} load_factor={lf} with max_fibers={}", st.active_fibers, eff.max_fibers);
        if fl.paused() {
            let inflight = m.min(eff.max_fibers);
            ensure!(st.active_fibers == inflight, "in_flight_count", "{m} parked fibers, max_fibers={}: active_fibers={}", eff.max_fibers, st.active_fibers);
            ensure!(pool.is_at_capacity() == (m >= eff.max_fibers), "is_at_capacity", "is_at_capacity()={} with {inflight} of {} fibers in flight", pool.is_at_capacity(), eff.max_fibers);
            let started = (0..m).filter(|&i| slots[i].load(SeqCst) > 0).count(); ensure!(started == inflight, "in_flight_limit", "{started} fiber bodies started with max_fibers={}", eff.max_fibers);
            c.ev(3);
        }
        for &i in &aborts { hs[i].abort(); }
        gate.add_permits(m);
        for (i, h) in hs.into_iter().enumerate() {
            let r = bounded(fl, "FiberHandle", h).await?; c.ev(1);
            match (r, aborts.contains(&i)) { (Ok(v), false) => ensure!(v == mapf(i as u64), "result_value", "fiber {i} returned {v}"), (Err(_), true) => {}
                // on the multi-thread runtimes the fiber may not have had its first poll yet when abort() + add_permits() happen: abort can lose the race against completion
                (Ok(v), true) if !fl.paused() && v == mapf(i as u64) => { c.note("abort_lost_race", 1); }
                (Ok(v), true) => return fail("error_swallowed", format!("fiber {i} was aborted while parked but its handle returned Ok({v})")), (Err(e), false) => return fail("unexpected_err", format!("fiber {i}: {e}")) }
        }
        for i in 0..m { let k = slots[i].load(SeqCst); ensure!(k <= 1, "ran_twice", "fiber {i} executed {k} times"); if !aborts.contains(&i) { ensure!(k == 1, "lost_task", "fiber {i} never executed"); } }
        match bounded(fl, "FiberPool::shutdown", pool.shutdown()).await? { Ok(()) => {} Err(e) => return fail("unexpected_err", format!("shutdown: {e}")) }
        let st = pool.stats();
        ensure!(st.total_spawned == base + m as u64, "stats_spawned", "total_spawned={} want {}", st.total_spawned, base + m as u64);
        // shutdown() waits for the fibers that hold a permit; fibers left behind by a failed parallel_map may not even have been polled yet on a multi-thread runtime
        if aborts.is_empty() && (fails.is_empty() || fl.paused()) { ensure!(st.active_fibers == 0 && pool.load_factor() == 0.0 && !pool.is_at_capacity(), "not_idle_after_drain", "active_fibers={} load_factor={} after every handle completed", st.active_fibers, pool.load_factor()); }
        else if st.active_fibers != 0 { c.note("active_fibers_nonzero_after_abort", 1); } // statistics of aborted fibers are not specified
        Ok(())
    });
    drop(rt); r
}

fn spawn_blocking_case(c: &mut Case, fl: Flav) -> Res {
    let n = pick_n(c, 60); let items = gen_items(c, n); let fails = gen_fail_set(c, n);
    c.input_str("flav", &fl.name()); c.input("items", &le_bytes(&items)); c.input_str("fail_at", &fmt_set(&fails));
    c.set_nontrivial(n >= 2);
    let rt = fl.build();
    let r = rt.block_on(async {
        let calls: Arc<Vec<AtomicU32>> = Arc::new((0..n).map(|_| AtomicU32::new(0)).collect());
        let hs: Vec<_> = items.iter().copied().enumerate().map(|(i, x)| { let (cl, bad) = (calls.clone(), fails.contains(&i)); tokio::spawn(zipora::concurrency::spawn_blocking(move || -> ZResult<u64> { cl[i].fetch_add(1, SeqCst); if bad { Err(zerr("item failed")) } else { Ok(mapf(x)) } })) }).collect();
        for (i, h) in hs.into_iter().enumerate() {
            let r = bounded(fl, "spawn_blocking", h).await?.map_err(|e| Fail { oracle: "unexpected_err".into(), detail: format!("join: {e}") })?; c.ev(1);
            match (r, fails.contains(&i)) { (Ok(v), false) => ensure!(v == mapf(items[i]), "result_value", "spawn_blocking #{i} returned {v}, want {}", mapf(items[i])), (Err(_), true) => {}
                (Ok(v), true) => return fail("error_swallowed", format!("failing closure {i} returned Ok({v})")), (Err(e), false) => return fail("unexpected_err", format!("spawn_blocking #{i}: {e}")) }
            let k = calls[i].load(SeqCst); ensure!(k == 1, if k == 0 { "lost_task" } else { "ran_twice" }, "closure {i} executed {k} times");
        }
        Ok(())
    });
    drop(rt); r
}

// ---- Pipeline: PipelineBuilder == Pipeline::new(cfg); FilterStage; BatchMapStage::with_max_concurrency; stats() ---------
fn pipe_builder_case(c: &mut Case) -> Res {
    let fl = Flav::Ct; let n = pick_n(c, 120); let items = gen_items(c, n);
    let kind = c.rng.below(3); // 0 MapStage, 1 FilterStage, 2 BatchMapStage::with_batch_support(..).with_max_concurrency(k)
    let beh = gen_beh(c, n, false, kind != 1); let batching = c.rng.bool(); let cfg = pipe_cfg(c, batching); let conc = *c.rng.pick(&[0usize, 1, 2, 7, 1000]); let modulus = 1 + c.rng.below(5);
    c.input("items", &le_bytes(&items)); c.input_str("stage", &format!("kind={kind} {} max_concurrency={conc} filter_mod={modulus}", beh_desc(&beh)));
    c.set_nontrivial(n >= 2);
    let input: Vec<It> = items.iter().copied().enumerate().collect();
    let want: Vec<It> = input.iter().map(|&(i, x)| (i, beh.f(x))).collect();
    let must_fail = !bad_items(&beh).is_empty(); let beh = Arc::new(beh);
    let rt = fl.build();
    let r = rt.block_on(async {
        let p = PipelineBuilder::new().buffer_size(cfg.buffer_size).max_in_flight(cfg.max_in_flight).stage_timeout(cfg.stage_timeout).enable_batching(cfg.enable_batching).batch_size(cfg.batch_size).batch_timeout(cfg.batch_timeout).build();
        let b = beh.clone(); let one = move |it: It| -> ZResult<It> { if b.fail.contains(&it.0) { Err(zerr("stage failed")) } else { Ok((it.0, b.f(it.1))) } };
        let one2 = one.clone(); let many = move |v: Vec<It>| -> ZResult<Vec<It>> { v.into_iter().map(&one2).collect() };
        let ok = match kind {
            0 => { let got = bounded(fl, "process_batch", p.process_batch(MapStage::new("m".into(), one.clone()), input.clone())).await?; cmp_seq(c, "PipelineBuilder pipeline / MapStage", &got, &want, must_fail)?;
                   // one item at a time through the same pipeline: execute_single == the stage function
                   if let Some(&(i, x)) = input.first() { let r1 = bounded(fl, "execute_single", p.execute_single(MapStage::new("m1".into(), one), (i, x))).await?; ensure!(r1.is_ok() == !beh.fail.contains(&i) && r1.as_ref().map_or(true, |v| *v == want[0]), "result_value", "execute_single on the built pipeline: {r1:?} want {:?}", want[0]); }
                   got.is_ok() }
            1 => { let keep = move |it: &It| it.1 % modulus == 0; let wantf: Vec<Option<It>> = input.iter().map(|it| if keep(it) { Some(*it) } else { None }).collect();
                   let got = bounded(fl, "process_batch", p.process_batch(FilterStage::new("f".into(), keep), input.clone())).await?; cmp_seq(c, "FilterStage", &got, &wantf, false)?; true }
            _ => { let got = bounded(fl, "process_batch", p.process_batch(BatchMapStage::with_batch_support("bmc".into(), one, many).with_max_concurrency(conc), input.clone())).await?; cmp_seq(c, "BatchMapStage::with_max_concurrency", &got, &want, must_fail)?; got.is_ok() }
        };
        let st = p.stats().await;
        if ok && !must_fail { let done = n as u64 + if kind == 0 && n > 0 { 1 } else { 0 };
            ensure!(st.items_in_flight == 0, "in_flight_after_drain", "stats().items_in_flight={} after every call returned Ok", st.items_in_flight);
            ensure!(st.total_processed == done, "stats_total_processed", "stats().total_processed={} after {done} items went through", st.total_processed); c.ev(2);
        } else if st.items_in_flight != 0 { c.note("items_in_flight_nonzero_after_error", 1); } // accounting after a failed call is not specified
        Ok(())
    });
    drop(rt); r
}

// ---- fiber_yield primitives inside cooperating tasks: every step of every task runs once, in order, and all tasks finish --
fn yield_prims_case(c: &mut Case) -> Res {
    let fl = Flav::Ct; let k = 1 + c.rng.usize_below(5); let steps = pick_n(c, 80); let interval = *c.rng.pick(&[1usize, 2, 3, 7, 64]);
    let custom = c.rng.bool(); let ycfg = if custom { YieldConfig { initial_budget: *c.rng.pick(&[0u8, 1, 2, 16]), max_budget: 32, min_budget: 1, decay_rate: 0.1, yield_threshold: Duration::from_micros(*c.rng.pick(&[0u64, 100, 1_000_000])), adaptive_budgeting: c.rng.bool() } } else { YieldConfig::default() };
    let ops: Vec<Vec<u8>> = (0..k).map(|_| (0..steps).map(|_| c.rng.below(10) as u8).collect()).collect();
    c.input_str("cfg", &format!("tasks={k} interval={interval} custom={custom} initial_budget={} threshold_us={} adaptive={}", ycfg.initial_budget, ycfg.yield_threshold.as_micros(), ycfg.adaptive_budgeting)); for o in &ops { c.input("ops", o); }
    c.set_nontrivial(steps >= 2);
    let rt = fl.build();
    let r = rt.block_on(async {
        let it = YieldingIterator::new(0..3u32, interval); ensure!(it.processed_count() == 0, "processed_count", "fresh YieldingIterator reports {} processed items", it.processed_count());
        let log: std::rc::Rc<std::cell::RefCell<Vec<(usize, usize)>>> = Default::default();
        let sched = std::rc::Rc::new(if custom { AdaptiveYieldScheduler::with_config(ycfg.clone()) } else { AdaptiveYieldScheduler::new() });
        let local = tokio::task::LocalSet::new();
        let res: Result<Vec<(u64, u64, usize, usize, u64, u64)>, Fail> = local.run_until(async {
            let mut hs = Vec::new();
            for t in 0..k { let (log, sched, ops, ycfg) = (log.clone(), sched.clone(), ops[t].clone(), ycfg.clone());
                hs.push(tokio::task::spawn_local(async move {
                    let fy = if custom { FiberYield::with_config(ycfg) } else { FiberYield::new() }; let yp = YieldPoint::new(interval); let h = sched.register_fiber();
                    let (mut sure, mut maybe, mut cps, mut hy) = (0u64, 0u64, 0usize, 0u64);
                    for (s, &op) in ops.iter().enumerate() {
                        log.borrow_mut().push((t, s));
                        match op { 0 => { fy.yield_now().await; sure += 1; } 1 => { fy.force_yield().await; sure += 1; } 2 => { fy.yield_if_needed().await; maybe += 1; } 3 => { fy.yield_for(Duration::from_micros(1500)).await; sure += 1; }
                            4 => { yp.checkpoint().await; cps += 1; } 5 => yp.yield_now().await, 6 => GlobalYield::yield_now().await, 7 => { if s % 2 == 0 { GlobalYield::force_yield().await } else { GlobalYield::yield_if_needed().await } }
                            8 => { h.yield_now().await; hy += 1; } _ => { let _ = (fy.should_yield(), fy.budget(), fy.execution_time(), GlobalYield::should_yield()); fy.update_budget(if s % 3 == 0 { 0.9 } else { 0.1 }); } }
                    }
                    let _ = sched.load_factor(); // AdaptiveYieldScheduler::stats() returns a private type: not callable from outside the crate
                    (fy.total_yields(), sure, cps, yp.operation_count(), h.stats().total_yields, (maybe << 32) | hy)
                })); }
            let mut out = Vec::new();
            for h in hs { out.push(bounded(fl, "task using the fiber_yield primitives", h).await?.map_err(|e| Fail { oracle: "task_panic".into(), detail: e.to_string() })?); }
            Ok(out)
        }).await;
        let res = res?;
        let l = log.borrow();
        for t in 0..k { let mine: Vec<usize> = l.iter().filter(|x| x.0 == t).map(|x| x.1).collect(); ensure!(mine == (0..steps).collect::<Vec<_>>(), "step_sequence", "task {t} logged {} steps for {steps} (first deviation at {:?})", mine.len(), (0..mine.len().min(steps)).find(|&i| mine[i] != i)); c.ev(steps as u64); }
        for (t, &(total, sure, cps, opc, hy_stat, packed)) in res.iter().enumerate() { let (maybe, hy) = (packed >> 32, packed & 0xffff_ffff);
            // counters are documented as "total number of yields performed" / "operation count": exact where every call yields
            ensure!(total >= sure && total <= sure + maybe, "yield_count", "task {t}: FiberYield::total_yields()={total} after {sure} unconditional and {maybe} conditional yields");
            ensure!(opc == cps, "operation_count", "task {t}: YieldPoint::operation_count()={opc} after {cps} checkpoints");
            ensure!(hy_stat == hy, "yield_count", "task {t}: FiberYieldHandle stats().total_yields={hy_stat} after {hy} yield_now calls"); c.ev(3); }
        // reset() is documented to reset the controller / the yield point
        let fy = FiberYield::with_config(ycfg.clone()); fy.force_yield().await; fy.reset(); ensure!(fy.total_yields() == 0 && fy.budget() == ycfg.initial_budget && fy.execution_time() == Duration::ZERO, "reset_state", "FiberYield after reset(): total_yields={} budget={}", fy.total_yields(), fy.budget());
        let yp = YieldPoint::new(interval); yp.checkpoint().await; yp.reset(); ensure!(yp.operation_count() == 0, "reset_state", "YieldPoint::operation_count()={} after reset()", yp.operation_count());
        GlobalYield::yield_now().await; GlobalYield::reset(); let gs = GlobalYield::stats(); ensure!(gs.total_yields == 0, "reset_state", "GlobalYield::stats().total_yields={} right after reset()", gs.total_yields);
        c.ev(3);
        Ok(())
    });
    drop(rt); r
}

// ---- fiber_aio: whole-file save / load / copy and in-order reads; vectored helpers keep buffer order ---------------------
/// wait (at most ~3 s, real time) until the file has `len` bytes; true when it did not have them at the first look
async fn wait_len(p: &std::path::Path, len: usize) -> bool {
    let has = |p: &std::path::Path| std::fs::metadata(p).map(|m| m.len() as usize >= len).unwrap_or(false);
    if has(p) { return false; }
    for _ in 0..600 { tokio::time::sleep(Duration::from_millis(5)).await; if has(p) { break; } }
    true
}
fn aio_file_case(c: &mut Case) -> Res {
    let fl = *c.rng.pick(&[Flav::CtReal, Flav::Mt(2)]);
    let len = *c.rng.pick(&[0usize, 1, 31, 700, 5000, 20_000]); let data = { let k = c.rng.below(gen::BYTE_KINDS as u64) as u32; gen::bytes_kind(&mut c.rng, k, len) };
    let custom = c.rng.chance(3, 4);
    let cfg = if custom { FiberAioConfig { io_provider: if c.rng.bool() { IoProvider::Auto } else { IoProvider::Tokio }, read_buffer_size: *c.rng.pick(&[16usize, 64, 4096]), write_buffer_size: *c.rng.pick(&[16usize, 4096]), enable_vectored_io: c.rng.bool(), enable_direct_io: false, read_ahead_size: *c.rng.pick(&[32usize, 256, 8192]) } } else { FiberAioConfig::default() };
    let sizes: Vec<usize> = (0..400).map(|_| *c.rng.pick(&[1usize, 3, 15, 16, 17, 63, 64, 100, 4096, 5000])).collect();
    let chunks: Vec<usize> = (0..1 + c.rng.usize_below(6)).map(|_| 1 + c.rng.usize_below(40)).collect();
    let positioned: Vec<(u8, usize, usize)> = (0..c.rng.usize_below(12)).map(|_| (c.rng.below(3) as u8, c.rng.usize_below(len + 2), *c.rng.pick(&[1usize, 16, 64, 5000]))).collect();
    c.input_str("flav", &fl.name()); c.input("data", &data); c.input_str("cfg", &format!("custom={custom} read_buffer={} read_ahead={}", cfg.read_buffer_size, cfg.read_ahead_size)); c.input("chunks", &chunks.iter().map(|&x| x as u8).collect::<Vec<u8>>());
    c.set_nontrivial(len >= 2);
    let rt = fl.build(); let dir = tempfile::tempdir().expect("tempdir");
    let r = rt.block_on(async {
        let io = |what: &str, e: ZiporaError| Fail { oracle: "unexpected_err".into(), detail: format!("{what}: {e}") };
        let aio = if custom { FiberAio::with_config(cfg.clone()) } else { FiberAio::new() }.map_err(|e| Fail { oracle: "ctor_err".into(), detail: e.to_string() })?;
        if *aio.io_provider() == IoProvider::Auto { c.note("provider_left_auto", 1); } let _ = aio.config(); let _ = IoProvider::auto_detect();
        let (p1, p2, p3) = (dir.path().join("a"), dir.path().join("b"), dir.path().join("c"));
        aio.write_all(&p1, &data).await.map_err(|e| io("FiberAio::write_all", e))?;
        // FiberAio::write_all / copy drop their tokio File without flush(): the last write may still be in flight on the blocking pool
        // when they return. C18 does not cover that; the contents are compared once the file has its final length (bounded wait).
        if wait_len(&p1, data.len()).await { c.note("aio_write_visible_late", 1); }
        let back = aio.read_to_vec(&p1).await.map_err(|e| io("FiberAio::read_to_vec", e))?;
        ensure!(back == data, "roundtrip_mismatch", "write_all + read_to_vec: {} bytes back for {} written", back.len(), data.len());
        let copied = aio.copy(&p1, &p2).await.map_err(|e| io("FiberAio::copy", e))?;
        if wait_len(&p2, data.len()).await { c.note("aio_write_visible_late", 1); }
        let back2 = std::fs::read(&p2).map_err(|e| Fail { oracle: "unexpected_err".into(), detail: e.to_string() })?;
        ensure!(copied == data.len() as u64 && back2 == data, "roundtrip_mismatch", "copy reported {copied} bytes, destination holds {} of {}", back2.len(), data.len());
        c.ev(2);
        // FiberFile: create + write / write_all in pieces, flush + sync, then sequential reads with changing buffer sizes
        let mut w = aio.create(&p3).await.map_err(|e| io("FiberAio::create", e))?; let mut off = 0usize; let mut j = 0usize;
        while off < data.len() { let e = (off + sizes[j % sizes.len()]).min(data.len());
            if j % 2 == 0 { w.write_all(&data[off..e]).await.map_err(|e| io("FiberFile::write_all", e))?; off = e; } else { let k = w.write(&data[off..e]).await.map_err(|e| io("FiberFile::write", e))?; ensure!(k >= 1 && k <= e - off, "write_count", "write of {} bytes reported {k}", e - off); off += k; }
            ensure!(w.position() == off as u64, "file_position", "position()={} after writing {off} bytes", w.position()); j += 1; }
        w.flush().await.map_err(|e| io("flush", e))?; w.sync_data().await.map_err(|e| io("sync_data", e))?; w.sync_all().await.map_err(|e| io("sync_all", e))?; drop(w);
        let mut f = aio.open(&p3).await.map_err(|e| io("FiberAio::open", e))?; let mut got = Vec::new(); let mut j = 0usize;
        loop { let mut buf = vec![0u8; sizes[j % sizes.len()]]; j += 1; let k = f.read(&mut buf).await.map_err(|e| io("FiberFile::read", e))?; if k == 0 { break; } ensure!(k <= buf.len(), "read_count", "read into {} bytes reported {k}", buf.len()); got.extend_from_slice(&buf[..k]);
            ensure!(f.position() == got.len() as u64, "file_position", "position()={} after reading {} bytes", f.position(), got.len()); if got.len() > data.len() { break; } }
        ensure!(got == data, "roundtrip_mismatch", "pieces written with write/write_all and read back in order with read(): {} bytes for {} (first difference at {:?})", got.len(), data.len(), (0..got.len().min(data.len())).find(|&i| got[i] != data[i]));
        c.ev(1);
        // copy_to between two handles; read_to_end of a fresh handle
        let mut src = aio.open(&p3).await.map_err(|e| io("open", e))?; let mut dst = aio.create(&p2).await.map_err(|e| io("create", e))?;
        let k = src.copy_to(&mut dst).await.map_err(|e| io("FiberFile::copy_to", e))?; dst.flush().await.map_err(|e| io("flush", e))?; drop(dst);
        let mut again = aio.open(&p2).await.map_err(|e| io("open", e))?; let all = again.read_to_end().await.map_err(|e| io("FiberFile::read_to_end", e))?;
        ensure!(k == data.len() as u64 && all == data, "roundtrip_mismatch", "copy_to reported {k} bytes, read_to_end of the copy gives {} of {}", all.len(), data.len());
        c.ev(1);
        // positioned access (seek / read_at mixed with read): C18 says nothing about it - deviations are only noted
        let mut f = aio.open(&p3).await.map_err(|e| io("open", e))?; let mut pos = 0usize;
        for &(op, at, sz) in &positioned { let mut buf = vec![0u8; sz];
            match op { 0 => { if let Ok(p) = f.seek(tokio::io::SeekFrom::Start(at as u64)).await { if p != at as u64 { c.note("seek_result_differs", 1); } pos = at; } }
                1 => { if let Ok(k) = f.read_at(&mut buf, at as u64).await { let e = (at + k).min(data.len()); if at <= data.len() && buf[..k] != data[at.min(data.len())..e] { c.note("read_at_data_differs", 1); } if f.position() != pos as u64 { c.note("read_at_moved_position", 1); } } }
                _ => { if let Ok(k) = f.read(&mut buf).await { let s = pos.min(data.len()); let e = (s + k).min(data.len()); if buf[..k] != data[s..e] || (k == 0 && s < data.len()) { c.note("positioned_read_data_differs", 1); } pos += k; } } } }
        // vectored helpers on in-memory streams: buffers are consumed / filled in slice order
        let mut parts: Vec<&[u8]> = Vec::new(); let mut o = 0usize; for &ch in &chunks { let e = (o + ch).min(data.len()); if e > o { parts.push(&data[o..e]); } o = e; }
        let total: usize = parts.iter().map(|p| p.len()).sum();
        let slices: Vec<std::io::IoSlice<'_>> = parts.iter().map(|p| std::io::IoSlice::new(p)).collect(); let mut sink: Vec<u8> = Vec::new();
        let wrote = VectoredIo::write_vectored(&mut sink, &slices).await.map_err(|e| io("write_vectored", e))?;
        ensure!(wrote == total && sink == data[..total], "vectored_order", "write_vectored reported {wrote} of {total} bytes; sink holds {} bytes, equal to the concatenation: {}", sink.len(), sink == data[..total]);
        let mut bufs: Vec<Vec<u8>> = chunks.iter().map(|&ch| vec![0u8; ch]).collect(); let cap_total: usize = chunks.iter().sum();
        let mut reader: &[u8] = &data;
        let (n_read, filled) = { let mut rbs: Vec<tokio::io::ReadBuf<'_>> = bufs.iter_mut().map(|b| tokio::io::ReadBuf::new(b)).collect(); let n = VectoredIo::read_vectored(&mut reader, &mut rbs).await.map_err(|e| io("read_vectored", e))?; (n, rbs.iter().flat_map(|rb| rb.filled().to_vec()).collect::<Vec<u8>>()) };
        ensure!(n_read == cap_total.min(data.len()) && filled == data[..n_read], "vectored_order", "read_vectored reported {n_read} bytes for buffers of {cap_total} over {} bytes; filled parts equal the prefix: {}", data.len(), filled == data[..n_read.min(data.len())]);
        c.ev(2);
        Ok(())
    });
    drop(rt); r
}

// ---- async blob stores: with_capacity constructor, compression wrapper ---------------------------------------------------
fn store_case2(c: &mut Case, compressed: bool) -> Res {
    let fl = if compressed { *c.rng.pick(&[Flav::CtReal, Flav::Mt(2)]) } else { *c.rng.pick(&[Flav::Ct, Flav::Mt(2), Flav::Mt(8)]) };
    let n = pick_n(c, if compressed { 40 } else { 120 }); let conc = 1 + c.rng.usize_below(6); let capacity = *c.rng.pick(&[0usize, 1, 7, 1000]); let level = *c.rng.pick(&[1i32, 3, 9]);
    let blobs: Vec<Vec<u8>> = (0..n).map(|_| gen::bytes_any(&mut c.rng, 2000).1).collect();
    c.input_str("flav", &fl.name()); c.input_str("n", &n.to_string()); c.input_str("tasks", &conc.to_string()); c.input_str("store", &format!("capacity={capacity} level={level}")); for b in blobs.iter().take(3) { c.input("blob", b); } for b in blobs.iter().skip(3) { c.hash_more(b); }
    c.set_nontrivial(n >= 2);
    let rt = fl.build();
    let r = if compressed { rt.block_on(async { store_roundtrip(c, fl, Arc::new(AsyncCompressedBlobStore::new(AsyncMemoryBlobStore::with_capacity(capacity), level)), blobs, conc).await }) }
        else { rt.block_on(async { store_roundtrip(c, fl, Arc::new(AsyncMemoryBlobStore::with_capacity(capacity)), blobs, conc).await }) };
    drop(rt); r
}

fn gap_targets(ctx: &mut Ctx) {
    let n_alt = ctx.n(5, 300);
    for &w in &[1usize, 2, 3, 8] { for &f in &[Flav::Ct, Flav::Mt(1), Flav::Mt(2), Flav::Mt(8)] {
        let t = format!("exec/w{w}/{}", f.name());
        for idx in 0..n_alt as u64 { ctx.case(&t, "closure", idx, |c| altsubmit_case(c, w, f, 1)); ctx.case(&t, "estdur", idx, |c| altsubmit_case(c, w, f, 2)); }
    } }
    for idx in 0..ctx.n(4, 16) as u64 { ctx.case("exec/global", "init", idx, global_exec_case); }
    for idx in 0..ctx.n(2000, 40_000) as u64 { ctx.case("queue/direct", "ops", idx, queue_model_case); }
    let per = ctx.n(150, 3000);
    for mt in [false, true] { let sfx = if mt { "mt" } else { "ct" };
        for idx in 0..per as u64 {
            ctx.case(&format!("fiber/builder/{sfx}"), "gated", idx, |c| { let fl = pick_flav2(c, mt); fiber_builder_case(c, fl) });
            ctx.case(&format!("pmap/spawn_blocking/{sfx}"), "mix", idx, |c| { let fl = pick_flav2(c, mt); spawn_blocking_case(c, fl) });
        } }
    for idx in 0..ctx.n(300, 6000) as u64 {
        ctx.case("pipeline/builder", "stages", idx, pipe_builder_case);
        ctx.case("yield/primitives", "steps", idx, yield_prims_case);
        ctx.case("asyncstore/memory", "with_capacity", idx, |c| store_case2(c, false));
    }
    for idx in 0..ctx.n(100, 2500) as u64 { ctx.case("aio/file", "roundtrip", idx, aio_file_case); ctx.case("asyncstore/compressed", "mix", idx, |c| store_case2(c, true)); }
}

pub fn run(ctx: &mut Ctx) {
    zipora::verif_hooks::set_sched_hook(Some(hook));
    crate::ctx::enable_deadlock_probe(true);
    exec_targets(ctx);
    fiber_targets(ctx);
    other_targets(ctx);
    gap_targets(ctx);
    zipora::verif_hooks::set_sched_hook(None);
}
