//! C03 — blob stores return exactly what was stored, under stable ids.
//!
//! Oracle: `Model` = BTreeMap<RecordId, Vec<u8>> of live records + sets of removed / ever-issued ids. After every
//! operation of a history (and once for bulk-built stores) `check_all` compares get / contains / size / len / is_empty
//! for all live ids and probes removed and never-issued ids for absence. Wrapper stacks, builders and save->load are
//! separate targets. An `Err` from put / remove / finish leaves the model unchanged (the statement conditions on the
//! association having been made); what must never happen is a wrong answer for an id the store handed out.
use crate::ctx::{catch, Case, Ctx, Fail, Res};
use crate::gen;
use crate::rng::Rng;
use std::collections::{BTreeMap, BTreeSet};
use zipora::blob_store::cached_store::CacheWriteStrategy;
use zipora::blob_store::*;
use zipora::cache::PageCacheConfig;
use zipora::compression::dict_zip::EntropyAlgorithm as DzEntropy;
use zipora::error::Result as ZResult;
use zipora::succinct::rank_select::RankSelectInterleaved256;

type Trie = NestLoudsTrieBlobStore<RankSelectInterleaved256>;
type TrieBuilder = NestLoudsTrieBlobStoreBuilder<RankSelectInterleaved256>;

fn bad(oracle: &str, d: String) -> Fail { Fail { oracle: oracle.to_string(), detail: d } }
fn pre(prefix: &str, r: Res) -> Res { r.map_err(|f| if f.oracle.starts_with("__") { f } else { Fail { oracle: format!("{prefix}{}", f.oracle), detail: f.detail } }) }
fn ab(b: &[u8]) -> String { gen::abbrev(b) }

// ---- system under test: object-safe view of the optional traits ---------------------------------------------
trait Sut {
    fn bs(&self) -> &dyn BlobStore;
    fn bs_mut(&mut self) -> &mut dyn BlobStore;
    fn put_batch(&mut self, _b: Vec<Vec<u8>>) -> Option<ZResult<Vec<u32>>> { None }
    fn get_batch(&self, _ids: Vec<u32>) -> Option<ZResult<Vec<Option<Vec<u8>>>>> { None }
    fn remove_batch(&mut self, _ids: Vec<u32>) -> Option<ZResult<usize>> { None }
    fn iter_ids(&self) -> Option<Vec<u32>> { None }
    /// record which internal strategies were exercised (where the API exposes it)
    fn coverage(&self, _c: &mut Case) {}
}
struct B<S>(S);   // BlobStore only
struct BBI<S>(S); // + BatchBlobStore + IterableBlobStore
impl<S: BlobStore> Sut for B<S> { fn bs(&self) -> &dyn BlobStore { &self.0 } fn bs_mut(&mut self) -> &mut dyn BlobStore { &mut self.0 } }
impl<S: BlobStore + BatchBlobStore + IterableBlobStore> Sut for BBI<S> {
    fn bs(&self) -> &dyn BlobStore { &self.0 } fn bs_mut(&mut self) -> &mut dyn BlobStore { &mut self.0 }
    fn put_batch(&mut self, b: Vec<Vec<u8>>) -> Option<ZResult<Vec<u32>>> { Some(self.0.put_batch(b)) }
    fn get_batch(&self, ids: Vec<u32>) -> Option<ZResult<Vec<Option<Vec<u8>>>>> { Some(self.0.get_batch(ids)) }
    fn remove_batch(&mut self, ids: Vec<u32>) -> Option<ZResult<usize>> { Some(self.0.remove_batch(ids)) }
    fn iter_ids(&self) -> Option<Vec<u32>> { Some(self.0.iter_ids().collect()) }
}

// ---- model ----------------------------------------------------------------------------------------------------
#[derive(Default)]
struct Model { live: BTreeMap<u32, Vec<u8>>, removed: BTreeSet<u32>, issued: BTreeSet<u32>, last_removed: Vec<u32>, ops_cap: Option<usize>, defer_len: bool, len_fail: std::cell::RefCell<Option<Fail>>, sample: Option<usize> }
impl Model {
    /// record a successful put; a handed-out id must not name another live record
    fn issue(&mut self, id: u32, data: &[u8], what: &str) -> Res {
        if let Some(old) = self.live.get(&id) { return Err(bad("id_reuse_live", format!("{what} returned id {id} which is still live (old len {}, new len {})", old.len(), data.len()))); }
        self.live.insert(id, data.to_vec()); self.issued.insert(id); self.removed.remove(&id); Ok(())
    }
    fn unissue(&mut self, id: u32) { if self.live.remove(&id).is_some() { self.removed.insert(id); self.last_removed.push(id); if self.last_removed.len() > 6 { self.last_removed.remove(0); } } }
    fn absent_probes(&self, r: &mut Rng) -> Vec<u32> {
        let mut v: Vec<u32> = self.last_removed.iter().copied().filter(|i| !self.live.contains_key(i)).collect();
        let max = self.issued.iter().next_back().copied();
        v.push(u32::MAX); v.push(max.map(|m| m.wrapping_add(1)).unwrap_or(1)); v.push(max.map(|m| m.wrapping_add(2 + r.below(1000) as u32)).unwrap_or(7)); v.push(0); v.push(r.next() as u32);
        v.sort(); v.dedup(); v.retain(|i| !self.live.contains_key(i)); v
    }
}

/// The oracle: everything the statement says about the current state.
fn check_all(c: &mut Case, s: &dyn Sut, m: &Model, at: &str) -> Res {
    let st = s.bs();
    let n = st.len();
    if n != m.live.len() || st.is_empty() != m.live.is_empty() {
        let f = if n != m.live.len() { bad("len", format!("{at}: len()={n} but {} records are live", m.live.len())) } else { bad("is_empty", format!("{at}: is_empty()={} with {} live records", st.is_empty(), m.live.len())) };
        // `defer_len`: keep going so that a store whose len() is known to be broken still gets its contents checked; the len failure is reported at the end
        if m.defer_len { let mut g = m.len_fail.borrow_mut(); if g.is_none() { *g = Some(f); } } else { return Err(f); }
    }
    // huge cases (`m.sample = Some(k)`): exact len, then the ids around the 2^16 / 2^17 boundaries, first / last and k random live ids
    let sampled: Option<BTreeSet<u32>> = m.sample.filter(|&k| m.live.len() > k + 64).map(|k| {
        let ids: Vec<u32> = m.live.keys().copied().collect(); let mut pick = BTreeSet::new();
        for &i in ids.iter().take(8).chain(ids.iter().rev().take(8)) { pick.insert(i); }
        for b in [255u32, 256, 65535, 65536, 65537, 131071, 131072, 131073] { for d in 0..3u32 { if let Some((&i, _)) = m.live.range((b + d).saturating_sub(1)..).next() { pick.insert(i); } } }
        for pos in [65535usize, 65536, 65537, 131071, 131072, 131073] { if let Some(&i) = ids.get(pos) { pick.insert(i); } }
        for _ in 0..k { pick.insert(ids[c.rng.usize_below(ids.len())]); } pick });
    for (&id, want) in &m.live {
        if let Some(p) = &sampled { if !p.contains(&id) { continue; } }
        match st.get(id) {
            Ok(g) => { if &g != want { return Err(bad("get_mismatch", format!("{at}: get({id}) returned {} want {}", ab(&g), ab(want)))); } }
            Err(e) => return Err(bad("get_err_live", format!("{at}: get({id}) of a live record (len {}) failed: {e}", want.len()))),
        }
        ensure!(st.contains(id), "contains_false_live", "{at}: contains({id}) false for a live record");
        match st.size(id) { Ok(Some(z)) if z == want.len() => {}, other => return Err(bad("size_live", format!("{at}: size({id})={other:?} want Some({})", want.len()))) }
        c.ev(3);
    }
    let probes = m.absent_probes(&mut c.rng);
    for id in probes {
        let kind = if m.removed.contains(&id) { "removed" } else { "never-issued" };
        match catch(|| st.get(id)) {
            Ok(Ok(g)) => return Err(bad("get_absent_ok", format!("{at}: get({id}) of a {kind} id returned Ok({})", ab(&g)))),
            Ok(Err(_)) => {}
            Err(p) => return Err(bad("get_absent_panic", format!("{at}: get({id}) of a {kind} id (store has {} records) panicked at {}: {}", m.live.len(), p.loc, p.msg))),
        }
        ensure!(!st.contains(id), "contains_absent", "{at}: contains({id}) true for a {kind} id");
        if let Ok(Some(z)) = st.size(id) { return Err(bad("size_absent", format!("{at}: size({id}) of a {kind} id = Some({z})"))); }
        c.ev(3);
    }
    Ok(())
}

fn check_batch_iter(c: &mut Case, s: &dyn Sut, m: &Model, at: &str) -> Res {
    let mut ids: Vec<u32> = m.live.keys().copied().collect(); ids.extend(m.absent_probes(&mut c.rng)); c.rng.shuffle(&mut ids);
    if ids.len() > 64 { ids.truncate(64); }
    if let Some(r) = s.get_batch(ids.clone()) {
        match r {
            Ok(v) => { ensure!(v.len() == ids.len(), "get_batch_len", "{at}: get_batch of {} ids returned {} entries", ids.len(), v.len());
                for (i, id) in ids.iter().enumerate() { let want = m.live.get(id); if v[i].as_ref() != want { return Err(bad("get_batch_mismatch", format!("{at}: get_batch[{i}] id {id} = {:?} want {:?}", v[i].as_ref().map(|x| ab(x)), want.map(|x| ab(x))))); } c.ev(1); } }
            Err(e) => return Err(bad("get_batch_err", format!("{at}: get_batch({ids:?}) failed: {e}"))),
        }
    }
    if let Some(mut got) = s.iter_ids() {
        let n = got.len(); got.sort(); got.dedup();
        ensure!(got.len() == n, "iter_ids_dup", "{at}: iter_ids yields duplicates");
        let want: Vec<u32> = m.live.keys().copied().collect();
        ensure!(got == want, "iter_ids", "{at}: iter_ids={got:?} want {want:?}"); c.ev(1);
    }
    Ok(())
}

// ---- record pools ----------------------------------------------------------------------------------------------
const STYLES: u32 = 8;
fn style_name(s: u32) -> &'static str { ["mixed", "equal_len", "compressible", "incompressible", "mostly_empty", "dup_prefix", "related_text", "tiny"][(s % STYLES) as usize] }
/// `n` records; `maxlen` bounds each record.
fn mk_pool(r: &mut Rng, style: u32, n: usize, maxlen: usize) -> Vec<Vec<u8>> {
    let base = gen::bytes_kind(r, 10, maxlen.min(700).max(8));
    let eq_len = if r.chance(1, 8) { 0 } else { gen::pick_len(r, maxlen.min(300)) };
    let eq_kind = r.below(gen::BYTE_KINDS as u64) as u32;
    let mut out: Vec<Vec<u8>> = Vec::with_capacity(n);
    for i in 0..n {
        let rec = match style % STYLES {
            0 => { let (_, b) = gen::bytes_any(r, maxlen); b }
            1 => gen::bytes_kind(r, eq_kind, eq_len),
            2 => { let k = *r.pick(&[1u32, 2, 3, 8, 9, 10, 13]); let l = gen::pick_len(r, maxlen); gen::bytes_kind(r, k, l) }
            3 => { let l = gen::pick_len(r, maxlen); r.bytes(l) }
            4 => if r.chance(3, 4) { vec![] } else { let l = 1 + r.usize_below(maxlen.min(64)); gen::bytes_kind(r, 0, l) },
            5 => if i > 0 && r.chance(2, 3) { let j = r.usize_below(i); let mut b = out[j].clone(); match r.below(3) { 0 => {}, 1 => { let l = r.usize_below(b.len() + 1); b.truncate(l); }, _ => { if b.len() < maxlen { b.push(r.next() as u8); } } } b } else { let (_, b) = gen::bytes_any(r, maxlen.min(200)); b },
            6 => { let l = gen::pick_len(r, maxlen); gen::related_bytes(r, &base, l) }
            _ => { let l = r.usize_below(4); r.bytes(l) }
        };
        out.push(rec);
    }
    out
}
fn record_pool(c: &mut Case, style: u32, pool: &[Vec<u8>]) {
    c.input_str("style", style_name(style));
    let mut all = Vec::new(); for p in pool { all.extend_from_slice(&(p.len() as u32).to_le_bytes()); all.extend_from_slice(p); }
    c.input("pool", &all);
}

// ---- large-input mode: the same store constructors are re-run with `huge_*` generator families ------------------------
static MODE: std::sync::atomic::AtomicU8 = std::sync::atomic::AtomicU8::new(0);
const MODE_SIZES: u8 = 1; const MODE_COUNT: u8 = 2;
fn mode() -> u8 { MODE.load(std::sync::atomic::Ordering::Relaxed) }
fn huge() -> bool { mode() != 0 }
/// record sizes just around the 16 / 17 / 20-bit limits and a few MiB
const HUGE_SIZES: &[usize] = &[65535, 65536, 65537, 131071, 131072, 131073, 131074, (1 << 20) - 1, 1 << 20, (1 << 20) + 1, 2 * (1 << 20) + 17, 3 * (1 << 20) + 5];
const HUGE_SHAPES: u32 = 6;
fn huge_shape_name(k: u32) -> &'static str { ["dominant", "all_equal", "long_runs", "short_period", "halves_XcXd", "text_over_small_alphabet"][(k % HUGE_SHAPES) as usize] }
/// one record of exactly `len` bytes; it starts with its whole alphabet so that a coder trained on a prefix can encode it
fn huge_record(r: &mut Rng, shape: u32, len: usize) -> Vec<u8> {
    let a = r.next() as u8; let alpha: Vec<u8> = (0..9u8).map(|i| a.wrapping_add(i.wrapping_mul(29))).collect();
    let mut v: Vec<u8> = Vec::with_capacity(len + 16);
    v.extend_from_slice(&alpha);
    match shape % HUGE_SHAPES {
        0 => { let pc = 60 + r.below(40); while v.len() < len { v.push(if r.below(100) < pc { alpha[0] } else { alpha[1 + r.usize_below(8)] }); } }   // one symbol 60-99 %: count > 65535
        1 => { v.clear(); v.resize(len, a); }
        2 => { while v.len() < len { let b = alpha[r.usize_below(3)]; let n = 20000 + r.usize_below(90000); for _ in 0..n.min(len - v.len()) { v.push(b); } } }  // > 1000:1
        3 => { let p = 1 + r.usize_below(7); let pat: Vec<u8> = (0..p).map(|i| alpha[i % 9]).collect(); while v.len() < len { v.push(pat[v.len() % p]); } }
        4 => { let half = (len.saturating_sub(2)) / 2; let x: Vec<u8> = (0..half).map(|_| alpha[r.usize_below(9)]).collect(); v.clear(); v.extend_from_slice(&x); v.push(alpha[0]); v.extend_from_slice(&x); while v.len() < len { v.push(alpha[1]); } } // X c X d
        _ => { while v.len() < len { let w = 1 + r.usize_below(12); let b = alpha[r.usize_below(9)]; for _ in 0..w { v.push(b); } v.push(alpha[8]); } }
    }
    v.truncate(len); v
}
fn huge_pool(c: &mut Case, cap: usize, n: usize) -> Vec<Vec<u8>> {
    let sizes: Vec<usize> = HUGE_SIZES.iter().copied().filter(|&z| z <= cap).collect();
    let mut pool = Vec::new(); let mut desc = String::new();
    for i in 0..n { let shape = c.rng.below(HUGE_SHAPES as u64) as u32; let len = if i == 0 { *sizes.last().unwrap() } else { *c.rng.pick(&sizes) }; desc.push_str(&format!("{}:{} ", huge_shape_name(shape), len)); pool.push(huge_record(&mut c.rng, shape, len)); }
    pool.push(Vec::new()); pool.push(pool[0][..7].to_vec());
    c.input_str("huge_pool", &desc); for (i, p) in pool.iter().enumerate() { c.hash_more(&(p.len() as u64).to_le_bytes()); c.hash_more(&p[..p.len().min(4096)]); if i == 0 { c.input("first_record", p); } }
    pool
}
/// largest record (bytes) a target gets in `huge_sizes`; None = family not applicable
fn huge_size_cap(target: &str) -> Option<usize> {
    if target == "zero_length" { return None; }
    if target.starts_with("dictzip/") { return if ["dictzip/default", "dictzip/huf_x1", "dictzip/fse"].contains(&target) { Some(131074) } else { None }; }
    if target.contains("huffman") || target.contains("plain") { return Some((1 << 20) + 1); }
    Some(3 * (1 << 20) + 5)
}
/// number of records a target gets in `huge_count`; None = family not applicable (too slow per record, e.g. one fsync'ed file each)
fn huge_count_n(target: &str, r: &mut Rng) -> Option<usize> {
    // only stores with their own per-record bookkeeping and a cheap put: a zstd / Huffman context per record costs 50-1000 us, which
    // at > 65536 records is far beyond the 2 s per case budget (and those wrappers delegate all id bookkeeping to the inner store)
    Some(match target { "memory" => *r.pick(&[131073usize, 196609, 262145]), "zero_length" => *r.pick(&[65537usize, 131073, 200003]),
        "lz4_mem" | "cached_wt" | "cached_wb" | "cached_wa" | "rans" | "huffman_untrained" => *r.pick(&[65537usize, 70001, 100003]), _ => return None })
}
fn tiny_record(i: usize, p: Prof) -> Vec<u8> { let b = (i as u32).to_le_bytes(); if p.batch_only_empty { vec![] } else if p.batch_nonempty { b[..1 + i % 3].to_vec() } else { b[..i % 4].to_vec() } }
/// grow past several resize steps to > 65536 (> 131072) live records, then remove most, re-put, iterate; sampled exact oracle
fn huge_count_run(c: &mut Case, s: &mut dyn Sut, m: &mut Model, p: Prof, n: usize) -> Res {
    m.sample = Some(1500); c.input_str("n", &n.to_string());
    let mut i = 0usize;
    while i < n {
        if i % 8192 == 8191 { let blobs: Vec<Vec<u8>> = (i..(i + 5).min(n)).map(|j| tiny_record(j, p)).collect();
            match s.put_batch(blobs.clone()) { Some(Ok(ids)) => { ensure!(ids.len() == blobs.len(), "put_batch_len", "put_batch at record {i} returned {} ids", ids.len()); for (k, id) in ids.iter().enumerate() { m.issue(*id, &blobs[k], "put_batch")?; } i += blobs.len(); continue; } Some(Err(e)) => return Err(bad("__inconclusive", format!("put_batch refused at record {i}: {e}"))), None => {} } }
        let rec = tiny_record(i, p);
        match s.bs_mut().put(&rec) { Ok(id) => m.issue(id, &rec, &format!("put #{i}"))?, Err(_) => { c.note("put_err", 1); } }
        i += 1;
    }
    c.set_nontrivial(m.live.len() > 65536);
    check_all(c, s, m, "after growth")?; check_batch_iter(c, s, m, "after growth")?;
    // remove ~60 % (re-index / rehash / shrink paths), some through remove_batch
    let ids: Vec<u32> = m.live.keys().copied().collect(); let salt = c.rng.next();
    let victims: Vec<u32> = ids.iter().copied().filter(|&i| (i as u64).wrapping_mul(0x9E3779B97F4A7C15).wrapping_add(salt) >> 32 & 7 < 5).collect();
    let (batch, single) = victims.split_at(victims.len().min(2000));
    match s.remove_batch(batch.to_vec()) { Some(Ok(k)) => { ensure!(k == batch.len(), "remove_batch_count", "remove_batch of {} live ids returned {k}", batch.len()); for &id in batch { m.unissue(id); } } Some(Err(_)) => { c.note("remove_batch_err", 1); } None => {} }
    let mut rerr = 0u64; for &id in single { match s.bs_mut().remove(id) { Ok(()) => m.unissue(id), Err(_) => { rerr += 1; if rerr > 50 { break; } } } } c.note("remove_err", rerr);
    check_all(c, s, m, "after mass removal")?;
    for j in 0..3000usize { let rec = tiny_record(n + j, p); match s.bs_mut().put(&rec) { Ok(id) => m.issue(id, &rec, &format!("re-put #{j}"))?, Err(_) => { c.note("put_err", 1); } } }
    let _ = s.bs_mut().flush();
    check_all(c, s, m, "after re-put")?; check_batch_iter(c, s, m, "after re-put")?; s.coverage(c);
    Ok(())
}

// ---- generic history over the BlobStore contract ---------------------------------------------------------------
#[derive(Clone, Copy)]
struct Prof { batch_nonempty: bool, batch_only_empty: bool, max_live: usize }
const PROF: Prof = Prof { batch_nonempty: false, batch_only_empty: false, max_live: 16 };

fn history(c: &mut Case, s: &mut dyn Sut, m: &mut Model, pool: &[Vec<u8>], p: Prof, nops: usize) -> Res {
    let mut puts_ok = 0u64;
    check_all(c, s, m, "initial")?;
    for step in 0..nops {
        let roll = c.rng.below(100);
        let live_ids: Vec<u32> = m.live.keys().copied().collect();
        let at;
        if roll < 34 && live_ids.len() < p.max_live || live_ids.is_empty() && roll < 70 {
            let k = c.rng.usize_below(pool.len()); let data = &pool[k];
            at = format!("op#{step} put(pool[{k}] len {})", data.len());
            match s.bs_mut().put(data) { Ok(id) => { m.issue(id, data, &at)?; puts_ok += 1; c.note("put_ok", 1); } Err(_) => { c.note("put_err", 1); } }
        } else if roll < 50 && !live_ids.is_empty() {
            let id = *c.rng.pick(&live_ids); at = format!("op#{step} remove({id})");
            match s.bs_mut().remove(id) { Ok(()) => { m.unissue(id); c.note("remove_ok", 1); } Err(_) => { c.note("remove_err", 1); } }
        } else if roll < 55 {
            let probes = m.absent_probes(&mut c.rng); let id = *c.rng.pick(&probes); at = format!("op#{step} remove(absent {id})");
            if s.bs_mut().remove(id).is_ok() { return Err(bad("remove_absent_ok", format!("{at} returned Ok"))); } c.ev(1);
        } else if roll < 62 {
            let k = 1 + c.rng.usize_below(4); let room = p.max_live.saturating_sub(live_ids.len()).min(k);
            let mut blobs: Vec<Vec<u8>> = (0..room).map(|_| pool[c.rng.usize_below(pool.len())].clone()).collect();
            if p.batch_nonempty { blobs.retain(|b| !b.is_empty()); } if p.batch_only_empty { blobs.retain(|b| b.is_empty()); }
            at = format!("op#{step} put_batch({} blobs, lens {:?})", blobs.len(), blobs.iter().map(|b| b.len()).collect::<Vec<_>>());
            match s.put_batch(blobs.clone()) {
                None => {}
                Some(Ok(ids)) => { ensure!(ids.len() == blobs.len(), "put_batch_len", "{at} returned {} ids", ids.len()); for (i, id) in ids.iter().enumerate() { m.issue(*id, &blobs[i], &at)?; puts_ok += 1; } c.note("put_batch_ok", 1); }
                Some(Err(e)) => { c.note("put_batch_err_stop", 1); c.log(format!("{at} failed: {e}")); return Ok(()); } // partial effects are not specified: stop here
            }
        } else if roll < 67 {
            let mut ids: Vec<u32> = live_ids.iter().copied().filter(|_| c.rng.chance(1, 3)).collect(); ids.extend(m.absent_probes(&mut c.rng).into_iter().take(2)); c.rng.shuffle(&mut ids);
            at = format!("op#{step} remove_batch({ids:?})");
            let want = ids.iter().filter(|i| m.live.contains_key(i)).count();
            match s.remove_batch(ids.clone()) {
                None => {}
                Some(Ok(k)) => { ensure!(k == want, "remove_batch_count", "{at} returned {k}, {want} of the ids were live"); for id in ids { m.unissue(id); } c.note("remove_batch_ok", 1); }
                Some(Err(_)) => { c.note("remove_batch_err", 1); if want > 0 { /* refused as a whole: the model is unchanged only if nothing was removed; verified by check_all */ } }
            }
        } else if roll < 75 {
            at = format!("op#{step} batch/iter read"); check_batch_iter(c, s, m, &at)?;
        } else if roll < 78 {
            at = format!("op#{step} flush"); let _ = s.bs_mut().flush();
        } else {
            // plain re-read of one live record (also covered by check_all) — exercises repeated gets / caches
            at = format!("op#{step} get"); if let Some(&id) = live_ids.first() { let _ = s.bs().get(id); let _ = s.bs().get(id); }
        }
        if let Err(f) = check_all(c, s, m, &at) { s.coverage(c); return Err(f); }
    }
    s.coverage(c);
    check_batch_iter(c, s, m, "final")?;
    c.set_nontrivial(puts_ok >= 2 && c.events >= 20);
    Ok(())
}

/// One history case over a freshly made store.
fn hist_case<F>(ctx: &mut Ctx, target: &str, idx: u64, maxlen: usize, p: Prof, mk: F)
where F: FnOnce(&mut Case, &[Vec<u8>]) -> Result<(Box<dyn Sut>, Model), Fail> {
    if mode() == MODE_SIZES {
        let Some(cap) = huge_size_cap(target) else { return };
        ctx.case(target, "huge_sizes", idx, |c| {
            let pool = huge_pool(c, cap, 3);
            let (mut s, mut m) = mk(c, &pool)?;
            let p = Prof { max_live: 5, ..p };
            history(c, s.as_mut(), &mut m, &pool, p, 9)
        });
        return;
    }
    if mode() == MODE_COUNT {
        if huge_count_n(target, &mut Rng::new(0)).is_none() { return; }
        ctx.case(target, "huge_count", idx, |c| {
            let Some(n) = huge_count_n(target, &mut c.rng) else { return Ok(()) };
            let pool: Vec<Vec<u8>> = (0..24).map(|i| tiny_record(i, p)).collect();
            let (mut s, mut m) = mk(c, &pool)?;
            huge_count_run(c, s.as_mut(), &mut m, p, n)
        });
        return;
    }
    let style = (idx % STYLES as u64) as u32;
    ctx.case(target, style_name(style), idx / STYLES as u64, |c| {
        let big = c.rng.chance(1, 12);
        let n = 4 + c.rng.usize_below(20); let pool = mk_pool(&mut c.rng, style, n, if big { maxlen.max(66000).min(maxlen * 20) } else { maxlen });
        record_pool(c, style, &pool);
        let (mut s, mut m) = mk(c, &pool)?;
        let nops = if c.tier == crate::ctx::Tier::Quick { 50 + c.rng.usize_below(100) } else { 50 + c.rng.usize_below(351) };
        let nops = m.ops_cap.map(|k| nops.min(k)).unwrap_or(nops);
        history(c, s.as_mut(), &mut m, &pool, p, nops)
    });
}

fn fresh<S: Sut + 'static>(s: S) -> Result<(Box<dyn Sut>, Model), Fail> { Ok((Box::new(s), Model::default())) }
macro_rules! ctor { ($e:expr, $name:expr) => { match $e { Ok(x) => x, Err(e) => return Err(bad("ctor_err", format!("{} constructor failed: {e}", $name))) } } }

fn cache_cfg(c: &mut Case) -> PageCacheConfig { let cap = *c.rng.pick(&[64usize << 20, 1 << 20, 16384, 4096, 1024]); c.input_str("cache_capacity", &cap.to_string()); PageCacheConfig::balanced().with_capacity(cap) }
fn train_sample(c: &mut Case, pool: &[Vec<u8>]) -> Vec<u8> { let mut t = Vec::new(); for p in pool { if c.rng.chance(2, 3) { t.extend_from_slice(&p[..p.len().min(600)]); } if t.len() > 3000 { break; } } t }
/// input-only predicate of the Huffman wrapper defect: a tree was trained and some record can be encoded with it
fn tag_huff(c: &mut Case, trained: &[u8], pool: &[Vec<u8>]) {
    if trained.is_empty() { return; }
    let mut seen = [false; 256]; for &b in trained { seen[b as usize] = true; }
    if pool.iter().any(|p| !p.is_empty() && p.iter().all(|&b| seen[b as usize])) { c.tag("huffman_trained_encodable"); }
}

fn mutable_targets(ctx: &mut Ctx) {
    let per = if huge() { ctx.n(2, 30) as u64 } else { ctx.n(40, 1000) as u64 };     // histories per cheap target
    let per_io = if huge() { ctx.n(1, 12) as u64 } else { ctx.n(24, 500) as u64 };  // file backed
    for idx in 0..per {
        hist_case(ctx, "memory", idx, 4096, PROF, |_c, _| fresh(BBI(MemoryBlobStore::new())));
        hist_case(ctx, "zstd_mem", idx, 4096, PROF, |c, _| { let slow = !huge() && c.rng.chance(1, 12); let lvl = if slow { *c.rng.pick(&[19i32, 22, 40]) } else { *c.rng.pick(&[1i32, 2, 3, 6, 9, 12, 0, -5]) }; c.input_str("level", &lvl.to_string());
            let (s, mut m) = fresh(BBI(ZstdBlobStore::new(MemoryBlobStore::new(), lvl)))?; if slow { m.ops_cap = Some(6); } Ok((s, m)) });
        hist_case(ctx, "lz4_mem", idx, 4096, PROF, |_c, _| fresh(B(Lz4BlobStore::new(MemoryBlobStore::new()))));
        hist_case(ctx, "stack/lz4_zstd", idx, 4096, PROF, |_c, _| fresh(B(Lz4BlobStore::new(ZstdBlobStore::new(MemoryBlobStore::new(), 3)))));
        hist_case(ctx, "huffman_untrained", idx, 2048, PROF, |_c, _| fresh(B(HuffmanBlobStore::new(MemoryBlobStore::new()))));
        hist_case(ctx, "huffman_trained", idx, 2048, PROF, |c, pool| { let mut s = HuffmanBlobStore::new(MemoryBlobStore::new()); let t = train_sample(c, pool); s.add_training_data(&t); let ok = s.build_tree().is_ok(); c.note("tree_built", ok as u64); if ok { tag_huff(c, &t, pool); } fresh(B(s)) });
        hist_case(ctx, "rans", idx, 2048, PROF, |c, pool| { let mut s = RansBlobStore::new(MemoryBlobStore::new()); if c.rng.bool() { let t = train_sample(c, pool); let ok = s.train(&t).is_ok(); c.note("trained", ok as u64); } fresh(B(s)) });
        hist_case(ctx, "dictionary", idx, 1024, PROF, |c, pool| { let mut s = DictionaryBlobStore::new(MemoryBlobStore::new()); if c.rng.bool() { let mut t = train_sample(c, pool); t.truncate(400); let ok = s.train(&t).is_ok(); c.note("trained", ok as u64); } fresh(B(s)) });
        for (name, strat) in [("cached_wt", CacheWriteStrategy::WriteThrough), ("cached_wb", CacheWriteStrategy::WriteBack), ("cached_wa", CacheWriteStrategy::WriteAround)] {
            hist_case(ctx, name, idx, 6000, PROF, |c, _| { let cfg = cache_cfg(c); let mut s = ctor!(CachedBlobStore::with_write_strategy(MemoryBlobStore::new(), cfg, strat), name); if c.rng.chance(1, 6) { s.disable_cache(); c.input_str("cache", "disabled"); } fresh(B(s)) });
        }
        hist_case(ctx, "zero_length", idx, 64, Prof { batch_only_empty: true, max_live: 40, ..PROF }, |c, _| { let s = if c.rng.bool() { ZeroLengthBlobStore::new() } else { let n = c.rng.usize_below(5); c.input_str("finish", &n.to_string()); ZeroLengthBlobStore::finish(n) }; let mut m = Model::default(); for i in 0..s.len() as u32 { m.issue(i, &[], "finish")?; } Ok((Box::new(BBI(s)) as Box<dyn Sut>, m)) });
        // wrapper stacks of depth 2
        hist_case(ctx, "stack/cached_zstd", idx, 4096, PROF, |c, _| { let cfg = cache_cfg(c); fresh(B(ctor!(CachedBlobStore::new(ZstdBlobStore::new(MemoryBlobStore::new(), 3), cfg), "cached<zstd>"))) });
        hist_case(ctx, "stack/zstd_cached", idx, 4096, PROF, |c, _| { let cfg = cache_cfg(c); fresh(B(ZstdBlobStore::new(ctor!(CachedBlobStore::with_write_strategy(MemoryBlobStore::new(), cfg, CacheWriteStrategy::WriteBack), "cached"), 5))) });
        hist_case(ctx, "stack/zstd_zstd", idx, 4096, PROF, |_c, _| fresh(BBI(ZstdBlobStore::new(ZstdBlobStore::new(MemoryBlobStore::new(), 1), 7))));
        hist_case(ctx, "stack/rans_dictionary", idx, 1024, PROF, |c, pool| { let mut d = DictionaryBlobStore::new(MemoryBlobStore::new()); let mut t = train_sample(c, pool); t.truncate(300); let _ = d.train(&t); let mut s = RansBlobStore::new(d); let _ = s.train(&t); fresh(B(s)) });
        hist_case(ctx, "stack/zstd_huffman_trained", idx, 2048, PROF, |c, pool| {
            // the inner Huffman store sees zstd frames: train it on frames of the pool so that encoding succeeds
            let mut h = HuffmanBlobStore::new(MemoryBlobStore::new()); let mut t = Vec::new(); for p in pool.iter().take(8) { if let Ok(z) = zstd_frame(p, 3) { t.extend_from_slice(&z); } }
            h.add_training_data(&t); let ok = h.build_tree().is_ok(); c.note("tree_built", ok as u64);
            if ok { let frames: Vec<Vec<u8>> = pool.iter().filter_map(|p| zstd_frame(p, 3).ok()).collect(); tag_huff(c, &t, &frames); }
            fresh(B(ZstdBlobStore::new(h, 3))) });
        hist_case(ctx, "stack/huffman_trained_zstd", idx, 2048, PROF, |c, pool| { let mut s = HuffmanBlobStore::new(ZstdBlobStore::new(MemoryBlobStore::new(), 3)); let t = train_sample(c, pool); s.add_training_data(&t); let ok = s.build_tree().is_ok(); c.note("tree_built", ok as u64); if ok { tag_huff(c, &t, pool); } fresh(B(s)) });
    }
    for idx in 0..per_io {
        hist_case(ctx, "plain", idx, 4096, PROF, |_c, _| { let d = tempfile::tempdir().map_err(|e| bad("__inconclusive", format!("tempdir: {e}")))?; let s = ctor!(PlainBlobStore::new(d.path().join("st")), "plain"); fresh(Keep(BBI(s), d)) });
        hist_case(ctx, "stack/zstd_plain", idx, 4096, PROF, |_c, _| { let d = tempfile::tempdir().map_err(|e| bad("__inconclusive", format!("tempdir: {e}")))?; let s = ctor!(PlainBlobStore::create_new(d.path().join("st")), "plain"); fresh(Keep(BBI(ZstdBlobStore::new(s, 3)), d)) });
    }
    // PlainBlobStore: the directory is the saved form; reopening must answer identically and must not hand out a live id
    for idx in 0..(if huge() { 0 } else { per_io }) {
        let style = (idx % STYLES as u64) as u32;
        ctx.case("plain_reopen", style_name(style), idx / STYLES as u64, |c| {
            let n = 4 + c.rng.usize_below(12); let pool = mk_pool(&mut c.rng, style, n, 2048); record_pool(c, style, &pool);
            let d = tempfile::tempdir().map_err(|e| bad("__inconclusive", format!("tempdir: {e}")))?; let path = d.path().join("st");
            let mut m = Model::default();
            { let mut s = BBI(ctor!(PlainBlobStore::new(&path), "plain")); history(c, &mut s, &mut m, &pool, PROF, 40)?; }
            let mut s2 = BBI(ctor!(PlainBlobStore::new(&path), "plain reopen"));
            // ids removed before the reopen may legitimately be handed out again (next id = max live id + 1)
            pre("reopen_", check_all(c, &s2, &m, "after reopen"))?;
            pre("reopen_", history(c, &mut s2, &mut m, &pool, PROF, 30))
        });
    }
}

fn zstd_frame(data: &[u8], lvl: i32) -> Result<Vec<u8>, ()> { // what ZstdBlobStore hands to its inner store
    let mut tmp = ZstdBlobStore::new(MemoryBlobStore::new(), lvl); let id = tmp.put(data).map_err(|_| ())?; tmp.inner().get(id).map_err(|_| ())
}

struct DZ(DictZipBlobStore);
impl Sut for DZ {
    fn bs(&self) -> &dyn BlobStore { &self.0 } fn bs_mut(&mut self) -> &mut dyn BlobStore { &mut self.0 }
    fn put_batch(&mut self, b: Vec<Vec<u8>>) -> Option<ZResult<Vec<u32>>> { Some(self.0.put_batch(b)) }
    fn get_batch(&self, ids: Vec<u32>) -> Option<ZResult<Vec<Option<Vec<u8>>>>> { Some(self.0.get_batch(ids)) }
    fn remove_batch(&mut self, ids: Vec<u32>) -> Option<ZResult<usize>> { Some(self.0.remove_batch(ids)) }
    fn iter_ids(&self) -> Option<Vec<u32>> { Some(self.0.iter_ids_vec()) }
    fn coverage(&self, c: &mut Case) { if let Ok(st) = self.0.detailed_stats() { c.note("dz_compressed_puts", st.compressed_blobs as u64); c.note("dz_raw_puts", st.uncompressed_blobs as u64); c.note("dz_cache_hits", st.cache_hits); c.note("dz_cache_misses", st.cache_misses); } }
}
/// keeps a tempdir alive next to the store
struct Keep<S>(S, #[allow(dead_code)] tempfile::TempDir);
impl<S: Sut> Sut for Keep<S> {
    fn bs(&self) -> &dyn BlobStore { self.0.bs() } fn bs_mut(&mut self) -> &mut dyn BlobStore { self.0.bs_mut() }
    fn put_batch(&mut self, b: Vec<Vec<u8>>) -> Option<ZResult<Vec<u32>>> { self.0.put_batch(b) }
    fn get_batch(&self, ids: Vec<u32>) -> Option<ZResult<Vec<Option<Vec<u8>>>>> { self.0.get_batch(ids) }
    fn remove_batch(&mut self, ids: Vec<u32>) -> Option<ZResult<usize>> { self.0.remove_batch(ids) }
    fn iter_ids(&self) -> Option<Vec<u32>> { self.0.iter_ids() }
}

// ---- bulk-built (read-only) stores ------------------------------------------------------------------------------
const BULK_NS: &[usize] = &[0, 1, 2, 3, 15, 16, 17, 63, 64, 65, 127, 128, 129, 255, 256, 257, 300];
/// records for a builder: count from the block-boundary table, contents by style; `block_overflow` makes one offset block
/// span more than 2^16 content bytes (the default offset delta width)
fn bulk_records(c: &mut Case, style: u32) -> Vec<Vec<u8>> {
    let n = if c.rng.chance(2, 3) { *c.rng.pick(BULK_NS) } else { 1 + c.rng.usize_below(300) };
    let maxlen = if n <= 32 && c.rng.chance(1, 6) { 70000 } else if c.rng.chance(1, 4) { 1500 } else { 200 };
    let recs = mk_pool(&mut c.rng, style, n, maxlen);
    c.input_str("n", &n.to_string()); record_pool(c, style, &recs);
    recs
}
/// after construction: ids -> records is the whole model; then the read-only contract (put / remove refused, or honoured consistently)
fn check_bulk(c: &mut Case, s: &mut dyn Sut, ids: &[u32], recs: &[Vec<u8>], at: &str) -> Res {
    let mut m = Model::default();
    for (i, id) in ids.iter().enumerate() { m.issue(*id, &recs[i], &format!("{at}: builder (record {i})"))?; }
    check_all(c, s, &m, at)?;
    check_batch_iter(c, s, &m, at)?;
    match s.bs_mut().put(b"zv-extra-record") { Ok(id) => { m.issue(id, b"zv-extra-record", "put on built store")?; c.note("built_put_ok", 1); } Err(_) => { c.note("built_put_refused", 1); } }
    if let Some((&id, _)) = m.live.iter().next() { match s.bs_mut().remove(id) { Ok(()) => { m.unissue(id); c.note("built_remove_ok", 1); } Err(_) => { c.note("built_remove_refused", 1); } } }
    check_all(c, s, &m, &format!("{at} after put/remove attempts"))
}

fn zo_cfg(c: &mut Case, which: &str) -> ZipOffsetBlobStoreConfig {
    let cfg = match which {
        "default" => ZipOffsetBlobStoreConfig::default(), "perf" => ZipOffsetBlobStoreConfig::performance_optimized(),
        "comp" => ZipOffsetBlobStoreConfig::compression_optimized(), "sec" => ZipOffsetBlobStoreConfig::security_optimized(),
        _ => ZipOffsetBlobStoreConfig { compress_level: *c.rng.pick(&[0u8, 0, 1, 3]), checksum_level: c.rng.below(4) as u8, offset_config: suv_cfg(c, "custom"), use_secure_memory: c.rng.bool(), enable_simd: c.rng.bool() },
    };
    c.input_str("cfg", &format!("{cfg:?}")); cfg
}
fn suv_cfg(c: &mut Case, which: &str) -> SortedUintVecConfig {
    match which {
        "default" => SortedUintVecConfig::default(), "perf" => SortedUintVecConfig::performance_optimized(), "mem" => SortedUintVecConfig::memory_optimized(),
        _ => SortedUintVecConfig { log2_block_units: 4 + c.rng.below(5) as u8, offset_width: 8 + c.rng.below(25) as u8, sample_width: 16 + c.rng.below(49) as u8, use_simd: c.rng.bool() },
    }
}
/// input-only predicate: some block sample of the offset index occupies 9 bytes (bit offset within its first byte + width > 64)
fn tag_suv_span(c: &mut Case, cfg: &SortedUintVecConfig, count: usize) { let sw = cfg.sample_width as usize; let bsz = cfg.block_size(); let nb = (count + bsz - 1) / bsz; if (0..nb).any(|b| (b * sw) % 8 + sw > 64) { c.tag("sample_field_spans_9_bytes"); } }
fn zo_roundtrip(c: &mut Case, store: &ZipOffsetBlobStore, ids: &[u32], recs: &[Vec<u8>]) -> Res {
    let mut buf = Vec::new();
    if let Err(e) = store.save_to_writer(&mut buf) { return Err(bad("save_err", format!("save_to_writer failed: {e}"))); }
    let loaded = match ZipOffsetBlobStore::load_from_reader(&mut &buf[..]) { Ok(x) => x, Err(e) => return Err(bad("load_err", format!("load_from_reader of {} saved bytes failed: {e}", buf.len()))) };
    pre("reload_", check_bulk(c, &mut B(loaded), ids, recs, "after save_to_writer/load_from_reader"))?;
    let d = tempfile::tempdir().map_err(|e| bad("__inconclusive", format!("tempdir: {e}")))?; let path = d.path().join("zo.bin");
    if let Err(e) = store.save_to_file(&path) { return Err(bad("save_err", format!("save_to_file failed: {e}"))); }
    let loaded = match ZipOffsetBlobStore::load_from_file(&path) { Ok(x) => x, Err(e) => return Err(bad("load_err", format!("load_from_file failed: {e}"))) };
    pre("reload_file_", check_bulk(c, &mut B(loaded), ids, recs, "after save_to_file/load_from_file"))
}

fn bulk_targets(ctx: &mut Ctx) {
    let per = ctx.n(24, 600) as u64;
    for which in ["default", "perf", "comp", "sec", "custom"] {
        for idx in 0..per {
            let style = (idx % STYLES as u64) as u32;
            ctx.case(&format!("zipoffset/{which}"), style_name(style), idx / STYLES as u64, |c| {
                let cfg = zo_cfg(c, which); let recs = bulk_records(c, style); if !recs.is_empty() { c.tag("nonempty_input"); } tag_suv_span(c, &cfg.offset_config, recs.len() + 1);
                let mut b = ctor!(ZipOffsetBlobStoreBuilder::with_config(cfg), "ZipOffsetBlobStoreBuilder");
                let mut ids = Vec::new();
                for (i, r) in recs.iter().enumerate() { match b.add_record(r) { Ok(id) => ids.push(id), Err(e) => { c.note("add_record_err", 1); c.log(format!("add_record {i}: {e}")); return Ok(()); } } }
                let mut store = match b.finish() { Ok(s) => B(s), Err(e) => { c.note("finish_err", 1); c.log(format!("finish: {e}")); return Ok(()); } };
                c.set_nontrivial(recs.len() >= 2);
                check_bulk(c, &mut store, &ids, &recs, "built store")?;
                for (i, id) in ids.iter().enumerate() { ensure!(*id as usize == i, "bulk_id_order", "add_record #{i} returned id {id}"); }
                zo_roundtrip(c, &store.0, &ids, &recs)
            });
            ctx.case(&format!("zipoffset_batch/{which}"), style_name(style), idx / STYLES as u64, |c| {
                let cfg = zo_cfg(c, which); let bs = *c.rng.pick(&[1usize, 2, 3, 8, 64, 1000]); c.input_str("batch_size", &bs.to_string());
                let recs = bulk_records(c, style); if !recs.is_empty() { c.tag("nonempty_input"); } tag_suv_span(c, &cfg.offset_config, recs.len() + 1);
                let mut b = ctor!(BatchZipOffsetBlobStoreBuilder::with_config(cfg.clone(), bs), "BatchZipOffsetBlobStoreBuilder");
                let mut ids = Vec::new();
                for (i, r) in recs.iter().enumerate() { match b.add_record(r) { Ok(id) => ids.push(id), Err(e) => { c.note("add_record_err", 1); c.log(format!("add_record {i}: {e}")); return Ok(()); } } }
                let mut store = match b.finish() { Ok(s) => B(s), Err(e) => { c.note("finish_err", 1); c.log(format!("finish: {e}")); return Ok(()); } };
                c.set_nontrivial(recs.len() >= 2);
                // "record i equals input i": the batch builder's returned ids are advisory ("next record id"); the positional id is the contract
                let pos: Vec<u32> = (0..recs.len() as u32).collect();
                check_bulk(c, &mut store, &pos, &recs, "built store")?;
                { let mut seen = BTreeSet::new(); for (i, id) in ids.iter().enumerate() { ensure!(seen.insert(*id), "id_reuse_live", "add_record #{i} returned id {id} again"); } }
                zo_roundtrip(c, &store.0, &pos, &recs)
            });
        }
    }
    for idx in 0..ctx.n(96, 2400) as u64 {
        let style = (idx % STYLES as u64) as u32;
        for which in ["default", "custom"] {
            ctx.case(&format!("simplezip/{which}"), style_name(style), idx / STYLES as u64, |c| {
                let cfg = if which == "default" { SimpleZipConfig::default() } else { let mn = 1 + c.rng.usize_below(16); let span = if c.rng.bool() { 4 } else { 300 }; let mx = mn + c.rng.usize_below(span); let nd = c.rng.usize_below(5); SimpleZipConfig { min_frag_len: mn, max_frag_len: mx, delimiters: (0..nd).map(|_| *c.rng.pick(&[b' ', b'\n', 0u8, b'a', 0xff, b'e'])).collect() } };
                c.input_str("cfg", &format!("{cfg:?}")); let recs = bulk_records(c, style); if recs.is_empty() { c.tag("empty_store"); }
                let store = match SimpleZipBlobStore::build_from(&recs, &cfg) { Ok(s) => s, Err(e) => { c.note("build_err", 1); c.log(format!("build: {e}")); return Ok(()); } };
                c.set_nontrivial(recs.len() >= 2); c.note("fragments", store.num_unique_fragments() as u64);
                let ids: Vec<u32> = (0..recs.len() as u32).collect();
                check_bulk(c, &mut BBI(store), &ids, &recs, "built store")
            });
        }
        ctx.case("mixedlen/auto", style_name(style), idx / STYLES as u64, |c| {
            let recs = bulk_records(c, style); if recs.is_empty() { c.tag("empty_store"); }
            let store = match MixedLenBlobStore::build_from(&recs) { Ok(s) => s, Err(e) => { c.note("build_err", 1); c.log(format!("build: {e}")); return Ok(()); } };
            c.set_nontrivial(recs.len() >= 2); c.note("fixed", store.fixed_count() as u64); c.note("variable", store.variable_count() as u64);
            let ids: Vec<u32> = (0..recs.len() as u32).collect();
            check_bulk(c, &mut BBI(store), &ids, &recs, "built store")
        });
        ctx.case("mixedlen/fixed", style_name(style), idx / STYLES as u64, |c| {
            let recs = bulk_records(c, style); if recs.is_empty() { c.tag("empty_store"); }
            let fl = match c.rng.below(4) { 0 => 0, 1 => c.rng.usize_below(300), _ => if recs.is_empty() { 3 } else { recs[c.rng.usize_below(recs.len())].len() } }; c.input_str("fixed_len", &fl.to_string());
            let store = match MixedLenBlobStore::build_from_with_fixed_len(&recs, fl) { Ok(s) => s, Err(e) => { c.note("build_err", 1); c.log(format!("build: {e}")); return Ok(()); } };
            c.set_nontrivial(recs.len() >= 2); c.note("fixed", store.fixed_count() as u64); c.note("variable", store.variable_count() as u64);
            let ids: Vec<u32> = (0..recs.len() as u32).collect();
            check_bulk(c, &mut BBI(store), &ids, &recs, "built store")
        });
    }
    // SortedUintVec as the offset index: offsets[i] must come back exactly (record i = content[offsets[i]..offsets[i+1]])
    for which in ["default", "perf", "mem", "custom"] {
        for idx in 0..ctx.n(64, 1600) as u64 {
            let fam = ["record_offsets", "dense_offsets", "block_overflow", "wide_values"][(idx % 4) as usize];
            ctx.case(&format!("suv/{which}"), fam, idx / 4, |c| {
                let cfg = suv_cfg(c, which); c.input_str("cfg", &format!("{cfg:?}"));
                let n = if c.rng.chance(2, 3) { *c.rng.pick(BULK_NS) + 1 } else { 1 + c.rng.usize_below(600) };
                let mut vals: Vec<u64> = Vec::with_capacity(n); let mut cur = 0u64;
                match fam {
                    "record_offsets" => { let style = c.rng.below(STYLES as u64) as u32; let recs = mk_pool(&mut c.rng, style, n - 1, 300); vals.push(0); for r in &recs { cur += r.len() as u64; vals.push(cur); } }
                    "dense_offsets" => { let start = if c.rng.bool() { 0 } else { c.rng.below(1 << 30) }; cur = start; for _ in 0..n { vals.push(cur); cur += c.rng.below(4); } }
                    "block_overflow" => { let step = (1u64 << cfg.offset_width) / (cfg.block_size() as u64) ; for _ in 0..n { vals.push(cur); cur += c.rng.below(2 * step + 2); } }
                    _ => { let top = if cfg.sample_width >= 64 { u64::MAX } else { (1u64 << cfg.sample_width) - 1 }; let base = match c.rng.below(3) { 0 => top.saturating_sub(1 << 20), 1 => top / 2, _ => c.rng.below(top.max(1)) }; cur = base; for _ in 0..n { vals.push(cur); cur = cur.saturating_add(c.rng.below(200)); } }
                }
                let bytes: Vec<u8> = vals.iter().flat_map(|v| v.to_le_bytes()).collect(); c.input("values_le", &bytes);
                // input-only predicates
                let bsz = cfg.block_size(); let mut delta_over = false; let mut sample_over = false;
                for (i, v) in vals.iter().enumerate() { let bm = vals[i - i % bsz]; if v - bm >= (1u64 << cfg.offset_width) { delta_over = true; } if cfg.sample_width < 64 && bm >= (1u64 << cfg.sample_width) { sample_over = true; } }
                if delta_over { c.tag("delta_exceeds_offset_width"); } if sample_over { c.tag("block_min_exceeds_sample_width"); }
                tag_suv_span(c, &cfg, n);
                let mut b = SortedUintVecBuilder::with_config(cfg);
                for v in &vals { if let Err(e) = b.push(*v) { return Err(bad("suv_push_err", format!("push({v}) of a non-decreasing value failed: {e}"))); } }
                let sv = match b.finish() { Ok(s) => s, Err(e) => { if delta_over || sample_over { c.note("finish_err_width", 1); return Ok(()); } return Err(bad("suv_finish_err", format!("finish failed although every delta and every block sample fits: {e}"))); } };
                c.set_nontrivial(n >= 2);
                ensure!(sv.len() == n, "suv_len", "len()={} want {n}", sv.len());
                for i in 0..n { match sv.get(i) { Ok(v) if v == vals[i] => {}, other => return Err(bad("suv_get", format!("get({i})={other:?} want {} (n={n}, cfg {cfg:?})", vals[i]))) } c.ev(1); }
                for i in 0..n - 1 { match sv.get2(i) { Ok((a, b2)) if a == vals[i] && b2 == vals[i + 1] => {}, other => return Err(bad("suv_get2", format!("get2({i})={other:?} want ({}, {})", vals[i], vals[i + 1]))) } c.ev(1); }
                ensure!(sv.get(n).is_err(), "suv_get_oob", "get(len) returned Ok"); ensure!(sv.get2(n - 1).is_err(), "suv_get2_oob", "get2(len-1) returned Ok");
                let mut out = vec![0u64; bsz];
                for blk in 0..sv.num_blocks() { if let Err(e) = sv.get_block(blk, &mut out) { return Err(bad("suv_get_block", format!("get_block({blk}) failed: {e}"))); } for j in 0..bsz { let i = blk * bsz + j; if i < n { ensure!(out[j] == vals[i], "suv_get_block", "get_block({blk})[{j}]={} want {}", out[j], vals[i]); c.ev(1); } } }
                ensure!(sv.get_block(sv.num_blocks(), &mut out).is_err(), "suv_get_block_oob", "get_block(num_blocks) returned Ok");
                Ok(())
            });
        }
    }
}


// ---- NestLoudsTrieBlobStore: BlobStore contract + keyed API --------------------------------------------------------
fn trie_cfg(which: &str) -> TrieBlobStoreConfig {
    match which { "default" => TrieBlobStoreConfig::default(), "perf" => TrieBlobStoreConfig::performance_optimized(), "mem" => TrieBlobStoreConfig::memory_optimized(), _ => TrieBlobStoreConfig::security_optimized() }
}
fn trie_key(r: &mut Rng, mode: u32, serial: usize) -> Vec<u8> {
    match mode { 0 => format!("k{serial:04}").into_bytes(),                       // plain distinct ascii keys
        1 => { let mut k = gen::key(r, 4); k.extend_from_slice(format!("/{serial}").as_bytes()); k } // shared prefixes, distinct
        2 => { let md = r.below(6) as u32; gen::key(r, md) }                                         // anything incl. empty, NUL, 0xff, long; may collide
        _ => { let mut k = gen::key(r, 0); if k.is_empty() { k.push(b'a'); } k } }   // tiny alphabet: many collisions / prefixes of each other
}
#[derive(Default)]
struct KeyModel { latest: BTreeMap<Vec<u8>, (u32, Vec<u8>)>, key_of: BTreeMap<u32, Vec<u8>>, tainted: BTreeSet<Vec<u8>>, dup_ids: BTreeMap<u32, Vec<u8>> }
fn check_keys(c: &mut Case, t: &mut Trie, km: &KeyModel, at: &str, full: bool) -> Res {
    for (k, (_, v)) in &km.latest {
        if km.tainted.contains(k) { continue; }
        ensure!(t.contains_key(k), "key_contains_false", "{at}: contains_key({}) false for a stored key", ab(k));
        match t.get_by_key(k) { Ok(g) if &g == v => {}, Ok(g) => return Err(bad("key_get_mismatch", format!("{at}: get_by_key({}) = {} want {}", ab(k), ab(&g), ab(v)))), Err(e) => return Err(bad("key_get_err", format!("{at}: get_by_key({}) failed: {e}", ab(k)))) }
        c.ev(2);
    }
    if !full { return Ok(()); }
    match t.keys() { Ok(ks) => { let want: Vec<&Vec<u8>> = km.latest.keys().filter(|k| !km.tainted.contains(*k)).collect();
            for k in &want { ensure!(ks.contains(k), "keys_missing", "{at}: keys() lacks {} ({} returned, {} expected)", ab(k), ks.len(), want.len()); }
            for k in &ks { ensure!(km.latest.contains_key(k) || km.tainted.contains(k), "keys_extra", "{at}: keys() contains {} which was never stored or was removed", ab(k)); }
            c.ev(1); }
        Err(e) => return Err(bad("keys_err", format!("{at}: keys() failed: {e}"))) }
    // prefix queries on prefixes of stored keys and on a random one
    let mut prefixes: Vec<Vec<u8>> = vec![vec![]]; for k in km.latest.keys().take(40) { if !k.is_empty() { let l = c.rng.usize_below(k.len() + 1); prefixes.push(k[..l].to_vec()); } } prefixes.push(vec![b'z', b'q']);
    prefixes.sort(); prefixes.dedup(); if prefixes.len() > 8 { c.rng.shuffle(&mut prefixes); prefixes.truncate(8); }
    for pfx in prefixes {
        if km.tainted.iter().any(|k| k.starts_with(&pfx)) { continue; }
        let want: Vec<(Vec<u8>, Vec<u8>)> = km.latest.iter().filter(|(k, _)| k.starts_with(&pfx)).map(|(k, (_, v))| (k.clone(), v.clone())).collect();
        match t.get_by_prefix(&pfx) { Ok(got) => { if got != want { let gk: Vec<String> = got.iter().map(|(k, _)| ab(k)).collect(); let wk: Vec<String> = want.iter().map(|(k, _)| ab(k)).collect();
                    return Err(bad(if gk == wk { "prefix_value_mismatch" } else { "prefix_keys_mismatch" }, format!("{at}: get_by_prefix({}) returned {} entries {gk:?} want {} {wk:?}", ab(&pfx), got.len(), want.len()))); } c.ev(1); }
            Err(e) => return Err(bad("prefix_err", format!("{at}: get_by_prefix({}) failed: {e}", ab(&pfx)))) }
    }
    Ok(())
}
fn tag_keys(c: &mut Case, k: &[u8]) { if k.is_empty() { c.tag("empty_key"); } if k.contains(&0) { c.tag("key_has_nul"); } }

fn trie_targets(ctx: &mut Ctx) {
    let per = ctx.n(32, 800) as u64;
    for which in ["default", "perf", "mem", "sec"] {
        for idx in 0..per {
            let style = (idx % STYLES as u64) as u32; let kmode = ((idx / STYLES as u64) % 4) as u32;
            let g = format!("{}_k{}", style_name(style), kmode);
            // incremental store: puts (auto key and explicit key), removes, keyed reads; finalize at the end
          for keyed in [false, true] {
            // `trie/..` checks the BlobStore (id) contract incl. len; `trie_keys/..` checks the keyed API on top (len is left to the former)
            ctx.case(&format!("{}/{which}", if keyed { "trie_keys" } else { "trie" }), &g, idx / (4 * STYLES as u64), |c| {
                let cfg = trie_cfg(which); if !cfg.enable_statistics { c.tag("statistics_disabled"); } if which == "mem" { c.tag("louds_trie"); }
                let np = 6 + c.rng.usize_below(14); let pool = mk_pool(&mut c.rng, style, np, 600); record_pool(c, style, &pool); c.input_str("keymode", &kmode.to_string());
                let mut t = BBI(ctor!(Trie::new(cfg), "NestLoudsTrieBlobStore::new"));
                let mut m = Model::default(); m.defer_len = keyed; let mut km = KeyModel::default(); let mut serial = 0usize;
                let nops = 30 + c.rng.usize_below(if c.tier == crate::ctx::Tier::Quick { 50 } else { 150 });
                let mut ktrace = Vec::new();
                // the last POST steps run after finalize(): mutations may then be refused, but a refused call must leave every answer unchanged
                const POST: usize = 8; let mut fin = "";
                for step in 0..nops + POST {
                    if step == nops {
                        if keyed { check_keys(c, &mut t.0, &km, "before finalize", true)?; }
                        // finalize() may refuse (the embedded offset index can reject the record sizes); either way the store must keep answering
                        fin = match t.0.finalize() { Ok(()) => { c.note("finalize_ok", 1); "finalized_" } Err(e) => { c.note("finalize_err", 1); c.log(format!("finalize: {e}")); "finalize_refused_" } };
                        c.set_nontrivial(m.issued.len() >= 2);
                        pre(fin, check_all(c, &t, &m, "after finalize"))?;
                        if keyed { pre(fin, check_keys(c, &mut t.0, &km, "after finalize", true))?; }
                    }
                    let roll = if step >= nops { [10u64, 35, 50, 60][c.rng.usize_below(4)] } else { c.rng.below(100) }; let live: Vec<u32> = m.live.keys().copied().collect(); let at;
                    if roll < 30 && live.len() < 24 || live.is_empty() {
                        let data = &pool[c.rng.usize_below(pool.len())]; serial += 1; let key = trie_key(&mut c.rng, kmode, serial); tag_keys(c, &key); ktrace.extend_from_slice(&key); ktrace.push(b'|');
                        if km.latest.contains_key(&key) { c.tag("dup_key"); }
                        at = format!("op#{step} put_with_key({}, len {})", ab(&key), data.len());
                        match t.0.put_with_key(&key, data) { Ok(id) => { m.issue(id, data, &at)?; if let Some((old, _)) = km.latest.insert(key.clone(), (id, data.clone())) { km.key_of.remove(&old); km.dup_ids.insert(old, key.clone()); km.dup_ids.insert(id, key.clone()); } km.key_of.insert(id, key); c.note("put_key_ok", 1); } Err(e) => { c.note("put_key_err", 1); c.log(format!("{at}: {e}")); } }
                    } else if roll < 42 && live.len() < 24 {
                        let data = &pool[c.rng.usize_below(pool.len())]; at = format!("op#{step} put(len {})", data.len());
                        match t.0.put(data) { Ok(id) => { m.issue(id, data, &at)?; let key = format!("__blob_{id}").into_bytes(); km.latest.insert(key.clone(), (id, data.clone())); km.key_of.insert(id, key); c.note("put_ok", 1); } Err(e) => { c.note("put_err", 1); c.log(format!("{at}: {e}")); } }
                    } else if roll < 58 {
                        let id = *c.rng.pick(&live); at = format!("op#{step} remove({id})");
                        match t.0.remove(id) { Ok(()) => { m.unissue(id);
                                // the key of that record is gone; a key that was put more than once is in an unspecified state once any of its records is removed
                                if let Some(k) = km.dup_ids.get(&id).cloned() { km.tainted.insert(k.clone()); km.latest.remove(&k); km.key_of.remove(&id); }
                                else if let Some(k) = km.key_of.remove(&id) { km.latest.remove(&k); }
                                c.note("remove_ok", 1); }
                            Err(e) => { c.note("remove_err", 1); c.log(format!("{at}: {e}")); } }
                    } else if roll < 63 {
                        let probes = m.absent_probes(&mut c.rng); let id = *c.rng.pick(&probes); at = format!("op#{step} remove(absent {id})");
                        if t.0.remove(id).is_ok() { return Err(bad("remove_absent_ok", format!("{at} returned Ok"))); }
                    } else if roll < 72 {
                        at = format!("op#{step} batch/iter read"); check_batch_iter(c, &t, &m, &at)?;
                    } else if !keyed { at = format!("op#{step} get"); if let Some(&id) = live.first() { let _ = t.0.get(id); }
                    } else if roll < 80 {
                        at = format!("op#{step} absent key"); let k = trie_key(&mut c.rng, 1, 900000 + step);
                        if !km.latest.contains_key(&k) && !km.tainted.contains(&k) { ensure!(!t.0.contains_key(&k), "key_contains_absent", "{at}: contains_key({}) true", ab(&k)); if let Ok(g) = t.0.get_by_key(&k) { return Err(bad("key_get_absent_ok", format!("{at}: get_by_key({}) returned {}", ab(&k), ab(&g)))); } c.ev(2); }
                    } else { at = format!("op#{step} key reads"); check_keys(c, &mut t.0, &km, &at, true)?; }
                    // dup-key bookkeeping: removing a record whose key was re-put later leaves that key in an unspecified state
                    if step >= nops { c.note("post_finalize_ops", 1); let at = format!("{at} (after finalize)"); pre(fin, check_all(c, &t, &m, &at))?; if keyed { pre(fin, check_keys(c, &mut t.0, &km, &at, true))?; } continue; }
                    check_all(c, &t, &m, &at)?;
                    if keyed { check_keys(c, &mut t.0, &km, &at, false)?; }
                }
                c.input("keys", &ktrace);
                Ok(())
            });
          }
            // builder: add(key, data)* -> finish(); no ids are handed out by add(), so the contract is per key + the multiset of records
          for keyed in [false, true] {
            ctx.case(&format!("{}/{which}", if keyed { "trie_builder_keys" } else { "trie_builder" }), &g, idx / (4 * STYLES as u64), |c| {
                let cfg = trie_cfg(which); if !cfg.enable_statistics { c.tag("statistics_disabled"); } if which == "mem" { c.tag("louds_trie"); } let sorted = cfg.enable_batch_optimization;
                let n = if c.rng.bool() { *c.rng.pick(&[0usize, 1, 2, 3, 16, 64, 65]) } else { 1 + c.rng.usize_below(80) };
                let recs = mk_pool(&mut c.rng, style, n, 400); c.input_str("n", &n.to_string()); record_pool(c, style, &recs); c.input_str("keymode", &kmode.to_string());
                let mut b = ctor!(TrieBuilder::new(cfg), "NestLoudsTrieBlobStoreBuilder::new");
                let mut km = KeyModel::default(); let mut order: Vec<(Vec<u8>, Vec<u8>)> = Vec::new(); let mut ktrace = Vec::new();
                for (i, r) in recs.iter().enumerate() { let key = trie_key(&mut c.rng, if kmode >= 2 { 1 } else { kmode }, i); tag_keys(c, &key); ktrace.extend_from_slice(&key); ktrace.push(b'|');
                    if let Err(e) = b.add(&key, r) { return Err(bad("builder_add_err", format!("add #{i} failed: {e}"))); } km.latest.insert(key.clone(), (i as u32, r.clone())); order.push((key, r.clone())); }
                c.input("keys", &ktrace);
                let mut t = match b.finish() { Ok(t) => t, Err(e) => { c.note("finish_err", 1); c.log(format!("finish: {e}")); return Ok(()); } };
                c.set_nontrivial(n >= 2);
                if sorted { order.sort_by(|a, b2| a.0.cmp(&b2.0)); }
                let mut m = Model::default(); m.defer_len = keyed; for (i, (_, v)) in order.iter().enumerate() { m.issue(i as u32, v, "builder")?; }
                let w = BBI(t); check_all(c, &w, &m, "built store")?; check_batch_iter(c, &w, &m, "built store")?;
                t = w.0; if keyed { check_keys(c, &mut t, &km, "built store", true)?; }
                ensure!(t.is_finalized(), "not_finalized", "builder.finish() returned a store that is not finalized");
                Ok(())
            });
          }
        }
    }
}

// ---- DictZipBlobStore ----------------------------------------------------------------------------------------------
fn dictzip_targets(ctx: &mut Ctx) {
    let per = if huge() { ctx.n(1, 12) as u64 } else { ctx.n(16, 400) as u64 };
    let presets = ["default", "text", "binary", "log", "realtime", "huf_x1", "huf_x2", "huf_x4", "huf_x8", "fse", "fse_x4"];
    for which in presets {
        for idx in 0..per {
            let p = Prof { batch_nonempty: true, ..PROF };
            hist_case(ctx, &format!("dictzip/{which}"), idx, 400, p, |c, pool| {
                let mut cfg = match which { "text" => DictZipConfig::text_compression(), "binary" => DictZipConfig::binary_compression(), "log" => DictZipConfig::log_compression(), "realtime" => DictZipConfig::realtime_compression(), _ => DictZipConfig::default() };
                match which { "huf_x1" => { cfg.entropy_algorithm = DzEntropy::HuffmanO1; cfg.entropy_interleaved = *c.rng.pick(&[0u8, 1]); } "huf_x2" => { cfg.entropy_algorithm = DzEntropy::HuffmanO1; cfg.entropy_interleaved = 2; } "huf_x4" => { cfg.entropy_algorithm = DzEntropy::HuffmanO1; cfg.entropy_interleaved = 4; }
                    "huf_x8" => { cfg.entropy_algorithm = DzEntropy::HuffmanO1; cfg.entropy_interleaved = 8; } "fse" => { cfg.entropy_algorithm = DzEntropy::Fse; } "fse_x4" => { cfg.entropy_algorithm = DzEntropy::Fse; cfg.entropy_interleaved = 4; } _ => {} }
                if cfg.entropy_algorithm == DzEntropy::HuffmanO1 { c.tag("dz_huffman_entropy_stage"); } if cfg.entropy_algorithm == DzEntropy::Fse { c.tag("dz_fse_entropy_stage"); }
                if cfg.entropy_algorithm != DzEntropy::None { cfg.entropy_zip_ratio_require = *c.rng.pick(&[0.8f32, 1.0, 0.95]); cfg.min_compression_size = *c.rng.pick(&[1usize, 16, 64]); }
                else if c.rng.chance(1, 3) { cfg.min_compression_size = *c.rng.pick(&[1usize, 8, 64]); }
                cfg.cache_size_bytes = *c.rng.pick(&[1024usize, 4096, 1 << 20]);
                c.input_str("cfg", &format!("entropy={:?}/x{} min_compression_size={} ratio_require={} cache={}", cfg.entropy_algorithm, cfg.entropy_interleaved, cfg.min_compression_size, cfg.entropy_zip_ratio_require, cfg.cache_size_bytes));
                let mut b = ctor!(DictZipBlobStoreBuilder::with_config(cfg), "DictZipBlobStoreBuilder::with_config");
                let mut nsamp = 0; for r in pool { if !r.is_empty() && c.rng.chance(2, 3) { let _ = b.add_training_sample(&r[..r.len().min(1500)]); nsamp += 1; } }
                if nsamp == 0 { let _ = b.add_training_sample(b"the quick brown fox jumps over the lazy dog, the quick brown fox"); }
                let s = match b.finish() { Ok(s) => s, Err(e) => { c.note("builder_finish_err", 1); return Err(bad("__inconclusive", format!("DictZipBlobStoreBuilder::finish refused the training set: {e}"))); } };
                let (bx, mut m) = fresh(DZ(s))?; m.ops_cap = Some(if which.starts_with("huf") || which.starts_with("fse") { 36 } else { 60 }); Ok((bx, m))
            });
        }
    }
}

// ---- large-input families for the bulk-built stores, the offset index and the trie store --------------------------------
fn huge_count_records(c: &mut Case) -> Vec<Vec<u8>> {
    let n = *c.rng.pick(&[65537usize, 100003, 131073]); let fixed = 4usize; let pc_fixed = *c.rng.pick(&[0u64, 50, 90, 100]);
    c.input_str("n", &n.to_string()); c.input_str("percent_len4", &pc_fixed.to_string()); let salt = c.rng.next(); c.hash_more(&salt.to_le_bytes());
    (0..n).map(|i| { let h = (i as u64 ^ salt).wrapping_mul(0x9E3779B97F4A7C15); let b = h.to_le_bytes(); if (h >> 40) % 100 < pc_fixed { b[..fixed].to_vec() } else { b[..(h >> 50) as usize % 8].to_vec() } }).collect()
}
fn huge_bulk_targets(ctx: &mut Ctx) {
    let per = ctx.n(2, 30) as u64;
    for idx in 0..per {
        for fam in ["huge_count", "huge_sizes"] {
            let mk = |c: &mut Case| -> Vec<Vec<u8>> { if fam == "huge_count" { huge_count_records(c) } else { let cap = if c.rng.bool() { (1 << 20) + 1 } else { 3 * (1 << 20) + 5 }; let mut r = huge_pool(c, cap, 3); r.push(vec![7u8; 5]); r } };
            ctx.case("simplezip/default", fam, idx, |c| { let recs = mk(c); let store = ctor!(SimpleZipBlobStore::build_from(&recs, &SimpleZipConfig::default()), "build_from"); c.set_nontrivial(true); c.note("fragments", store.num_unique_fragments() as u64);
                let ids: Vec<u32> = (0..recs.len() as u32).collect(); check_bulk(c, &mut BBI(store), &ids, &recs, "built store") });
            ctx.case("mixedlen/auto", fam, idx, |c| { let recs = mk(c); let store = ctor!(MixedLenBlobStore::build_from(&recs), "build_from"); c.set_nontrivial(true); c.note("fixed", store.fixed_count() as u64); c.note("variable", store.variable_count() as u64);
                let ids: Vec<u32> = (0..recs.len() as u32).collect(); check_bulk(c, &mut BBI(store), &ids, &recs, "built store") });
            ctx.case("mixedlen/fixed", fam, idx, |c| { let recs = mk(c); let fl = if fam == "huge_count" { 4 } else { recs[c.rng.usize_below(recs.len())].len() }; c.input_str("fixed_len", &fl.to_string());
                let store = ctor!(MixedLenBlobStore::build_from_with_fixed_len(&recs, fl), "build_from_with_fixed_len"); c.set_nontrivial(true); c.note("fixed", store.fixed_count() as u64); c.note("variable", store.variable_count() as u64);
                let ids: Vec<u32> = (0..recs.len() as u32).collect(); check_bulk(c, &mut BBI(store), &ids, &recs, "built store") });
        }
    }
    // ZipOffset builders: one large case per family (behind the known finish() placeholder finding on the unchanged tree)
    for idx in 0..ctx.n(1, 8) as u64 {
        for fam in ["huge_count", "huge_sizes"] {
            // huge_count runs uncompressed (one zstd context per record would cost 4 s for 65537 records): a fixed member of the custom family
            let tl: &[(&str, bool)] = if fam == "huge_count" { &[("zipoffset/custom", false), ("zipoffset_batch/custom", true)] } else { &[("zipoffset/default", false), ("zipoffset/perf", false), ("zipoffset_batch/default", true)] };
            for &(t, batch) in tl {
                ctx.case(t, fam, idx, |c| { let cfg = if fam == "huge_count" { let k = ZipOffsetBlobStoreConfig { compress_level: 0, checksum_level: *c.rng.pick(&[0u8, 2]), ..ZipOffsetBlobStoreConfig::default() }; c.input_str("cfg", &format!("{k:?}")); k } else { zo_cfg(c, if t.ends_with("perf") { "perf" } else { "default" }) };
                    let recs = if fam == "huge_count" { let n = 65537 + c.rng.usize_below(500); c.input_str("n", &n.to_string()); (0..n).map(|i| (i as u32).to_le_bytes()[..i % 4].to_vec()).collect::<Vec<_>>() } else { huge_pool(c, (1 << 20) + 1, 3) };
                    c.tag("nonempty_input"); tag_suv_span(c, &cfg.offset_config, recs.len() + 1);
                    let mut ids = Vec::new();
                    let store = if batch { let mut b = ctor!(BatchZipOffsetBlobStoreBuilder::with_config(cfg, 64), "batch builder"); for r in &recs { match b.add_record(r) { Ok(id) => ids.push(id), Err(_) => { c.note("add_record_err", 1); return Ok(()); } } } match b.finish() { Ok(s) => s, Err(_) => { c.note("finish_err", 1); return Ok(()); } } }
                        else { let mut b = ctor!(ZipOffsetBlobStoreBuilder::with_config(cfg), "builder"); for r in &recs { match b.add_record(r) { Ok(id) => ids.push(id), Err(_) => { c.note("add_record_err", 1); return Ok(()); } } } match b.finish() { Ok(s) => s, Err(_) => { c.note("finish_err", 1); return Ok(()); } } };
                    c.set_nontrivial(true); let pos: Vec<u32> = (0..recs.len() as u32).collect(); let mut w = B(store); let mut m = Model::default(); m.sample = Some(3000);
                    for (i, id) in pos.iter().enumerate() { m.issue(*id, &recs[i], "builder")?; }
                    check_all(c, &w, &m, "built store")?; let _ = w.bs_mut().put(b"x");
                    if !batch { for (i, id) in ids.iter().enumerate() { ensure!(*id as usize == i, "bulk_id_order", "add_record #{i} returned id {id}"); } }
                    // reload paths with the sampled oracle
                    let mut buf = Vec::new(); if let Err(e) = w.0.save_to_writer(&mut buf) { return Err(bad("save_err", format!("save_to_writer failed: {e}"))); }
                    let loaded = match ZipOffsetBlobStore::load_from_reader(&mut &buf[..]) { Ok(x) => x, Err(e) => return Err(bad("load_err", format!("load_from_reader of {} saved bytes failed: {e}", buf.len()))) };
                    pre("reload_", check_all(c, &B(loaded), &m, "after save_to_writer/load_from_reader")) });
            }
        }
    }
    // offset index with > 65536 / > 131072 entries and with offsets beyond 2^32
    for which in ["default", "perf", "custom"] {
        for idx in 0..ctx.n(2, 30) as u64 {
            for fam in ["huge_count", "huge_offsets"] {
                ctx.case(&format!("suv/{which}"), fam, idx, |c| {
                    let mut cfg = suv_cfg(c, which); if which == "custom" && fam == "huge_offsets" { cfg.sample_width = cfg.sample_width.max(34); } c.input_str("cfg", &format!("{cfg:?}"));
                    let n = *c.rng.pick(&[65537usize, 131073, 200001]); c.input_str("n", &n.to_string());
                    let maxstep = ((1u64 << cfg.offset_width) / cfg.block_size() as u64).clamp(1, 300);
                    let mut cur = if fam == "huge_offsets" { (1u64 << 32) - c.rng.below(maxstep * n as u64 / 2 + 1) } else { c.rng.below(1000) }; c.input_str("start", &cur.to_string()); let salt = c.rng.next(); c.hash_more(&salt.to_le_bytes());
                    let mut vals = Vec::with_capacity(n); for i in 0..n { vals.push(cur); cur += ((i as u64 ^ salt).wrapping_mul(0x9E3779B97F4A7C15) >> 33) % (maxstep + 1); }
                    let bsz = cfg.block_size(); let mut delta_over = false; let mut sample_over = false;
                    for (i, v) in vals.iter().enumerate() { let bm = vals[i - i % bsz]; if v - bm >= (1u64 << cfg.offset_width) { delta_over = true; } if cfg.sample_width < 64 && bm >= (1u64 << cfg.sample_width) { sample_over = true; } }
                    if delta_over { c.tag("delta_exceeds_offset_width"); } if sample_over { c.tag("block_min_exceeds_sample_width"); } tag_suv_span(c, &cfg, n);
                    let mut b = SortedUintVecBuilder::with_config(cfg); for v in &vals { if let Err(e) = b.push(*v) { return Err(bad("suv_push_err", format!("push({v}) of a non-decreasing value failed: {e}"))); } }
                    let sv = match b.finish() { Ok(s) => s, Err(e) => { if delta_over || sample_over { c.note("finish_err_width", 1); return Ok(()); } return Err(bad("suv_finish_err", format!("finish failed although every delta and every block sample fits: {e}"))); } };
                    c.set_nontrivial(true); ensure!(sv.len() == n, "suv_len", "len()={} want {n}", sv.len());
                    for i in 0..n { match sv.get(i) { Ok(v) if v == vals[i] => {}, other => return Err(bad("suv_get", format!("get({i})={other:?} want {} (n={n}, cfg {cfg:?})", vals[i]))) } c.ev(1); }
                    for i in (0..n - 1).step_by(7).chain(65530..65540).chain(n - 3..n - 1).filter(|&i| i + 1 < n) { match sv.get2(i) { Ok((a, b2)) if a == vals[i] && b2 == vals[i + 1] => {}, other => return Err(bad("suv_get2", format!("get2({i})={other:?} want ({}, {})", vals[i], vals[i + 1]))) } c.ev(1); }
                    ensure!(sv.get(n).is_err(), "suv_get_oob", "get(len) returned Ok"); ensure!(sv.get2(n - 1).is_err(), "suv_get2_oob", "get2(len-1) returned Ok");
                    let mut out = vec![0u64; bsz]; for blk in (0..sv.num_blocks()).step_by(3).chain(sv.num_blocks() - 1..sv.num_blocks()) { if let Err(e) = sv.get_block(blk, &mut out) { return Err(bad("suv_get_block", format!("get_block({blk}) failed: {e}"))); } for j in 0..bsz { let i = blk * bsz + j; if i < n { ensure!(out[j] == vals[i], "suv_get_block", "get_block({blk})[{j}]={} want {}", out[j], vals[i]); c.ev(1); } } }
                    Ok(()) });
            }
        }
    }
}

fn huge_trie_targets(ctx: &mut Ctx) {
    for which in ["default", "perf", "mem", "sec"] {
        for idx in 0..ctx.n(1, 12) as u64 {
            // (no `huge_count` for the trie store: its Patricia backend allocates a 256-slot node per key byte and a zstd context per record;
            //  65537 records cost > 60 s CPU, so element counts > 2^16 are not reachable within the case budget)
            // full 256-way fan-out under one long prefix, a second level, keys that differ only in their first (high) byte; then removals down to one child
            ctx.case(&format!("trie_keys/{which}"), "huge_fanout", idx, |c| {
                if !trie_cfg(which).enable_statistics { c.tag("statistics_disabled"); } if which == "mem" { c.tag("louds_trie"); } c.tag("key_has_nul");
                let plen = *c.rng.pick(&[1usize, 40, 200]); let prefix: Vec<u8> = (0..plen).map(|i| b'a' + (i % 7) as u8).collect(); let x = c.rng.next() as u8; let suffix = vec![b'z'; 30]; c.input_str("prefix_len", &plen.to_string()); c.input("second_level_under", &[x]);
                let mut keys: Vec<Vec<u8>> = Vec::new();
                for b in 0..=255u8 { let mut k = prefix.clone(); k.push(b); keys.push(k); }
                for b in 0..=255u8 { let mut k = prefix.clone(); k.push(x); k.push(b); keys.push(k); }
                for b in 0..=255u8 { let mut k = vec![b]; k.extend_from_slice(&suffix); keys.push(k); }
                c.rng.shuffle(&mut keys);
                let mut t = BBI(ctor!(Trie::new(trie_cfg(which)), "new")); let mut m = Model::default(); m.defer_len = true; let mut km = KeyModel::default();
                for (i, k) in keys.iter().enumerate() { let v = tiny_record(i + 1, PROF); match t.0.put_with_key(k, &v) { Ok(id) => { m.issue(id, &v, "put_with_key")?; km.latest.insert(k.clone(), (id, v.clone())); km.key_of.insert(id, k.clone()); } Err(_) => { c.note("put_key_err", 1); } } }
                c.set_nontrivial(km.latest.len() >= 256);
                check_all(c, &t, &m, "after fan-out")?; check_keys(c, &mut t.0, &km, "after fan-out", true)?;
                // remove every child of the prefix node except one, in random order
                let keep = c.rng.next() as u8; let mut victims: Vec<(u32, Vec<u8>)> = km.key_of.iter().filter(|(_, k)| k.len() == plen + 1 && k.starts_with(&prefix) && k[plen] != keep).map(|(i, k)| (*i, k.clone())).collect(); c.rng.shuffle(&mut victims);
                let mut rerr = 0u64; for (id, k) in victims { match t.0.remove(id) { Ok(()) => { m.unissue(id); km.key_of.remove(&id); km.latest.remove(&k); } Err(_) => rerr += 1 } } c.note("remove_err", rerr);
                check_all(c, &t, &m, "after removals down to one child")?; check_keys(c, &mut t.0, &km, "after removals down to one child", true)?;
                let mut pfx = prefix.clone(); let want: Vec<Vec<u8>> = km.latest.keys().filter(|k| k.starts_with(&pfx)).cloned().collect();
                match t.0.get_by_prefix(&pfx) { Ok(got) => { let gk: Vec<Vec<u8>> = got.into_iter().map(|(k, _)| k).collect(); ensure!(gk == want, "prefix_keys_mismatch", "get_by_prefix(prefix) returned {} keys want {}", gk.len(), want.len()); } Err(e) => return Err(bad("prefix_err", format!("get_by_prefix failed: {e}"))) }
                pfx.push(x); let want2 = km.latest.keys().filter(|k| k.starts_with(&pfx)).count();
                match t.0.get_by_prefix(&pfx) { Ok(got) => ensure!(got.len() == want2, "prefix_keys_mismatch", "get_by_prefix(prefix+x) returned {} keys want {want2}", got.len()), Err(e) => return Err(bad("prefix_err", format!("get_by_prefix failed: {e}"))) }
                Ok(()) });
        }
    }
}

// ---- fixed minimal witnesses of the defects known on the unchanged tree (no randomness; same oracles) -------------
fn witnesses(ctx: &mut Ctx) {
    ctx.case("huffman_trained", "witness", 0, |c| { c.input("record", b"abracadabra"); c.tag("huffman_trained_encodable"); c.set_nontrivial(true);
        let mut s = HuffmanBlobStore::new(MemoryBlobStore::new()); s.add_training_data(b"abracadabra"); if let Err(e) = s.build_tree() { return Err(bad("ctor_err", format!("build_tree: {e}"))); }
        let mut w = B(s); let mut m = Model::default(); let id = match w.0.put(b"abracadabra") { Ok(id) => id, Err(e) => return Err(bad("ctor_err", format!("put: {e}"))) }; m.issue(id, b"abracadabra", "put")?; check_all(c, &w, &m, "put(abracadabra)") });
    for (t, batch) in [("zipoffset/default", false), ("zipoffset_batch/default", true)] {
        ctx.case(t, "witness", 0, |c| { c.input("records", b"x|yy"); c.tag("nonempty_input"); c.set_nontrivial(true); let recs = vec![b"x".to_vec(), b"yy".to_vec()];
            let store = if batch { let mut b = ctor!(BatchZipOffsetBlobStoreBuilder::new(8), "batch builder"); for r in &recs { ctor!(b.add_record(r), "add_record"); } ctor!(b.finish(), "finish") } else { let mut b = ctor!(ZipOffsetBlobStoreBuilder::new(), "builder"); for r in &recs { ctor!(b.add_record(r), "add_record"); } ctor!(b.finish(), "finish") };
            check_bulk(c, &mut B(store), &[0, 1], &recs, "built store") });
    }
    ctx.case("simplezip/default", "witness", 0, |c| { c.input_str("records", "none"); c.tag("empty_store"); let s = ctor!(SimpleZipBlobStore::build_from(&[], &SimpleZipConfig::default()), "build_from"); check_bulk(c, &mut BBI(s), &[], &[], "built store") });
    ctx.case("mixedlen/auto", "witness", 0, |c| { c.input_str("records", "none"); c.tag("empty_store"); let s = ctor!(MixedLenBlobStore::build_from(&[]), "build_from"); check_bulk(c, &mut BBI(s), &[], &[], "built store") });
    ctx.case("suv/mem", "witness", 0, |c| { c.input_str("values", "16777216,16777217"); c.tag("block_min_exceeds_sample_width"); c.set_nontrivial(true);
        let mut b = SortedUintVecBuilder::with_config(SortedUintVecConfig::memory_optimized()); for v in [1u64 << 24, (1u64 << 24) + 1] { ctor!(b.push(v), "push"); }
        let sv = match b.finish() { Ok(s) => s, Err(_) => { c.note("finish_err_width", 1); return Ok(()); } };
        match sv.get(0) { Ok(v) if v == 1 << 24 => Ok(()), other => Err(bad("suv_get", format!("get(0)={other:?} want 16777216 (memory_optimized: sample_width 24)"))) } });
    ctx.case("suv/custom", "witness", 0, |c| { let cfg = SortedUintVecConfig { log2_block_units: 4, offset_width: 8, sample_width: 61, use_simd: false }; c.input_str("cfg", &format!("{cfg:?}")); c.input_str("values", "0..33"); c.tag("sample_field_spans_9_bytes"); c.set_nontrivial(true);
        let mut b = SortedUintVecBuilder::with_config(cfg); for v in 0..33u64 { ctor!(b.push(v), "push"); }
        let sv = ctor!(b.finish(), "finish (every delta and sample fits)"); for i in 0..33usize { match sv.get(i) { Ok(v) if v == i as u64 => {}, other => return Err(bad("suv_get", format!("get({i})={other:?}"))) } } Ok(()) });
    for (t, keyed) in [("trie/mem", false), ("trie_keys/mem", true)] {
        ctx.case(t, "witness", 0, |c| { c.input_str("ops", "put_with_key(ab, v1); put_with_key(cd, v2)"); c.tag("statistics_disabled"); c.tag("louds_trie"); c.set_nontrivial(true);
            let mut t = BBI(ctor!(Trie::new(TrieBlobStoreConfig::memory_optimized()), "new")); let mut m = Model::default(); m.defer_len = keyed; let mut km = KeyModel::default();
            for (k, v) in [(b"ab", b"v1"), (b"cd", b"v2")] { let id = ctor!(t.0.put_with_key(k, v), "put_with_key"); m.issue(id, v, "put_with_key")?; km.latest.insert(k.to_vec(), (id, v.to_vec())); km.key_of.insert(id, k.to_vec()); }
            check_all(c, &t, &m, "after two put_with_key")?; if keyed { check_keys(c, &mut t.0, &km, "after two put_with_key", true)?; } Ok(()) });
    }
    ctx.case("trie_keys/mem", "witness", 1, |c| { c.input_str("ops", "put_with_key(ab, v1); remove(id)"); c.tag("statistics_disabled"); c.tag("louds_trie"); c.set_nontrivial(true);
        let mut t = BBI(ctor!(Trie::new(TrieBlobStoreConfig::memory_optimized()), "new")); let mut m = Model::default(); m.defer_len = true; let mut km = KeyModel::default();
        let id = ctor!(t.0.put_with_key(b"ab", b"v1"), "put_with_key"); m.issue(id, b"v1", "put_with_key")?; km.latest.insert(b"ab".to_vec(), (id, b"v1".to_vec()));
        match t.0.remove(id) { Ok(()) => { m.unissue(id); km.latest.clear(); c.note("remove_ok", 1); } Err(_) => { c.note("remove_err", 1); } }
        check_all(c, &t, &m, "after remove")?; check_keys(c, &mut t.0, &km, "after remove", true) });
    ctx.case("dictzip/huf_x1", "witness", 0, |c| { c.tag("dz_huffman_entropy_stage"); c.set_nontrivial(true);
        let text: Vec<u8> = b"the quick brown fox jumps over the lazy dog; ".iter().cycle().take(900).copied().collect(); c.input("training_and_record", &text);
        let mut cfg = DictZipConfig::default(); cfg.entropy_algorithm = DzEntropy::HuffmanO1; cfg.entropy_interleaved = 1; cfg.entropy_zip_ratio_require = 1.0; cfg.min_compression_size = 1;
        let mut b = ctor!(DictZipBlobStoreBuilder::with_config(cfg), "builder"); ctor!(b.add_training_sample(&text), "add_training_sample"); let s = ctor!(b.finish(), "finish");
        let mut w = DZ(s); let mut m = Model::default(); let rec = &text[45..445]; let id = ctor!(w.0.put(rec), "put"); m.issue(id, rec, "put")?; let r = check_all(c, &w, &m, "put(400 bytes of the training text)"); w.coverage(c); r });
}

// ---- gap families: constructors / conversions / batch variants / builders the histories above never call -----------------
use zipora::config::nest_louds_trie::{NestLoudsTrieConfig, OptimizationFlags};
use zipora::containers::specialized::{FixedLenStrVec, SortableStrVec, ZoSortedStrVec};

fn gap_pool(c: &mut Case, style: u32, maxn: usize, maxlen: usize) -> Vec<Vec<u8>> { let n = 4 + c.rng.usize_below(maxn); let pool = mk_pool(&mut c.rng, style, n, maxlen); record_pool(c, style, &pool); pool }
/// distinct non-empty printable ascii strings (<= 12 bytes) sharing prefixes
fn gap_strings(c: &mut Case, n: usize) -> Vec<String> {
    let mut set = BTreeSet::new(); let stems = ["a", "ab", "abc", "k/", "user:", "zz", "m"];
    while set.len() < n { let st = *c.rng.pick(&stems); let l = 1 + c.rng.usize_below(6); let mut s = st.to_string(); for _ in 0..l { s.push((b'a' + c.rng.below(6) as u8) as char); } set.insert(s); }
    let mut v: Vec<String> = set.into_iter().collect(); c.rng.shuffle(&mut v); c.input_str("strings", &v.join(",")); v
}
fn gap_nlt_cfg(c: &mut Case) -> NestLoudsTrieConfig {
    let mut cfg = NestLoudsTrieConfig::default(); cfg.enable_statistics = c.rng.chance(3, 4); if !cfg.enable_statistics { c.tag("statistics_disabled"); } cfg.node_cache_size = *c.rng.pick(&[0usize, 4096, 65536]); cfg.initial_pool_size = 0;
    let which = c.rng.below(5); let mut fl = OptimizationFlags::default();
    match which { 0 => {}, 1 => fl |= OptimizationFlags::ENABLE_FAST_SEARCH, 2 => cfg.enable_queue_compression = true, 3 => fl |= OptimizationFlags::ENABLE_CACHE_OPTIMIZATION | OptimizationFlags::ENABLE_PARALLEL_CONSTRUCTION, _ => fl |= OptimizationFlags::USE_HUGEPAGES }
    cfg.optimization_flags = fl; c.input_str("nlt_cfg", &format!("variant {which} node_cache_size {}", cfg.node_cache_size)); cfg
}
/// a store whose records were put with key == value: record i = strings[i] under id i, and every key answers
fn gap_check_key_is_value(c: &mut Case, t: Trie, expect: &[Vec<u8>], at: &str) -> Res {
    let mut m = Model::default(); let mut km = KeyModel::default();
    for (i, k) in expect.iter().enumerate() { m.issue(i as u32, k, at)?; km.latest.insert(k.clone(), (i as u32, k.clone())); km.key_of.insert(i as u32, k.clone()); }
    c.set_nontrivial(expect.len() >= 2);
    let w = BBI(t); check_all(c, &w, &m, at)?; check_batch_iter(c, &w, &m, at)?; let mut t = w.0;
    check_keys(c, &mut t, &km, at, true)?; gap_keys_with_prefix(c, &t, &km, at)
}
fn gap_keys_with_prefix(c: &mut Case, t: &Trie, km: &KeyModel, at: &str) -> Res {
    let mut prefixes: Vec<Vec<u8>> = vec![vec![], b"zq".to_vec()]; for k in km.latest.keys().take(30) { if !k.is_empty() { let l = c.rng.usize_below(k.len() + 1); prefixes.push(k[..l].to_vec()); } }
    prefixes.sort(); prefixes.dedup(); if prefixes.len() > 6 { c.rng.shuffle(&mut prefixes); prefixes.truncate(6); }
    for pfx in prefixes {
        if km.tainted.iter().any(|k| k.starts_with(&pfx)) { continue; }
        let want: Vec<Vec<u8>> = km.latest.keys().filter(|k| k.starts_with(&pfx)).cloned().collect();
        match t.keys_with_prefix(&pfx) { Ok(got) => { ensure!(got == want, "keys_with_prefix_mismatch", "{at}: keys_with_prefix({}) returned {} keys {:?} want {} {:?}", ab(&pfx), got.len(), got.iter().map(|k| ab(k)).collect::<Vec<_>>(), want.len(), want.iter().map(|k| ab(k)).collect::<Vec<_>>()); c.ev(1); }
            Err(e) => return Err(bad("keys_with_prefix_err", format!("{at}: keys_with_prefix({}) failed: {e}", ab(&pfx)))) }
    }
    Ok(())
}

fn gap_targets(ctx: &mut Ctx) {
    // --- MemoryBlobStore: with_capacity / from_data / reserve / shrink_to_fit / clear -------------------------------------
    for idx in 0..ctx.n(24, 400) as u64 {
        let style = (idx % STYLES as u64) as u32;
        ctx.case("memory", "gap_ctor_clear", idx, |c| {
            let pool = gap_pool(c, style, 16, 2048); let mut m = Model::default();
            let store = if c.rng.bool() { let cap = *c.rng.pick(&[0usize, 1, 7, 64, 1000]); c.input_str("ctor", &format!("with_capacity({cap})")); MemoryBlobStore::with_capacity(cap) } else {
                let k = c.rng.usize_below(12); let mut data: BTreeMap<u32, Vec<u8>> = BTreeMap::new();
                for _ in 0..k { let id = if c.rng.chance(1, 4) { c.rng.below(4) as u32 } else { c.rng.below(100000) as u32 }; data.insert(id, pool[c.rng.usize_below(pool.len())].clone()); }
                c.input_str("ctor", &format!("from_data({:?})", data.iter().map(|(i, r)| (*i, r.len())).collect::<Vec<_>>()));
                for (id, rec) in &data { m.issue(*id, rec, "from_data")?; }
                MemoryBlobStore::from_data(data.into_iter().collect()) };
            let mut s = BBI(store);
            pre("ctor_", check_all(c, &s, &m, "after constructor"))?;
            for _ in 0..3 {
                history(c, &mut s, &mut m, &pool, PROF, 25)?;
                let what = match c.rng.below(3) { 0 => { let k = c.rng.usize_below(300); s.0.reserve(k); "reserve" } 1 => { s.0.shrink_to_fit(); "shrink_to_fit" } _ => { s.0.reserve(5); s.0.shrink_to_fit(); "reserve+shrink_to_fit" } };
                let _ = s.0.capacity();
                pre("resized_", check_all(c, &s, &m, &format!("after {what}")))?; pre("resized_", check_batch_iter(c, &s, &m, &format!("after {what}")))?;
            }
            s.0.clear(); let ids: Vec<u32> = m.live.keys().copied().collect(); for id in ids { m.unissue(id); }
            pre("cleared_", check_all(c, &s, &m, "after clear()"))?; pre("cleared_", check_batch_iter(c, &s, &m, "after clear()"))?;
            pre("cleared_", history(c, &mut s, &mut m, &pool, PROF, 30))
        });
        // --- compression wrappers: with_default_compression / inner / inner_mut / into_inner -> re-wrap ---------------------
        ctx.case("zstd_mem", "gap_into_inner_rewrap", idx, |c| {
            let pool = gap_pool(c, style, 16, 4096);
            let mut s = BBI(ZstdBlobStore::with_default_compression(MemoryBlobStore::new())); let mut m = Model::default(); c.note("default_level", s.0.compression_level() as u64);
            history(c, &mut s, &mut m, &pool, PROF, 40)?;
            if s.0.inner().len() != m.live.len() { c.note("inner_len_differs", 1); }
            // a record put through inner_mut() bypasses compression: its id must not collide with a live one (the read side is left open)
            let lvl = *c.rng.pick(&[1i32, 3, 9, -3]); c.input_str("rewrap_level", &lvl.to_string());
            let inner = s.0.into_inner();
            let mut s2 = BBI(ZstdBlobStore::new(inner, lvl));
            pre("rewrap_", check_all(c, &s2, &m, "after into_inner() + ZstdBlobStore::new"))?;
            let _ = s2.0.inner_mut().flush();
            pre("rewrap_", history(c, &mut s2, &mut m, &pool, PROF, 30))
        });
        ctx.case("lz4_mem", "gap_into_inner_rewrap", idx, |c| {
            let pool = gap_pool(c, style, 16, 4096);
            let mut s = B(Lz4BlobStore::new(MemoryBlobStore::new())); let mut m = Model::default();
            history(c, &mut s, &mut m, &pool, PROF, 40)?;
            if s.0.inner().len() != m.live.len() { c.note("inner_len_differs", 1); }
            let mut s2 = B(Lz4BlobStore::new(s.0.into_inner()));
            pre("rewrap_", check_all(c, &s2, &m, "after into_inner() + Lz4BlobStore::new"))?;
            pre("rewrap_", history(c, &mut s2, &mut m, &pool, PROF, 30))
        });
        // --- CachedBlobStore: two stores over one shared LruPageCache (with_cache / with_cache_and_strategy) -------------------
        ctx.case("cached_shared", "gap_shared_cache", idx, |c| {
            let pool = gap_pool(c, style, 16, 6000); let cfg = cache_cfg(c);
            let cache = std::sync::Arc::new(ctor!(zipora::cache::LruPageCache::new(cfg), "LruPageCache::new"));
            let strat = *c.rng.pick(&[CacheWriteStrategy::WriteThrough, CacheWriteStrategy::WriteBack, CacheWriteStrategy::WriteAround]); c.input_str("strategy_b", &format!("{strat:?}"));
            let mut a = B(ctor!(CachedBlobStore::with_cache(MemoryBlobStore::new(), cache.clone()), "with_cache"));
            let mut b = B(ctor!(CachedBlobStore::with_cache_and_strategy(MemoryBlobStore::new(), cache.clone(), strat), "with_cache_and_strategy"));
            ensure!(b.0.write_strategy() == strat, "write_strategy", "with_cache_and_strategy({strat:?}) reports {:?}", b.0.write_strategy());
            let (mut ma, mut mb) = (Model::default(), Model::default());
            for _ in 0..3 { pre("a_", history(c, &mut a, &mut ma, &pool, PROF, 14))?; pre("b_", history(c, &mut b, &mut mb, &pool, PROF, 14))?; }
            pre("a_", check_all(c, &a, &ma, "final"))?; let _ = a.0.cache_stats(); Ok(())
        });
        // --- CachedBlobStore: enable/disable, strategy switches, inherent flush, prefetch_range in the middle of a history ------
        ctx.case("cached_toggle", "gap_toggle_strategy", idx, |c| {
            let pool = gap_pool(c, style, 16, 6000); let cfg = cache_cfg(c);
            let mut s = B(ctor!(CachedBlobStore::new(MemoryBlobStore::new(), cfg), "CachedBlobStore::new")); let mut m = Model::default(); let mut trace = String::new();
            for _ in 0..5 {
                history(c, &mut s, &mut m, &pool, PROF, 12)?;
                let what = match c.rng.below(5) {
                    0 => { s.0.disable_cache(); "disable_cache".to_string() } 1 => { s.0.enable_cache(); "enable_cache".to_string() }
                    2 => { let st = *c.rng.pick(&[CacheWriteStrategy::WriteThrough, CacheWriteStrategy::WriteBack, CacheWriteStrategy::WriteAround]); s.0.set_write_strategy(st); ensure!(s.0.write_strategy() == st, "write_strategy", "set_write_strategy({st:?}) then write_strategy()={:?}", s.0.write_strategy()); format!("set_write_strategy({st:?})") }
                    3 => { match catch(|| s.0.flush()) { Ok(r) => { if r.is_err() { c.note("flush_err", 1); } } Err(p) => return Err(bad("flush_panic", format!("flush() panicked at {}: {}", p.loc, p.msg))) } "flush".to_string() }
                    _ => { let off = c.rng.below(20000); let len = c.rng.usize_below(9000); match catch(|| s.0.prefetch_range(off, len)) { Ok(r) => { if r.is_err() { c.note("prefetch_err", 1); } } Err(p) => return Err(bad("prefetch_panic", format!("prefetch_range({off}, {len}) panicked at {}: {}", p.loc, p.msg))) } format!("prefetch_range({off},{len})") } };
                trace.push_str(&what); trace.push(' ');
                if s.0.inner().len() != m.live.len() { c.note("inner_len_differs", 1); }
                pre("toggled_", check_all(c, &s, &m, &format!("after {what}")))?;
            }
            c.input_str("toggles", &trace);
            pre("toggled_", history(c, &mut s, &mut m, &pool, PROF, 15))
        });
    }
    // --- SimpleZipConfig::builder() == struct literal; MixedLen fixed/variable split queries; empty ZipOffsetBlobStore::new() -----
    for idx in 0..ctx.n(24, 500) as u64 {
        let style = (idx % STYLES as u64) as u32;
        ctx.case("simplezip/custom", "gap_config_builder", idx, |c| {
            let mn = c.rng.usize_below(12); let mx = if c.rng.chance(1, 8) { mn.saturating_sub(1) } else { mn + c.rng.usize_below(200) }; let nd = c.rng.usize_below(5); let delims: Vec<u8> = (0..nd).map(|_| *c.rng.pick(&[b' ', b'\n', 0u8, b'a', 0xff, b'e'])).collect();
            let mut b = SimpleZipConfig::builder(); let (mut smn, mut smx, mut sd) = (false, false, false);
            if c.rng.chance(3, 4) { b = b.min_frag_len(mn); smn = true; } if c.rng.chance(3, 4) { b = b.max_frag_len(mx); smx = true; } if c.rng.chance(3, 4) { b = b.delimiters(delims.clone()); sd = true; }
            c.input_str("builder", &format!("min {:?} max {:?} delims {:?}", smn.then_some(mn), smx.then_some(mx), sd.then_some(&delims)));
            let recs = bulk_records(c, style); if recs.is_empty() { c.tag("empty_store"); }
            let cfg = match b.build() { Ok(k) => k, Err(e) => { c.note("cfg_build_refused", 1); c.log(format!("build: {e}")); return Ok(()); } };
            let d = SimpleZipConfig::default();
            let lit = SimpleZipConfig { min_frag_len: if smn { mn } else { d.min_frag_len }, max_frag_len: if smx { mx } else { d.max_frag_len }, delimiters: if sd { delims.clone() } else { d.delimiters.clone() } };
            ensure!(cfg.min_frag_len == lit.min_frag_len && cfg.max_frag_len == lit.max_frag_len && cfg.delimiters == lit.delimiters, "config_builder_mismatch", "builder produced {cfg:?}, the setters / defaults say {lit:?}");
            let store = match SimpleZipBlobStore::build_from(&recs, &cfg) { Ok(s) => s, Err(e) => { c.note("build_err", 1); c.log(format!("build: {e}")); return Ok(()); } };
            c.set_nontrivial(recs.len() >= 2); let ids: Vec<u32> = (0..recs.len() as u32).collect();
            check_bulk(c, &mut BBI(store), &ids, &recs, "built store (config from builder)")
        });
        ctx.case(if idx % 2 == 0 { "mixedlen/auto" } else { "mixedlen/fixed" }, "gap_fixed_split", idx / 2, |c| {
            let recs = bulk_records(c, style); if recs.is_empty() { c.tag("empty_store"); }
            let store = if idx % 2 == 0 { MixedLenBlobStore::build_from(&recs) } else { let fl = if recs.is_empty() || c.rng.chance(1, 4) { c.rng.usize_below(40) } else { recs[c.rng.usize_below(recs.len())].len() }; c.input_str("fixed_len", &fl.to_string()); MixedLenBlobStore::build_from_with_fixed_len(&recs, fl) };
            let store = match store { Ok(s) => s, Err(e) => { c.note("build_err", 1); c.log(format!("build: {e}")); return Ok(()); } };
            c.set_nontrivial(recs.len() >= 2);
            // the split is a partition of the ids: a record flagged fixed-length has the dominant length; flags and counts agree
            let fl = store.fixed_len(); let mut nfixed = 0usize;
            for (i, r) in recs.iter().enumerate() { if store.is_fixed_length(i as u32) { nfixed += 1; ensure!(r.len() == fl, "fixed_flag_len", "is_fixed_length({i}) is true but the record has {} bytes and fixed_len()={fl}", r.len()); } c.ev(1); }
            ensure!(nfixed == store.fixed_count() && recs.len() - nfixed == store.variable_count(), "fixed_count", "{nfixed} of {} ids are flagged fixed-length but fixed_count()={} variable_count()={}", recs.len(), store.fixed_count(), store.variable_count());
            for id in [recs.len() as u32, recs.len() as u32 + 1, u32::MAX] { ensure!(!store.is_fixed_length(id), "fixed_flag_absent", "is_fixed_length({id}) true for a never-issued id"); }
            let ids: Vec<u32> = (0..recs.len() as u32).collect();
            check_bulk(c, &mut BBI(store), &ids, &recs, "built store")
        });
    }
    for idx in 0..ctx.n(6, 60) as u64 {
        ctx.case("zipoffset/empty", "gap_new_empty", idx, |c| {
            let which = ["new", "default", "perf", "comp", "sec", "custom"][(idx % 6) as usize]; c.input_str("ctor", which);
            let mut store = if which == "new" { ctor!(ZipOffsetBlobStore::new(), "ZipOffsetBlobStore::new") } else { let cfg = zo_cfg(c, which); ctor!(ZipOffsetBlobStore::with_config(cfg), "ZipOffsetBlobStore::with_config") };
            if c.rng.bool() { store.enable_offset_cache(); c.input_str("offset_cache", "enabled"); }
            let mut w = B(store); check_bulk(c, &mut w, &[], &[], "empty store")?;
            w.0.enable_offset_cache(); check_bulk(c, &mut w, &[], &[], "empty store, offset cache enabled")?;
            zo_roundtrip(c, &w.0, &[], &[])
        });
    }
    // --- ZipOffset builders: add_records == add_record*, builder len / is_empty / validate ------------------------------------
    for idx in 0..ctx.n(16, 300) as u64 {
        let style = (idx % STYLES as u64) as u32; let which = ["default", "perf", "comp", "sec", "custom"][(idx % 5) as usize];
        ctx.case(&format!("zipoffset/{which}"), "gap_add_records", idx / 5, |c| {
            let cfg = zo_cfg(c, which); let recs = bulk_records(c, style); if !recs.is_empty() { c.tag("nonempty_input"); } tag_suv_span(c, &cfg.offset_config, recs.len() + 1);
            let mut b = ctor!(ZipOffsetBlobStoreBuilder::with_config(cfg), "ZipOffsetBlobStoreBuilder");
            ensure!(b.is_empty() && b.len() == 0, "builder_len", "fresh builder: len()={} is_empty()={}", b.len(), b.is_empty());
            let _ = b.reserve(recs.len());
            let cut = c.rng.usize_below(recs.len() + 1); c.input_str("cut", &cut.to_string());
            let mut ids = match b.add_records(recs[..cut].iter()) { Ok(v) => v, Err(e) => { c.note("add_record_err", 1); c.log(format!("add_records: {e}")); return Ok(()); } };
            ensure!(ids.len() == cut, "add_records_len", "add_records of {cut} records returned {} ids", ids.len());
            for r in &recs[cut..] { match b.add_record(r) { Ok(id) => ids.push(id), Err(_) => { c.note("add_record_err", 1); return Ok(()); } } }
            for (i, id) in ids.iter().enumerate() { ensure!(*id as usize == i, "bulk_id_order", "record #{i} got id {id} (add_records for the first {cut})"); }
            ensure!(b.len() == recs.len() && b.is_empty() == recs.is_empty(), "builder_len", "after {} records: builder len()={} is_empty()={}", recs.len(), b.len(), b.is_empty());
            if let Err(e) = b.validate() { return Err(bad("builder_validate", format!("validate() of a builder that accepted every record failed: {e}"))); }
            let _ = (b.content_size(), b.estimated_size(), b.stats().record_count);
            let mut store = match b.finish() { Ok(s) => B(s), Err(e) => { c.note("finish_err", 1); c.log(format!("finish: {e}")); return Ok(()); } };
            c.set_nontrivial(recs.len() >= 2);
            check_bulk(c, &mut store, &ids, &recs, "built store")
        });
        ctx.case(&format!("zipoffset_batch/{which}"), "gap_builder_len", idx / 5, |c| {
            let cfg = zo_cfg(c, which); let bs = *c.rng.pick(&[1usize, 2, 3, 8, 64]); c.input_str("batch_size", &bs.to_string());
            let recs = bulk_records(c, style); if !recs.is_empty() { c.tag("nonempty_input"); }
            let mut b = ctor!(BatchZipOffsetBlobStoreBuilder::with_config(cfg, bs), "BatchZipOffsetBlobStoreBuilder");
            ensure!(b.is_empty() && b.len() == 0, "builder_len", "fresh builder: len()={} is_empty()={}", b.len(), b.is_empty());
            for (i, r) in recs.iter().enumerate() { if b.add_record(r).is_err() { c.note("add_record_err", 1); return Ok(()); }
                // len() of the batch builder is documented as "number of records added" but counts a flushed batch once: the statement is about stores, so this is a note
                if b.len() != i + 1 { c.note("batch_builder_len_differs", 1); }
                ensure!(!b.is_empty(), "builder_is_empty", "after {} records (batch size {bs}): builder is_empty()", i + 1); c.ev(1); }
            c.set_nontrivial(recs.len() >= 2); let _ = b.stats().record_count;
            Ok(())
        });
    }
    // --- SortedUintVec: new() / builder new() + extend == push* ----------------------------------------------------------------
    for idx in 0..ctx.n(24, 500) as u64 {
        ctx.case("suv/default", "gap_extend", idx, |c| {
            let n = if c.rng.chance(2, 3) { *c.rng.pick(BULK_NS) + 1 } else { 1 + c.rng.usize_below(600) };
            let mut vals: Vec<u64> = Vec::with_capacity(n); let mut cur = c.rng.below(1 << 20); for _ in 0..n { vals.push(cur); cur += c.rng.below(if n > 200 { 200 } else { 900 }); }
            let bytes: Vec<u8> = vals.iter().flat_map(|v| v.to_le_bytes()).collect(); c.input("values_le", &bytes);
            let e = ctor!(SortedUintVec::new(), "SortedUintVec::new"); ensure!(e.len() == 0 && e.is_empty(), "suv_len", "new(): len()={} is_empty()={}", e.len(), e.is_empty()); ensure!(e.get(0).is_err(), "suv_get_oob", "get(0) on an empty vector returned Ok");
            let cfg = SortedUintVecConfig::default(); let bsz = cfg.block_size(); let mut delta_over = false;
            for (i, v) in vals.iter().enumerate() { if v - vals[i - i % bsz] >= (1u64 << cfg.offset_width) { delta_over = true; } } if delta_over { c.tag("delta_exceeds_offset_width"); }
            let mut b = SortedUintVecBuilder::new(); ensure!(b.is_empty() && b.len() == 0, "suv_builder_len", "fresh builder len()={}", b.len());
            let cut = c.rng.usize_below(n + 1); c.input_str("cut", &cut.to_string());
            if let Err(e) = b.extend(vals[..cut].iter().copied()) { return Err(bad("suv_push_err", format!("extend of {cut} non-decreasing values failed: {e}"))); }
            for v in &vals[cut..] { if let Err(e) = b.push(*v) { return Err(bad("suv_push_err", format!("push({v}) of a non-decreasing value failed: {e}"))); } }
            ensure!(b.len() == n && !b.is_empty(), "suv_builder_len", "builder len()={} after {n} values", b.len());
            let sv = match b.finish() { Ok(s) => s, Err(e) => { if delta_over { c.note("finish_err_width", 1); return Ok(()); } return Err(bad("suv_finish_err", format!("finish failed although every delta fits: {e}"))); } };
            c.set_nontrivial(n >= 2); ensure!(sv.len() == n && !sv.is_empty(), "suv_len", "len()={} is_empty()={} want {n}", sv.len(), sv.is_empty());
            for i in 0..n { match sv.get(i) { Ok(v) if v == vals[i] => {}, other => return Err(bad("suv_get", format!("get({i})={other:?} want {} (n={n}, extend of the first {cut})", vals[i]))) } c.ev(1); }
            Ok(())
        });
    }
    // --- trie store: put_batch_with_keys, keys_with_prefix, builder conveniences, build_from_* ----------------------------------
    for idx in 0..ctx.n(30, 600) as u64 {
        let style = (idx % STYLES as u64) as u32; let which = ["default", "perf", "sec"][(idx % 3) as usize];
        ctx.case(&format!("trie_keys/{which}"), "gap_put_batch_with_keys", idx / 3, |c| {
            let pool = gap_pool(c, style, 14, 600); let kmode = c.rng.below(2) as u32; c.input_str("keymode", &kmode.to_string());
            // the same configuration through TrieBlobStoreConfig::builder()
            let base = trie_cfg(which); let via_builder = c.rng.bool(); c.input_str("cfg_via_builder", &via_builder.to_string());
            let cfg = if via_builder { ctor!(TrieBlobStoreConfig::builder().trie_config(base.trie_config.clone()).blob_config(base.blob_config.clone()).memory_config(base.memory_config.clone()).key_compression(base.enable_key_compression).batch_optimization(base.enable_batch_optimization).key_cache_size(base.key_cache_size).statistics(base.enable_statistics).build(), "TrieBlobStoreConfigBuilder::build") } else { base };
            let mut t = BBI(if which == "default" && !via_builder && c.rng.bool() { ctor!(Trie::default(), "default") } else { ctor!(Trie::new(cfg), "new") });
            let mut m = Model::default(); let mut km = KeyModel::default(); let mut serial = 0usize; let mut ktrace = Vec::new();
            for round in 0..4 {
                let k = c.rng.usize_below(7); let mut entries: Vec<(Vec<u8>, Vec<u8>)> = Vec::new();
                for _ in 0..k { serial += 1; let key = trie_key(&mut c.rng, kmode, serial); tag_keys(c, &key); ktrace.extend_from_slice(&key); ktrace.push(b'|'); entries.push((key, pool[c.rng.usize_below(pool.len())].clone())); }
                let at = format!("round {round}: put_batch_with_keys({k} entries)");
                match t.0.put_batch_with_keys(entries.clone()) {
                    Ok(ids) => { ensure!(ids.len() == k, "put_batch_len", "{at} returned {} ids", ids.len()); for (i, (key, data)) in entries.into_iter().enumerate() { m.issue(ids[i], &data, &at)?; km.latest.insert(key.clone(), (ids[i], data)); km.key_of.insert(ids[i], key); } }
                    Err(e) => { c.note("put_batch_err_stop", 1); c.log(format!("{at}: {e}")); return Ok(()); } }
                check_all(c, &t, &m, &at)?; check_keys(c, &mut t.0, &km, &at, true)?; gap_keys_with_prefix(c, &t.0, &km, &at)?;
                // a single put_with_key and a removal in between
                serial += 1; let key = trie_key(&mut c.rng, kmode, serial); let data = pool[c.rng.usize_below(pool.len())].clone(); ktrace.extend_from_slice(&key); ktrace.push(b'|');
                if let Ok(id) = t.0.put_with_key(&key, &data) { m.issue(id, &data, "put_with_key")?; km.latest.insert(key.clone(), (id, data)); km.key_of.insert(id, key); }
                let live: Vec<u32> = m.live.keys().copied().collect();
                if !live.is_empty() && c.rng.bool() { let id = *c.rng.pick(&live); if t.0.remove(id).is_ok() { m.unissue(id); if let Some(k) = km.key_of.remove(&id) { km.latest.remove(&k); } } }
                let at = format!("round {round}: after put_with_key / remove"); check_all(c, &t, &m, &at)?; check_keys(c, &mut t.0, &km, &at, true)?; gap_keys_with_prefix(c, &t.0, &km, &at)?;
            }
            c.input("keys", &ktrace); c.note("key_count", t.0.key_count() as u64); c.set_nontrivial(m.issued.len() >= 2);
            check_batch_iter(c, &t, &m, "final")
        });
        ctx.case(&format!("trie_builder_keys/{which}"), "gap_add_batch_progress", idx / 3, |c| {
            let cfg = trie_cfg(which); let sorted = cfg.enable_batch_optimization; let kmode = c.rng.below(2) as u32; c.input_str("keymode", &kmode.to_string());
            let n = if c.rng.bool() { *c.rng.pick(&[0usize, 1, 2, 3, 16, 64, 101, 102]) } else { 1 + c.rng.usize_below(120) };
            let recs = mk_pool(&mut c.rng, style, n, 300); c.input_str("n", &n.to_string()); record_pool(c, style, &recs);
            let mut b = if which == "default" && c.rng.bool() { ctor!(Trie::builder_default(), "builder_default") } else { ctor!(Trie::builder(cfg), "builder") };
            ensure!(b.is_empty() && b.len() == 0, "builder_len", "fresh builder len()={}", b.len()); b.reserve(n); let _ = b.config().key_cache_size;
            let mut km = KeyModel::default(); let mut order: Vec<(Vec<u8>, Vec<u8>)> = Vec::new(); let mut ktrace = Vec::new();
            for (i, r) in recs.iter().enumerate() { let key = trie_key(&mut c.rng, kmode, i); ktrace.extend_from_slice(&key); ktrace.push(b'|'); km.latest.insert(key.clone(), (i as u32, r.clone())); order.push((key, r.clone())); }
            c.input("keys", &ktrace);
            let cut = c.rng.usize_below(n + 1); c.input_str("cut", &cut.to_string());
            if let Err(e) = b.add_batch(order[..cut].to_vec()) { return Err(bad("builder_add_err", format!("add_batch of {cut} entries failed: {e}"))); }
            for (k, v) in &order[cut..] { if let Err(e) = b.add(k, v) { return Err(bad("builder_add_err", format!("add failed: {e}"))); } }
            ensure!(b.len() == n && b.is_empty() == (n == 0), "builder_len", "builder len()={} after {n} entries", b.len());
            let mut calls: Vec<(usize, usize)> = Vec::new();
            let mut t = match catch(|| b.finish_with_progress(|a, b2| calls.push((a, b2)))) { Ok(Ok(t)) => t, Ok(Err(e)) => { c.note("finish_err", 1); c.log(format!("finish_with_progress: {e}")); return Ok(()); } Err(p) => return Err(bad("finish_panic", format!("finish_with_progress of {n} entries panicked at {}: {}", p.loc, p.msg))) };
            c.set_nontrivial(n >= 2);
            if n > 0 { ensure!(calls.last() == Some(&(n, n)), "progress_last", "last progress call {:?}, want ({n}, {n})", calls.last()); }
            for w in calls.windows(2) { ensure!(w[0].0 < w[1].0 && w[1].1 == n, "progress_order", "progress calls not increasing / wrong total: {:?}", calls); }
            if sorted { order.sort_by(|a, b2| a.0.cmp(&b2.0)); }
            let mut m = Model::default(); for (i, (_, v)) in order.iter().enumerate() { m.issue(i as u32, v, "builder")?; }
            let w = BBI(t); check_all(c, &w, &m, "built store")?; check_batch_iter(c, &w, &m, "built store")?; t = w.0;
            check_keys(c, &mut t, &km, "built store", true)?; gap_keys_with_prefix(c, &t, &km, "built store")?;
            ensure!(t.is_finalized(), "not_finalized", "finish_with_progress() returned a store that is not finalized"); Ok(())
        });
        ctx.case("trie_build_from", ["gap_kv_pairs", "gap_sortable_str_vec", "gap_zo_sorted_str_vec", "gap_fixed_len_str_vec", "gap_vec_u8"][(idx % 5) as usize], idx / 5, |c| {
            let cfg = gap_nlt_cfg(c); let n = 1 + c.rng.usize_below(40);
            match idx % 5 {
                0 => { let strs = gap_strings(c, n); let vals = mk_pool(&mut c.rng, style, n, 300); record_pool(c, style, &vals);
                    let pairs: Vec<(Vec<u8>, Vec<u8>)> = strs.iter().zip(vals.iter()).map(|(k, v)| (k.clone().into_bytes(), v.clone())).collect();
                    let t = match Trie::build_from_key_value_pairs(&pairs, &cfg) { Ok(t) => t, Err(e) => { c.note("build_err", 1); c.log(format!("{e}")); return Ok(()); } };
                    let mut m = Model::default(); let mut km = KeyModel::default(); for (i, (k, v)) in pairs.iter().enumerate() { m.issue(i as u32, v, "build_from_key_value_pairs")?; km.latest.insert(k.clone(), (i as u32, v.clone())); km.key_of.insert(i as u32, k.clone()); }
                    c.set_nontrivial(n >= 2); let w = BBI(t); check_all(c, &w, &m, "build_from_key_value_pairs")?; check_batch_iter(c, &w, &m, "build_from_key_value_pairs")?; let mut t = w.0;
                    check_keys(c, &mut t, &km, "build_from_key_value_pairs", true)?; gap_keys_with_prefix(c, &t, &km, "build_from_key_value_pairs")?;
                    if Trie::build_from_key_value_pairs(&[], &cfg).is_ok() { c.note("empty_pairs_accepted", 1); } Ok(()) }
                1 => { let strs = gap_strings(c, n); let mut v = SortableStrVec::new(); for s in &strs { if v.push_str(s).is_err() { return Err(bad("__inconclusive", "SortableStrVec::push_str failed".into())); } }
                    let expect: Vec<Vec<u8>> = (0..v.len()).filter_map(|i| v.get(i).map(|s| s.as_bytes().to_vec())).collect();
                    let t = match Trie::build_from_sortable_str_vec(&v, &cfg) { Ok(t) => t, Err(e) => { c.note("build_err", 1); c.log(format!("{e}")); return Ok(()); } };
                    gap_check_key_is_value(c, t, &expect, "build_from_sortable_str_vec") }
                2 => { let strs = gap_strings(c, n); let v = match ZoSortedStrVec::from_strings(strs) { Ok(v) => v, Err(e) => return Err(bad("__inconclusive", format!("ZoSortedStrVec::from_strings: {e}"))) };
                    let expect: Vec<Vec<u8>> = (0..v.len()).filter_map(|i| v.get(i).map(|s| s.as_bytes().to_vec())).collect();
                    let t = match Trie::build_from_zo_sorted_str_vec(&v, &cfg) { Ok(t) => t, Err(e) => { c.note("build_err", 1); c.log(format!("{e}")); return Ok(()); } };
                    gap_check_key_is_value(c, t, &expect, "build_from_zo_sorted_str_vec") }
                3 => { let strs = gap_strings(c, n); let mut v: FixedLenStrVec<16> = FixedLenStrVec::new(); for s in &strs { if v.push(s).is_err() { return Err(bad("__inconclusive", "FixedLenStrVec::push failed".into())); } }
                    let expect: Vec<Vec<u8>> = (0..v.len()).filter_map(|i| v.get(i).map(|s| s.as_bytes().to_vec())).collect();
                    let t = match Trie::build_from_fixed_len_str_vec(&v, &cfg) { Ok(t) => t, Err(e) => { c.note("build_err", 1); c.log(format!("{e}")); return Ok(()); } };
                    gap_check_key_is_value(c, t, &expect, "build_from_fixed_len_str_vec") }
                _ => { let l = 1 + c.rng.usize_below(200); let data: Vec<u8> = (0..l).map(|_| b'a' + c.rng.below(20) as u8).collect(); c.input("data", &data);
                    let t = match if c.rng.bool() { Trie::build_from_vec_u8(&data, &cfg) } else { Trie::build_from_slice_u8(&data, &cfg) } { Ok(t) => t, Err(e) => { c.note("build_err", 1); c.log(format!("{e}")); return Ok(()); } };
                    c.set_nontrivial(true); if Trie::build_from_vec_u8(&[], &cfg).is_ok() { c.note("empty_data_accepted", 1); }
                    gap_check_key_is_value(c, t, &[data.clone()], "build_from_vec_u8") }
            }
        });
    }
    // --- DictZip: build_from_* constructors, builder setters, dictionary save / load, optimize, iter_blobs_vec -------------------
    for idx in 0..ctx.n(15, 200) as u64 {
        let style = [4u32, 2, 0, 5, 1][(idx % 5) as usize]; let fam = ["gap_build_from_samples", "gap_build_from_str_vecs", "gap_builder_setters", "gap_dictionary_file", "gap_build_from_vec_u8"][(idx % 5) as usize];
        ctx.case("dictzip/gap", fam, idx / 5, |c| {
            let n = 4 + c.rng.usize_below(10); let pool: Vec<Vec<u8>> = mk_pool(&mut c.rng, style, n, 300).into_iter().filter(|r| !r.is_empty()).collect(); record_pool(c, style, &pool);
            let mut samples: Vec<Vec<u8>> = pool.iter().filter(|_| c.rng.chance(2, 3)).map(|r| r[..r.len().min(600)].to_vec()).collect();
            if samples.is_empty() { samples.push(b"the quick brown fox jumps over the lazy dog, the quick brown fox".to_vec()); }
            let pool = if pool.is_empty() { samples.clone() } else { pool };
            let d = tempfile::tempdir().map_err(|e| bad("__inconclusive", format!("tempdir: {e}")))?;
            let refuse = |c: &mut Case, what: &str, e: zipora::error::ZiporaError| -> Fail { c.note("ctor_refused", 1); bad("__inconclusive", format!("{what} refused the training set: {e}")) };
            let store = match fam {
                "gap_build_from_samples" => { let cfg = gap_nlt_cfg(c); if DictZipBlobStore::build_from_training_samples(&[], &cfg).is_ok() { c.note("empty_samples_accepted", 1); }
                    match DictZipBlobStore::build_from_training_samples(&samples, &cfg) { Ok(s) => s, Err(e) => return Err(refuse(c, "build_from_training_samples", e)) } }
                "gap_build_from_vec_u8" => { let cfg = gap_nlt_cfg(c); let all: Vec<u8> = samples.concat(); match DictZipBlobStore::build_from_vec_u8(&all, &cfg) { Ok(s) => s, Err(e) => return Err(refuse(c, "build_from_vec_u8", e)) } }
                "gap_build_from_str_vecs" => { let cfg = gap_nlt_cfg(c); let strs = gap_strings(c, 12); let kind = c.rng.below(3); c.input_str("container", &kind.to_string());
                    let r = match kind { 0 => { let mut v = SortableStrVec::new(); for s in &strs { let _ = v.push_str(s); } DictZipBlobStore::build_from_sortable_str_vec(&v, &cfg) }
                        1 => match ZoSortedStrVec::from_strings(strs.clone()) { Ok(v) => DictZipBlobStore::build_from_zo_sorted_str_vec(&v, &cfg), Err(e) => return Err(bad("__inconclusive", format!("ZoSortedStrVec::from_strings: {e}"))) },
                        _ => { let mut v: FixedLenStrVec<16> = FixedLenStrVec::new(); for s in &strs { let _ = v.push(s); } DictZipBlobStore::build_from_fixed_len_str_vec(&v, &cfg) } };
                    match r { Ok(s) => s, Err(e) => return Err(refuse(c, "build_from_*_str_vec", e)) } }
                "gap_builder_setters" => {
                    let mut cfg = DictZipConfig::default().with_cache_size_mb(1 + c.rng.usize_below(2)).with_min_compression_size(*c.rng.pick(&[1usize, 16, 64]));
                    let ext = c.rng.bool(); if ext { cfg = cfg.with_external_dictionary(d.path().join("ext.dict")); } c.input_str("external_dictionary", &ext.to_string());
                    let mut b = if ext || c.rng.bool() { ctor!(DictZipBlobStoreBuilder::with_config(cfg), "with_config") } else { ctor!(DictZipBlobStoreBuilder::new(), "DictZipBlobStoreBuilder::new") };
                    let cut = c.rng.usize_below(samples.len() + 1);
                    if let Err(e) = b.add_training_samples(samples[..cut].to_vec()) { return Err(bad("ctor_err", format!("add_training_samples of non-empty samples failed: {e}"))); }
                    let f = d.path().join("train.bin"); let rest: Vec<u8> = samples[cut..].concat();
                    if !rest.is_empty() { std::fs::write(&f, &rest).map_err(|e| bad("__inconclusive", format!("write: {e}")))?; if let Err(e) = b.add_training_file(&f) { return Err(bad("ctor_err", format!("add_training_file failed: {e}"))); } }
                    let (ns, nb) = b.training_stats(); c.note("training_samples", ns as u64); c.note("training_bytes", nb as u64);
                    let (sa, sb, sc) = (c.rng.bool(), c.rng.bool(), c.rng.bool()); let mf = 1 + c.rng.below(3) as u32; c.input_str("setters", &format!("set_dict_size_mb(1):{sa} set_min_frequency({mf}):{sb} enable_advanced_caching:{sc}"));
                    if sa { let _ = b.set_dict_size_mb(1); } if sb { let _ = b.set_min_frequency(mf); } if sc { let _ = b.enable_advanced_caching(); }
                    let seen = std::sync::Arc::new(std::sync::atomic::AtomicU64::new(0)); let s2 = seen.clone(); b.set_progress_callback(move |_f| { s2.fetch_add(1, std::sync::atomic::Ordering::Relaxed); });
                    let s = match b.finish() { Ok(s) => s, Err(e) => return Err(refuse(c, "DictZipBlobStoreBuilder::finish", e)) }; c.note("progress_calls", seen.load(std::sync::atomic::Ordering::Relaxed)); s }
                _ => { // a dictionary saved by one store and loaded into others
                    let mut b = ctor!(DictZipBlobStoreBuilder::with_config(DictZipConfig::default()), "with_config"); for s in &samples { let _ = b.add_training_sample(s); }
                    let s0 = match b.finish() { Ok(s) => s, Err(e) => return Err(refuse(c, "DictZipBlobStoreBuilder::finish", e)) };
                    let f = d.path().join("dict.bin"); if let Err(e) = s0.save_dictionary(&f) { return Err(bad("save_err", format!("save_dictionary failed: {e}"))); }
                    if c.rng.bool() { c.input_str("via", "from_dictionary_file"); match DictZipBlobStore::from_dictionary_file(&f, DictZipConfig::default()) { Ok(s) => s, Err(e) => return Err(bad("load_err", format!("from_dictionary_file of a dictionary written by save_dictionary failed: {e}"))) } }
                    else { c.input_str("via", "load_dictionary"); let mut s1 = s0;
                        // records put before load_dictionary(): the documentation leaves their fate open (the implementation drops them) -> not asserted
                        let _ = s1.put(&pool[0]);
                        if let Err(e) = s1.load_dictionary(&f) { return Err(bad("load_err", format!("load_dictionary of a dictionary written by save_dictionary failed: {e}"))); }
                        c.note("records_surviving_load_dictionary", s1.len() as u64);
                        if s1.len() != 0 { return Err(bad("__inconclusive", "load_dictionary kept earlier records: model unknown".into())); } s1 } }
            };
            let _ = store.dictionary_stats();
            let mut s = DZ(store); let mut m = Model::default(); let p = Prof { batch_nonempty: true, max_live: 10, ..PROF };
            for round in 0..2 {
                history(c, &mut s, &mut m, &pool, p, 14)?;
                match s.0.iter_blobs_vec() { Ok(v) => { let got: BTreeMap<u32, Vec<u8>> = v.iter().cloned().collect(); ensure!(got.len() == v.len(), "iter_blobs_dup", "iter_blobs_vec yields an id twice"); ensure!(got == m.live, "iter_blobs_mismatch", "round {round}: iter_blobs_vec returned ids {:?}, live {:?} (or a record differs)", got.keys().collect::<Vec<_>>(), m.live.keys().collect::<Vec<_>>()); c.ev(1); }
                    Err(e) => return Err(bad("iter_blobs_err", format!("iter_blobs_vec failed with {} live records: {e}", m.live.len()))) }
                if s.0.validate().is_err() { c.note("validate_err", 1); }
                match catch(|| s.0.optimize()) { Ok(r) => { if r.is_err() { c.note("optimize_err", 1); } } Err(p) => return Err(bad("optimize_panic", format!("optimize() panicked at {}: {}", p.loc, p.msg))) }
                pre("optimized_", check_all(c, &s, &m, "after optimize()"))?;
            }
            s.coverage(c); Ok(())
        });
    }
}

pub fn run(ctx: &mut Ctx) {
    witnesses(ctx);
    mutable_targets(ctx);
    bulk_targets(ctx);
    trie_targets(ctx);
    dictzip_targets(ctx);
    // large-input families (names start with `huge_`), appended so that the sequence numbers of the cases above do not move
    for md in [MODE_SIZES, MODE_COUNT] { MODE.store(md, std::sync::atomic::Ordering::Relaxed); mutable_targets(ctx); dictzip_targets(ctx); }
    MODE.store(0, std::sync::atomic::Ordering::Relaxed);
    huge_bulk_targets(ctx);
    huge_trie_targets(ctx);
    // families named `gap_*`: API entry points no other family reaches
    gap_targets(ctx);
}
